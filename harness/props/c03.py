"""C03 — Calendar grouping partitions the data; statistics equal those of the groups.

Model: lean/Ladybug/Model/Group.lean (polymorphic grouping) + Model/Stats.lean (statistics over Rat)
+ Model/GroupObj.lean (object state machine: `_datetimes` slot, `values =`, `coll[i] =`,
`convert_to_culled_timestep`, refused operations), on top of Model/AP.lean and Model/Cal.lean;
theorems: lean/Ladybug/Props/C03.lean (lemmas Proofs/C03*.lean); driver: drv_c03.
Tie: correspondence (C) on the ops below, incl. whole operation histories compared step by step.

The model describes ladybug/datacollection.py WITH fixes/C03_1..C03_7 applied (see Model/Group.lean) and with
the refusal of a non-dividing in-place cull of a continuous collection (/repo 2b7dc5a).

Producers and their consumers (each consumer is exercised by the correspondence and/or the oracle, so a
producer changed together with ONE consumer shows in the others):

  _percentile                   percentile(), median, _get_percentile_function -> hourly percentile_daily /
                                _monthly / _monthly_per_hour (_time_interval_operation) AND
                                DailyCollection.percentile_monthly (_monthly_operation)  [oracle: order_stats,
                                stats_of_groups, daily_month with values NOT in ascending order, histories]
  _average / _total             average/total properties, hourly average_/total_ daily|monthly|monthly_per_hour,
                                DailyCollection.average_/total_monthly
  group_by_day / _month (disc)  *_daily / *_monthly of discontinuous collections; overridden (slices) in the
                                continuous class; inherited by the immutable twins (tuples instead of lists)
  group_by_month_per_hour       *_monthly_per_hour of both hourly classes (continuous inherits it)
  HourlyContinuousCollection.datetimes (lazy slot)
                                group_by_month_per_hour, *_monthly_per_hour, to_discontinuous(), duplicate /
                                to_immutable / to_mutable twins, convert_to_culled_timestep  [reads `dts`, `twin`]
  header.analysis_period        doys_int / months_int / months_per_hour listings of the three interval ops,
                                _num_of_days_each_month + st_time in the slice arithmetic
  DailyCollection.group_by_month
                                average_/total_/percentile_monthly of daily data - directly built AND derived
                                from hourly data (`daily_of`: hourly -> *_daily -> group_by_month / *_monthly)
  values setter / __setitem__ / convert_to_culled_timestep / convert_to_unit|ip|si
                                every read above, on the same object, after the operation was accepted or refused

Round 3: operation histories on one object and on families of objects in one process (read -> set -> read,
refused operations followed by reads, the same question twice, collections that differ in one respect -
leap flag, same day numbers in the other kind of year, timestep, shifted, same period - interleaved),
the same cases in 3-4 fresh interpreters in different orders (rare classes first in one of them).

Round 4 (kinds e-j):
  (e) every operation on every concrete class: `order_stats` runs on the five collection classes and their
      immutable twins; `partition` / `stats_of_groups` / `daily_month` take an `imm` flag; `cont_vs_disc`
      compares the continuous class with its immutable twin, its to_discontinuous() image and an independently
      built immutable discontinuous collection (groups, interval statistics, order statistics).
  (f) every sequence argument in every container (`shapes`: values as list / tuple / deque / array /
      dict values / python ints; datetimes as list / tuple / generator / iter / map / deque; the lists handed to
      a constructor or to `values =` are edited afterwards); every answer that is a container is edited in
      place and the question asked again (`ask` 2, `edited-answer-*`); answers are kept and looked at again after
      later calls (`earlier-answer-changed`); reads must leave values / datetimes as they were.
  (g) conventions between anchored functions, each with inputs on which the plausible alternatives differ:
      day number 1-based + kind of year (daily -> month through DateTime.from_hoy; last days of the months in
      both kinds of year), month number vs position in the days-per-month table (periods starting after
      February in leap years), percentile 0..100 vs 0..1 (p inside (0,1)), mean of the group vs mean of daily
      means (groups of unequal size), kind of year of a result header (a day number names a date only with it:
      `result-leap-flag`, and the daily->monthly chain).
  (h) no absolute tolerance: float noise is bounded relative to the data of the statistic (`_tol`), value
      strata 'tiny' (1e-12 .. 1e-200), 'huge' (1e15..1e16), 'zeros', 'cancel' (totals 0 with data), 'half'.
  (i) numbers as text and in other forms: periods built by from_string (also zero-padded / upper case),
      string arguments, from_dict, documented defaults given as None / 0, from_start_end_datetime; DateTimes by
      constructor / from_moy / from_hoy / from_date_time_string / from_array / from_dict; counts as 2.0 / '2';
      unsorted and repeated days in daily collections.
  (j) branches of the anchored functions, each reached by a counted stratum `branch:…` (evidence):
      disc.group_by_day  365 / 366 keys;  cont.group_by_day  plain period / wrapped period (two loops);
      cont.group_by_month  single month (no loop) / several months / month visited twice, first month partial /
      whole;  group_by_month_per_hour  per timestep;  cont.datetimes  lazy first use / slot already filled;
      _time_interval_operation  average / total / percentile, daily / monthly / monthlyperhour, empty group
      skipped / every group filled / group of zeros is not empty, new header (sub-hourly daily|monthly) / header
      duplicated  [the `else: raise ValueError('Invalid input value for interval')` branch is unreachable
      through the public API: the three public callers pass constants];  _monthly_operation  empty month
      skipped;  daily.group_by_month  leap / common, days not ascending, repeated day, last day of a month /
      of the year;  _percentile  f == c / interpolated / single value;  highest_/lowest_values  count one /
      some / all, ties, count as int / float / str, refused (0, n + 1, negative);  values setter  accepted /
      wrong length / empty / not a sequence / one-shot iterable / immutable;  convert_to_culled_timestep
      accepted / refused.
"""
import itertools
import json
import math
import os
import statistics
import struct
from datetime import date, datetime, timedelta
from fractions import Fraction

from harness import core
from harness.core import compare_batch, err_name, run_oracle_cases

PROP = 'C03'
PROOF_MODULES = ['Ladybug.Props.C03']
GREP_MODULES = ['Ladybug.Py', 'Ladybug.Model.Cal', 'Ladybug.Model.AP', 'Ladybug.Model.Group',
                'Ladybug.Model.Stats', 'Ladybug.Proofs.C03Dict', 'Ladybug.Proofs.C03Cont',
                'Ladybug.Proofs.C03Stats', 'Ladybug.Proofs.C03Samples', 'Ladybug.Proofs.C03Month', 'Ladybug.Proofs.C03Mph', 'Ladybug.Model.GroupObj', 'Ladybug.Proofs.C03Obj', 'Ladybug.Proofs.C03Cull', 'Ladybug.Drv.C03',
                'Ladybug.DrvCore']
RULE = ('correspondence: hourly collections built from plain numbers — continuous (whole-day periods: '
        'annual / partial / year-wrapping / wrapping inside one month, 12 timesteps, leap) and '
        'discontinuous (any hour window; datetimes = the period, a subset with holes, shuffled, '
        'duplicated, outside the period, off the timestep grid, other leap flag) with distinct ids as '
        'values; group_by_day/month/month_per_hour dictionaries compared key by key in order; '
        'average_/total_/percentile_ daily|monthly|monthly_per_hour compared on keys, header timestep '
        'and values (bit-exact where the float computation is exact, else 1e-9); percentile/median/'
        'min/max/average/total/highest/lowest on integer, dyadic, tied and random float lists; '
        'DailyCollection.group_by_month and its monthly statistics; operation HISTORIES on one object '
        '(continuous / discontinuous / daily, mutable and immutable twins: reads in random order and repeated, '
        'values =, coll[i] =, convert_to_culled_timestep, refused calls followed by reads) compared step by '
        'step with the object state machine of the model.  oracle: every value regrouped by '
        'its own stdlib datetime, statistics recomputed with Fractions from those groups, continuous '
        'vs to_discontinuous(), textbook percentile/median/order statistics; histories over 1-3 objects '
        'that differ in one respect (leap flag, same day numbers in the other kind of year, timestep, '
        'shifted, same period) with unit conversions and the daily->monthly consumer chain, every read '
        'compared with the statement on the public state the user established (a refused operation must '
        'leave every read as before); a slice of the stream re-run in 3-4 fresh interpreters in different '
        'orders (rare classes first / last / shuffled), failures shrunk to a short replayable order.  A case is non-trivial '
        'when the implementation returns a value (not a rejection); distinct = distinct (op, input).')
TRUSTED_BASE = [
    'model of AnalysisPeriod (Model/AP.lean, tied by the C04 check) supplies moys/doys_int/months_int/'
    'months_per_hour/len; model of DateTime (Model/Cal.lean, tied by the C08 check)',
    'modelled, not verified: Python sorted()/list.sort stability (Lean List.mergeSort is used as its '
    'model and compared on lists with ties), OrderedDict insertion order, float arithmetic of '
    'sum/len and of the percentile weights (theorems are over exact rationals)',
    'Header/metadata handling of _time_interval_operation is compared only for the header timestep',
]
ASSUMPTIONS = [
    'CPython datetime is the reference calendar of the oracle',
    '/repo carries fixes/C03_1..C03_5 (on a tree without them the check reports the violation); '
    'fixes/C03_6 (immutable continuous group_by_month) is proposed, until it is committed the defect is '
    'reported as KNOWN-FINDING C03-immutable-continuous-group-by-month (committed since: 42b506d); '
    'fixes/C03_7 (immutable continuous group_by_month over a month visited twice) is proposed, until it is '
    'committed the defect is reported as KNOWN-FINDING C03-immutable-continuous-month-visited-twice',
    'histories: an operation the documented validation refuses but the code accepts puts the object in '
    'the state it reports through values / datetimes / header (the property is then checked on that)',
    'values are finite numbers (no NaN)',
]

VALID_TS = (1, 2, 3, 4, 5, 6, 10, 12, 15, 20, 30, 60)
MLEN = {False: (31, 28, 31, 30, 31, 30, 31, 31, 30, 31, 30, 31),
        True: (31, 29, 31, 30, 31, 30, 31, 31, 30, 31, 30, 31)}


# ---------------------------------------------------------------------------------------------
# plain-number helpers (stdlib only: nothing here calls ladybug)


def _b(x):
    return '1' if x else '0'


def _year(leap):
    return 2016 if leap else 2017


def _year_minutes(leap):
    return 527040 if leap else 525600


def _moy(leap, month, day, hour=0, minute=0):
    y = _year(leap)
    return int((datetime(y, month, day, hour, minute) - datetime(y, 1, 1)).total_seconds() // 60)


def _ref_dt(leap, moy):
    return datetime(_year(leap), 1, 1) + timedelta(minutes=moy)


def ref_moys(t):
    """Independent enumeration of the steps of period t (C04's description), chronological from the start."""
    sm, sd, sh, em, ed, eh, ts, leap = t
    st, en = _moy(leap, sm, sd, sh), _moy(leap, em, ed, eh)
    step = 60 // ts
    n = _year_minutes(leap)

    def inwin(mod):
        if sh <= eh:
            return (sh * 60 <= mod <= eh * 60) or (sh == 0 and eh == 23)
        return mod >= sh * 60 or mod <= eh * 60

    if st <= en:
        rg = range(st, en + 60, step)
    else:
        rg = itertools.chain(range(st, n, step), range(0, en + 60, step))
    return [m for m in rg if inwin(m % 1440)]


def _runs(l):
    """[3,4,5,9,1,2] -> '3-5,9,1-2' (same compression as the model driver)."""
    if not l:
        return '-'
    out = []
    a = b = l[0]
    for x in l[1:]:
        if x == b + 1:
            b = x
        else:
            out.append(str(a) if a == b else '%d-%d' % (a, b))
            a = b = x
    out.append(str(a) if a == b else '%d-%d' % (a, b))
    return ','.join(out)


def _show_dict_nat(d):
    items = list(d.items())
    return 'ok keys ' + _runs([k for k, _ in items]) + ' groups' + \
        ''.join(' %d=%s' % (k, _runs(list(v))) for k, v in items if len(v))


def _k3(k):
    return '%d.%d.%d' % tuple(k)


def _show_dict_mph(d):
    items = list(d.items())
    return 'ok keys ' + ','.join(_k3(k) for k, _ in items) + ' groups' + \
        ''.join(' %s=%s' % (_k3(k), _runs(list(v))) for k, v in items if len(v))


def _ap_tokens(t):
    return ' '.join(str(x) for x in t[:7]) + ' ' + _b(t[7])


def _frac_tok(x):
    fr = Fraction(x)
    return str(fr.numerator) if fr.denominator == 1 else '%d/%d' % (fr.numerator, fr.denominator)


def _fbits(x):
    return struct.unpack('<Q', struct.pack('<d', float(x)))[0]


# ---------------------------------------------------------------------------------------------
# building the real objects


# Input shapes (round 4, kinds f / i): every collection is built with its period, its datetimes and its
# values handed over in one of several equivalent FORMS.  `shapes` is a dict with the keys
#   ap   ints | strargs | string | string0 | dict | falsy | startend         (how the AnalysisPeriod is made)
#   v    list | tuple | deque | array | dictvalues | pyint                   (container of the values)
#   d    list | tuple | gen | iter | map | deque                              (container of the datetimes)
#   dt   ctor | moy | hoy | string | array | dict                            (how each DateTime is made)
#   scr  True: the lists handed to the constructor are scrambled afterwards  (the collection holds copies)
# Absent -> chosen deterministically from the data (`_auto_shapes`), so that a stored input replays alike.
AP_FORMS = ('ints', 'strargs', 'string', 'string0', 'dict', 'falsy', 'startend')
V_FORMS = ('list', 'tuple', 'deque', 'array', 'dictvalues', 'pyint')
D_FORMS = ('list', 'tuple', 'gen', 'iter', 'map', 'deque')
DT_FORMS = ('ctor', 'moy', 'hoy', 'string', 'array', 'dict')
MONTH_ABBR = ('Jan', 'Feb', 'Mar', 'Apr', 'May', 'Jun', 'Jul', 'Aug', 'Sep', 'Oct', 'Nov', 'Dec')
PLAIN_SHAPES = {'ap': 'ints', 'v': 'list', 'd': 'list', 'dt': 'ctor', 'scr': False}
SHAPE_COUNTS = {}


def _auto_shapes(*facts):
    """Deterministic pick of the forms from the facts of an input (a third stays plain)."""
    import zlib
    h = zlib.crc32(repr(facts).encode('utf-8'))
    if h % 3 == 0:
        return dict(PLAIN_SHAPES)
    h //= 3
    sh = {}
    for key, forms in (('ap', AP_FORMS), ('v', V_FORMS), ('d', D_FORMS), ('dt', DT_FORMS)):
        sh[key] = forms[h % len(forms)]
        h //= len(forms)
    sh['scr'] = h % 2 == 0
    return sh


def _shape_note(sh):
    for k in ('ap', 'v', 'd', 'dt'):
        key = 'shape:%s:%s' % (k, sh.get(k, PLAIN_SHAPES[k]))
        SHAPE_COUNTS[key] = SHAPE_COUNTS.get(key, 0) + 1
    if sh.get('scr'):
        SHAPE_COUNTS['shape:arguments-scrambled-after-construction'] = \
            SHAPE_COUNTS.get('shape:arguments-scrambled-after-construction', 0) + 1


def _period_ok(t):
    try:
        sm, sd, sh, em, ed, eh, ts, leap = t
        return all(isinstance(x, int) and not isinstance(x, bool) for x in t[:7]) and ts in VALID_TS and \
            0 <= sh <= 23 and 0 <= eh <= 23 and _valid_t(t)
    except Exception:    # noqa: BLE001
        return False


def _period(t, form='ints'):
    """The AnalysisPeriod of the tuple t, made in the given form (all forms mean the same period)."""
    from ladybug.analysisperiod import AnalysisPeriod
    sm, sd, sh, em, ed, eh, ts, leap = t
    if form == 'ints' or not _period_ok(t):
        return AnalysisPeriod(*t)
    if form == 'strargs':
        return AnalysisPeriod(str(sm), str(sd), str(sh), str(em), str(ed), str(eh), ts, leap)
    if form in ('string', 'string0'):
        if form == 'string':
            text = '%d/%d to %d/%d between %d and %d @%d' % (sm, sd, em, ed, sh, eh, ts) + ('*' if leap else '')
        else:                               # blanks around everything, upper case, zero-padded fields
            text = ' %02d/%d To %d/%02d  between %02d and %d @%d%s ' % (sm, sd, em, ed, sh, eh, ts, '*' if leap else '')
        return AnalysisPeriod.from_string(text)
    if form == 'dict':
        return AnalysisPeriod.from_dict({'st_month': sm, 'st_day': sd, 'st_hour': sh, 'end_month': em,
                                         'end_day': ed, 'end_hour': eh, 'timestep': ts, 'is_leap_year': leap})
    if form == 'falsy':                     # documented defaults given as None / 0
        return AnalysisPeriod(sm if sm != 1 else None, sd if sd != 1 else 0, sh if sh != 0 else None,
                              em if em != 12 else None, ed if ed != 31 else 0, eh if eh != 23 else None,
                              ts if ts != 1 else 0, leap or None)
    if form == 'startend':
        from ladybug.dt import DateTime
        return AnalysisPeriod.from_start_end_datetime(DateTime(sm, sd, sh, 0, leap), DateTime(em, ed, eh, 0, leap), ts)
    raise ValueError('unknown period form %r' % (form,))


def _header(t, form='ints'):
    from ladybug.header import Header
    from ladybug.datatype.temperature import Temperature
    return Header(Temperature(), 'C', _period(t, form))


def _datetime(leap, moy, form='ctor'):
    from ladybug.dt import DateTime
    r = _ref_dt(leap, moy)
    if form == 'moy':
        return DateTime.from_moy(moy, leap)
    if form == 'hoy':
        return DateTime.from_hoy(moy / 60.0, leap)
    if form == 'string':
        return DateTime.from_date_time_string('%d %s %02d:%02d' % (r.day, MONTH_ABBR[r.month - 1], r.hour, r.minute), leap)
    if form == 'array':
        return DateTime.from_array((r.month, r.day, r.hour, r.minute, leap))
    if form == 'dict':
        return DateTime.from_dict({'month': r.month, 'day': r.day, 'hour': r.hour, 'minute': r.minute,
                                   'leap_year': leap})
    return DateTime(r.month, r.day, r.hour, r.minute, leap)


def _container(items, form):
    """-> (object handed to the constructor, list to scramble afterwards or None)."""
    import collections
    if form == 'tuple':
        return tuple(items), None
    if form == 'deque':
        return collections.deque(items), None
    if form == 'gen':
        return (x for x in items), None
    if form == 'iter':
        return iter(list(items)), None
    if form == 'map':
        return map(lambda x: x, list(items)), None
    if form == 'array':
        import array
        if all(isinstance(x, float) for x in items):
            return array.array('d', items), None
    if form == 'dictvalues':
        return dict(enumerate(items)).values(), None
    if form == 'pyint':
        items = [int(x) if isinstance(x, float) and x == int(x) and abs(x) < 2 ** 53 else x for x in items]
    lst = list(items)
    return lst, lst


def _scramble_list(lst):
    """Edit, in place, a list that was handed to the code under test (it must have taken a copy)."""
    if lst is None:
        return
    lst.reverse()
    for i in range(len(lst)):
        if isinstance(lst[i], (int, float)) and not isinstance(lst[i], bool):
            lst[i] = lst[i] + 1000003.0
    lst.append(lst[0] if lst else 0.0)


def _make(kind, t, stamps, values, imm=False, dleap=None, shapes=None):
    """Build one real collection.  kind: cont | disc | daily | monthly | mph; stamps: minutes of the year (disc),
    day numbers (daily), months (monthly), [month, hour, minute] (mph).  Nothing but construction happens here."""
    from ladybug import datacollection as dc, datacollectionimmutable as di
    t = tuple(t)
    sh = dict(PLAIN_SHAPES)
    sh.update(shapes if shapes is not None else
              _auto_shapes(kind, t, imm, len(values), list(stamps[:3]) if stamps else None, values[:2]))
    _shape_note(sh)
    h = _header(t, sh['ap'])
    vobj, vlist = _container(values, sh['v'])
    if kind == 'cont':
        c = (di.HourlyContinuousCollectionImmutable if imm else dc.HourlyContinuousCollection)(h, vobj)
        if sh['scr']:
            _scramble_list(vlist)
        return c
    if kind == 'disc':
        dl = t[7] if dleap is None else dleap
        items = [_datetime(dl, m, sh['dt']) for m in stamps]
        cls = di.HourlyDiscontinuousCollectionImmutable if imm else dc.HourlyDiscontinuousCollection
    elif kind == 'daily':
        items = list(stamps)
        cls = di.DailyCollectionImmutable if imm else dc.DailyCollection
    elif kind == 'monthly':
        items = list(stamps)
        cls = di.MonthlyCollectionImmutable if imm else dc.MonthlyCollection
    elif kind == 'mph':
        items = [tuple(k) for k in stamps]
        cls = di.MonthlyPerHourCollectionImmutable if imm else dc.MonthlyPerHourCollection
    else:
        raise ValueError('unknown kind %r' % (kind,))
    dobj, dlist = _container(items, sh['d'])
    c = cls(h, vobj, dobj)
    if sh['scr']:
        _scramble_list(vlist)
        if dlist is not None:
            dlist.reverse()
            dlist.append(dlist[0])
    return c


def _cont(t, values=None, imm=False, shapes=None):
    if values is None:
        try:
            values = list(range(len(ref_moys(t))))
        except ValueError:
            values = [0]
    return _make('cont', t, None, values, imm, None, shapes)


def _disc(t, dleap, moys, values=None, imm=False, shapes=None):
    if values is None:
        values = list(range(len(moys)))
    return _make('disc', t, moys, values, imm, dleap, shapes)


def _daily(t, doys, values=None, imm=False, shapes=None):
    if values is None:
        values = list(range(len(doys)))
    return _make('daily', t, doys, values, imm, None, shapes)


# ---------------------------------------------------------------------------------------------
# generators (plain numbers)


def _gen_date(rng, leap):
    r = rng.random()
    if r < 0.35:
        pool = [(1, 1), (12, 31), (2, 28), (3, 1), (1, 31), (2, 1), (12, 1), (6, 30), (7, 1), (12, 30), (1, 2)]
        if leap:
            pool += [(2, 29), (2, 29)]
        return rng.choice(pool)
    m = rng.randrange(1, 13)
    if r < 0.55:
        return m, rng.choice([1, MLEN[leap][m - 1]])
    return m, rng.randrange(1, MLEN[leap][m - 1] + 1)


def _span_days(t):
    sm, sd, _, em, ed, _, _, leap = t
    a = _moy(leap, sm, sd) // 1440
    b = _moy(leap, em, ed) // 1440
    n = 366 if leap else 365
    return (b - a) % n + 1 if (a, 0) <= (b, 0) or True else 0


def _gen_fullday(rng, max_steps):
    """A whole-day period (what a continuous collection needs), boundary-biased, size-capped."""
    for _ in range(200):
        leap = rng.random() < 0.45
        ts = rng.choice([1, 1, 1, 2, 2, 3, 4, 5, 6, 10, 12, 15, 20, 30, 60])
        r = rng.random()
        if r < 0.12:
            sm, sd, em, ed = 1, 1, 12, 31
        elif r < 0.30:                       # wraps the year end inside one month
            m = rng.randrange(1, 13)
            ed = rng.randrange(1, MLEN[leap][m - 1])
            sd = rng.randrange(ed + 1, MLEN[leap][m - 1] + 1)
            sm = em = m
        elif r < 0.45:                       # short wrap over new year
            a = rng.randrange(1, 40)
            b = rng.randrange(1, 40)
            d0 = date(_year(leap), 12, 31) - timedelta(days=a - 1)
            d1 = date(_year(leap), 1, 1) + timedelta(days=b - 1)
            sm, sd, em, ed = d0.month, d0.day, d1.month, d1.day
        else:
            (sm, sd), (em, ed) = _gen_date(rng, leap), _gen_date(rng, leap)
        t = (sm, sd, 0, em, ed, 23, ts, leap)
        a, b = _moy(leap, sm, sd), _moy(leap, em, ed, 23)
        days = ((b - a) % _year_minutes(leap)) // 1440 + 1
        if days * 24 * ts <= max_steps:
            return t
    return (1, 1, 0, 1, 2, 23, 1, False)


def _classify(t):
    sm, sd, sh, em, ed, eh, ts, leap = t
    a, b = _moy(leap, sm, sd, sh), _moy(leap, em, ed, eh)
    if (sm, sd, em, ed) == (1, 1, 12, 31):
        span = 'annual'
    elif a > b:
        span = 'wrap-same-month' if sm == em else 'wrap'
    else:
        span = 'partial'
    return span


def _gen_window_ap(rng):
    """Any valid period (hour windows, overnight) for discontinuous headers; small."""
    leap = rng.random() < 0.45
    ts = rng.choice([1, 1, 2, 3, 4, 5, 6, 10, 12, 15, 20, 30, 60])
    (sm, sd) = _gen_date(rng, leap)
    if rng.random() < 0.7:
        d0 = date(_year(leap), sm, sd) + timedelta(days=rng.choice([0, 1, 2, 5, 30, 45]))
        if d0.year != _year(leap):
            d0 = date(_year(leap), d0.month, d0.day)
        em, ed = d0.month, d0.day
    else:
        em, ed = _gen_date(rng, leap)
    sh, eh = rng.choice([(0, 23), (0, 23), (8, 17), (22, 5), (0, 11), (12, 23), (5, 5), (23, 0),
                         (rng.randrange(24), rng.randrange(24))])
    return (sm, sd, sh, em, ed, eh, ts, leap)


def _gen_disc(rng, cap=3000):
    """(period tuple, datetime leap flag, moys, tag) of a discontinuous collection."""
    for _ in range(50):
        t = _gen_window_ap(rng) if rng.random() < 0.6 else _gen_fullday(rng, cap)
        base = ref_moys(t)
        if 0 < len(base) <= cap * 3:
            break
    else:
        t = (1, 1, 0, 1, 3, 23, 1, False)
        base = ref_moys(t)
    leap = t[7]
    step = 60 // t[6]
    r = rng.random()
    dleap = leap
    if r < 0.25:
        moys, tag = list(base), 'full'
    elif r < 0.50:
        keep = rng.choice([0.9, 0.5, 0.1])
        moys = [m for m in base if rng.random() < keep] or [base[0]]
        tag = 'holes'
    elif r < 0.62:
        moys = list(base)
        rng.shuffle(moys)
        moys = moys[:rng.randrange(1, len(moys) + 1)]
        tag = 'shuffled'
    elif r < 0.72:
        moys = [rng.choice(base) for _ in range(rng.randrange(1, 60))]
        tag = 'duplicates'
    elif r < 0.84:                           # anywhere in the year, on the grid
        n = _year_minutes(leap)
        moys = sorted(rng.randrange(n // step) * step for _ in range(rng.randrange(1, 200)))
        moys += [n - step, 0, n - 1440]
        tag = 'outside-period'
    elif r < 0.92:                           # off the timestep grid (KeyError in month-per-hour)
        n = _year_minutes(leap)
        moys = sorted(rng.randrange(n) for _ in range(rng.randrange(1, 40)))
        tag = 'off-grid'
    else:                                    # datetimes carry the other leap flag
        dleap = not leap
        n = _year_minutes(dleap)
        moys = sorted(rng.randrange(n // step) * step for _ in range(rng.randrange(1, 100)))
        moys += [n - step, _moy(dleap, 3, 1), _moy(dleap, 2, 28)]
        tag = 'other-leap'
    return t, dleap, moys, tag


INEXACT_KINDS = ('float', 'tiny', 'huge')


def _gen_values(rng, n, kind=None):
    """Value lists: 'int' (exact in floats), 'dyadic', 'ties', 'float'; round 4: 'tiny' (1e-12 and below),
    'huge' (1e15..1e16), 'zeros' (whole days / months of 0.0, or nothing but zeros), 'cancel' (x, -x pairs:
    totals and averages of 0 with data present), 'half' (values on .5: medians and percentiles on a half)."""
    kind = kind or rng.choice(['int', 'int', 'int', 'dyadic', 'ties', 'float', 'float', 'tiny', 'huge', 'zeros',
                               'cancel', 'half'])
    if kind == 'int':
        vals = [float(rng.randrange(-50, 1000)) for _ in range(n)]
    elif kind == 'dyadic':
        vals = [rng.randrange(-4000, 4000) / 8.0 for _ in range(n)]
    elif kind == 'ties':
        vals = [float(rng.randrange(0, 4)) for _ in range(n)]
    elif kind == 'tiny':
        sc = rng.choice([1e-12, 1e-12, 1e-15, 1e-200])
        vals = [rng.uniform(-4.0, 6.0) * sc for _ in range(n)]
    elif kind == 'huge':
        vals = [float(rng.randrange(-2 ** 50, 2 ** 53)) for _ in range(n)]
    elif kind == 'zeros':
        vals = [float(rng.randrange(-50, 1000)) for _ in range(n)]
        if rng.random() < 0.3:
            vals = [0.0] * n
        else:
            for _ in range(rng.randrange(1, 6)):
                ln = rng.choice([1, 24, 48, 60, 720, 744, 1440, n])
                i = rng.randrange(0, n)
                i -= i % rng.choice([1, 24, 24, 48])
                for j in range(i, min(n, i + ln)):
                    vals[j] = 0.0
    elif kind == 'cancel':
        vals = []
        while len(vals) < n:
            x = float(rng.randrange(1, 500))
            run = rng.choice([1, 12, 24])
            vals += [x] * run + [-x] * run
        vals = vals[:n]
    elif kind == 'half':
        vals = [rng.randrange(-20, 200) + 0.5 for _ in range(n)]
    else:
        vals = [rng.uniform(-40.0, 60.0) for _ in range(n)]
    return kind, vals


EXACT_P = (0, 100, 50, 25, 75, 12.5, 37.5, 62.5, 87.5, 6.25, 93.75)


def _gen_p(rng):
    r = rng.random()
    if r < 0.08:                             # strictly inside (0, 1) and (99, 100): design-day extremes
        return rng.choice([0.4, 0.5, 0.25, 0.025, 99.6, 99.5, 1, 99, rng.uniform(0, 1), rng.uniform(99, 100)]), False
    if r < 0.6:
        return rng.choice(EXACT_P), True
    if r < 0.8:
        return float(rng.randrange(0, 101)), False
    return rng.uniform(0, 100), False


# ---------------------------------------------------------------------------------------------
# correspondence


GROUP_FN = {'day': 'group_by_day', 'month': 'group_by_month', 'mph': 'group_by_month_per_hour'}


def _impl_group_cont(c):
    by, t = c
    d = getattr(_cont(t), GROUP_FN[by])()
    return _show_dict_mph(d) if by == 'mph' else _show_dict_nat(d)


def _impl_group_disc(c):
    by, t, dleap, moys = c
    d = getattr(_disc(t, dleap, moys), GROUP_FN[by])()
    return _show_dict_mph(d) if by == 'mph' else _show_dict_nat(d)


def _op_method(coll, interval, stat, p):
    name = {'daily': 'daily', 'monthly': 'monthly', 'monthlyperhour': 'monthly_per_hour'}[interval]
    if stat == 'percentile':
        return getattr(coll, 'percentile_' + name)(p)
    return getattr(coll, stat + '_' + name)()


def _parse_op(line):
    """model answer 'ok ts n keys… | rats…' -> (ts, [keys], [Fraction])."""
    if not line.startswith('ok '):
        return line
    left, right = line[3:].split('|')
    lt = left.split()
    ts, n = int(lt[0]), int(lt[1])
    keys = lt[2:]
    vals = [Fraction(x) for x in right.split()]
    assert len(keys) == n and len(vals) == n
    return ts, keys, vals


EPS = 2.3e-16


def _scale(vals):
    """(largest magnitude, sum of magnitudes) of the data a statistic is computed from."""
    mags = [abs(float(v)) for v in vals]
    return (max(mags) if mags else 0.0), math.fsum(mags)


def _close(model_fr, impl, exact, scale=None):
    """Model (exact rational) vs code (float).  Not exact: float noise relative to the DATA (`scale` =
    _scale(values of the case)), never an absolute allowance - values of 1e-12 are compared as sharply as 1e+3."""
    if isinstance(impl, bool) or not isinstance(impl, (int, float)):
        return False
    if isinstance(impl, float) and not math.isfinite(impl):
        return False
    if exact:
        return _fbits(float(model_fr)) == _fbits(impl) or float(model_fr) == impl
    if scale is None:
        return abs(float(model_fr) - impl) <= 1e-9 * max(1.0, abs(impl))
    return abs(float(model_fr) - impl) <= 1e-9 * max(scale[0], abs(impl)) + 1e-13 * scale[1]


def _compare_ops(ctx, name, cases, line_fn, impl_fn):
    """cases carry an `exact` flag; impl_fn -> (ts, [key strings], [numbers]) or raises."""
    outs = ctx.driver().run([line_fn(c) for c in cases])
    for c, mo in zip(cases, outs):
        try:
            io = impl_fn(c)
        except Exception as e:
            io = 'err:' + err_name(e)
        ctx.compared += 1
        ctx.count('op:' + name)
        key = (name, line_fn(c)[:4000])
        ctx.case(key, nontrivial=not isinstance(io, str))
        pm = _parse_op(mo)
        ok = False
        if isinstance(pm, str) or isinstance(io, str):
            ok = pm == io
            ctx.count('err_results')
        else:
            sc = _scale(c.get('vals') or [1.0])
            ok = pm[0] == io[0] and pm[1] == io[1] and len(pm[2]) == len(io[2]) and \
                all(_close(a, b, c['exact'], sc) for a, b in zip(pm[2], io[2]))
        if not ok:
            ctx.disagree(name, {k: v for k, v in c.items() if k != 'vals'} | {'nvals': len(c.get('vals', []))},
                         mo[:600], (io if isinstance(io, str) else repr(io)[:600]))
    if cases:
        ctx.sample({'op': name, 'request': line_fn(cases[0])[:200], 'model': outs[0][:200]})


def _exactness(kind, stat, pexact):
    if kind in INEXACT_KINDS:
        return False
    if stat == 'percentile':
        return pexact
    return True


def correspondence(ctx):
    rng = ctx.rng

    # ---- continuous grouping: fixed corpus + generated whole-day periods
    corpus = [(1, 30, 0, 3, 2, 23, 1, False), (12, 26, 0, 1, 3, 23, 1, False), (12, 30, 0, 12, 31, 23, 1, True),
              (1, 20, 0, 1, 10, 23, 1, False), (1, 1, 0, 12, 31, 23, 1, False), (1, 1, 0, 12, 31, 23, 1, True),
              (2, 29, 0, 2, 28, 23, 2, True), (12, 31, 0, 1, 1, 23, 4, True), (3, 1, 0, 2, 28, 23, 1, False),
              (6, 15, 0, 6, 15, 23, 60, False), (2, 28, 0, 3, 1, 23, 3, True), (1, 1, 0, 1, 1, 23, 1, False)]
    periods = list(corpus)
    budget = ctx.n(350000, 4000000)
    while budget > 0 and len(periods) < ctx.n(95, 1500):
        t = _gen_fullday(rng, 25000 if rng.random() < 0.9 else 70000)
        periods.append(t)
        budget -= len(ref_moys(t))
    cases = []
    for t in periods:
        ctx.count('cont:span:' + _classify(t))
        ctx.count('cont:ts:%d' % t[6])
        ctx.count('cont:leap:%s' % t[7])
        cases.append(('day', t))
        cases.append(('month', t))
        if t[6] <= 6 or rng.random() < 0.15:
            cases.append(('mph', t))
    # rejections of the constructor (hour window) and of the period
    for t in [(1, 1, 1, 12, 31, 23, 1, False), (1, 1, 0, 12, 31, 22, 1, False), (1, 1, 0, 1, 2, 23, 7, False),
              (2, 29, 0, 3, 1, 23, 1, False), (13, 1, 0, 1, 2, 23, 1, False)]:
        cases.append(('day', t))
        cases.append(('month', t))

    def cont_impl(c):
        by, t = c
        d = getattr(_cont(t), GROUP_FN[by])()
        return _show_dict_mph(d) if by == 'mph' else _show_dict_nat(d)

    compare_batch(ctx, 'cont_group', cases, lambda c: 'cont_%s %s' % (c[0], _ap_tokens(c[1])), cont_impl,
                  key=lambda c: (c[0],) + tuple(c[1]))

    # ---- discontinuous grouping
    dcases = [('day', (1, 1, 0, 12, 31, 23, 1, True), True, [0, 60, 1440, 525600, 527039 // 60 * 60]),
              ('month', (1, 1, 0, 12, 31, 23, 1, False), False, [44640, 0, 44580, 44640]),
              ('mph', (1, 1, 0, 1, 1, 23, 2, False), False, [0, 30, 60, 90, 1440]),
              ('mph', (1, 1, 0, 1, 1, 23, 1, False), False, [0, 30]),
              ('day', (1, 1, 0, 12, 31, 23, 1, False), True, [527040 - 60])]
    for _ in range(ctx.n(120, 1500)):
        t, dleap, moys, tag = _gen_disc(rng, ctx.n(1500, 4000))
        ctx.count('disc:' + tag)
        ctx.count('disc:span:' + _classify(t))
        for by in ('day', 'month', 'mph'):
            if by == 'mph' and t[6] > 12 and rng.random() < 0.8:
                continue
            dcases.append((by, t, dleap, moys))
    compare_batch(ctx, 'disc_group', dcases,
                  lambda c: 'disc_%s %s %s %s' % (c[0], _ap_tokens(c[1]), _b(c[2]), ' '.join(map(str, c[3]))),
                  _impl_group_disc, key=lambda c: (c[0], c[1], c[2], hash(tuple(c[3]))))

    # ---- DailyCollection.group_by_month
    ycases = [(True, [59, 60, 61, 366]), (False, [59, 60, 61, 365]), (False, [366]), (True, list(range(1, 367))),
              (False, list(range(1, 366))), (True, [367]), (False, [0])]
    for _ in range(ctx.n(60, 1500)):
        leap = rng.random() < 0.5
        n = 366 if leap else 365
        k = rng.choice([1, 5, 40, n])
        doys = sorted(rng.sample(range(1, n + 1), k))
        if rng.random() < 0.2:
            rng.shuffle(doys)
        if rng.random() < 0.1:
            doys.append(rng.choice([n + 1, 400]))
        ycases.append((leap, doys))
    compare_batch(ctx, 'daily_month', ycases, lambda c: 'daily_month %s %s' % (_b(c[0]), ' '.join(map(str, c[1]))),
                  lambda c: _show_dict_nat(_daily((1, 1, 0, 12, 31, 23, 1, c[0]), c[1]).group_by_month()),
                  key=lambda c: (c[0], tuple(c[1])))

    # ---- statistics per interval
    ocases = []
    for t in corpus[:4] + [(1, 1, 0, 12, 31, 23, 1, False)]:
        for iv in ('daily', 'monthly', 'monthlyperhour'):
            n = len(ref_moys(t))
            ocases.append({'coll': 'cont', 'iv': iv, 'stat': 'average', 'p': 0, 't': t, 'exact': True,
                           'vals': [float(i) for i in range(n)]})
    for _ in range(ctx.n(140, 2000)):
        iv = rng.choice(['daily', 'monthly', 'monthlyperhour'])
        stat = rng.choice(['average', 'total', 'percentile', 'percentile'])
        p, pexact = _gen_p(rng) if stat == 'percentile' else (0, True)
        if rng.random() < 0.03 and stat == 'percentile':
            p, pexact = rng.choice([-1, 100.5, 101]), True
        if rng.random() < 0.5:
            t = _gen_fullday(rng, 9000 if iv != 'monthlyperhour' else 4000)
            if iv == 'monthlyperhour' and t[6] > 6:
                t = t[:6] + (rng.choice([1, 2, 4]), t[7])
            n = len(ref_moys(t))
            kind, vals = _gen_values(rng, n)
            ocases.append({'coll': 'cont', 'iv': iv, 'stat': stat, 'p': p, 't': t, 'vals': vals,
                           'exact': _exactness(kind, stat, pexact)})
            ctx.count('opcase:cont:%s:%s' % (iv, stat))
        else:
            t, dleap, moys, tag = _gen_disc(rng, 1500)
            if iv == 'monthlyperhour' and t[6] > 12:
                iv = 'daily'
            kind, vals = _gen_values(rng, len(moys))
            ocases.append({'coll': 'disc', 'iv': iv, 'stat': stat, 'p': p, 't': t, 'dleap': dleap, 'moys': moys,
                           'vals': vals, 'exact': _exactness(kind, stat, pexact)})
            ctx.count('opcase:disc:%s:%s:%s' % (tag, iv, stat))
        ctx.count('opcase:values:' + kind)

    def op_line(c):
        head = 'op %s %s %s %s %s' % (c['iv'], c['stat'], _frac_tok(c['p']), c['coll'], _ap_tokens(c['t']))
        vt = ' '.join(_frac_tok(v) for v in c['vals'])
        if c['coll'] == 'cont':
            return head + ' ' + vt
        return '%s %s %d %s %s' % (head, _b(c['dleap']), len(c['moys']), ' '.join(map(str, c['moys'])), vt)

    def op_impl(c):
        coll = _cont(c['t'], c['vals']) if c['coll'] == 'cont' else _disc(c['t'], c['dleap'], c['moys'], c['vals'])
        r = _op_method(coll, c['iv'], c['stat'], c['p'])
        keys = [(_k3(k) if isinstance(k, tuple) else str(k)) for k in r.datetimes]
        return r.header.analysis_period.timestep, keys, list(r.values)

    _compare_ops(ctx, 'interval_op', ocases, op_line, op_impl)

    # ---- DailyCollection monthly statistics
    mcases = []
    for _ in range(ctx.n(60, 1500)):
        leap = rng.random() < 0.5
        n = 366 if leap else 365
        t = _gen_fullday(rng, 10 ** 9)
        t = t[:6] + (1, leap)
        try:
            _moy(leap, t[0], t[1]), _moy(leap, t[3], t[4])
        except ValueError:
            continue
        doys = sorted(rng.sample(range(1, n + 1), rng.choice([1, 12, 100, n])))
        stat = rng.choice(['average', 'total', 'percentile'])
        p, pexact = _gen_p(rng) if stat == 'percentile' else (0, True)
        kind, vals = _gen_values(rng, len(doys))
        mcases.append({'stat': stat, 'p': p, 't': t, 'doys': doys, 'vals': vals,
                       'exact': _exactness(kind, stat, pexact)})

    def daily_line(c):
        return 'daily_op %s %s %s %d %s %s' % (c['stat'], _frac_tok(c['p']), _ap_tokens(c['t']), len(c['doys']),
                                              ' '.join(map(str, c['doys'])), ' '.join(_frac_tok(v) for v in c['vals']))

    def daily_impl(c):
        coll = _daily(c['t'], c['doys'], c['vals'])
        r = coll.percentile_monthly(c['p']) if c['stat'] == 'percentile' else getattr(coll, c['stat'] + '_monthly')()
        return r.header.analysis_period.timestep, [str(k) for k in r.datetimes], list(r.values)

    _compare_ops(ctx, 'daily_op', mcases, daily_line, daily_impl)

    # ---- plain statistics of a collection
    scases = []
    for _ in range(ctx.n(900, 25000)):
        n = rng.choice([1, 1, 2, 3, 4, 5, 7, 8, 9, 16, 17, 24, 31, rng.randrange(1, 120)])
        kind, vals = _gen_values(rng, n)
        p, pexact = _gen_p(rng)
        if rng.random() < 0.03:
            p, pexact = rng.choice([-0.5, 100.25, 1000]), True
        cnt = rng.choice([1, n, max(1, n // 2), rng.randrange(1, n + 1), 0, n + 1, -1]) if rng.random() < 0.2 \
            else rng.randrange(1, n + 1)
        scases.append({'vals': vals, 'p': p, 'count': cnt, 'exact': kind not in INEXACT_KINDS,
                       'pexact': pexact and kind not in INEXACT_KINDS})
        ctx.count('stats:values:' + kind)
        ctx.count('stats:n:%s' % ('1' if n == 1 else '2-9' if n < 10 else '10+'))

    def coll_of(c):
        from ladybug.datacollection import DailyCollection
        return DailyCollection(_header((1, 1, 0, 12, 31, 23, 1, True)), c['vals'], list(range(1, len(c['vals']) + 1)))

    def single(name, line_fn, impl_fn, exact_key):
        outs = ctx.driver().run([line_fn(c) for c in scases])
        for c, mo in zip(scases, outs):
            try:
                io = impl_fn(c)
            except Exception as e:
                io = 'err:' + err_name(e)
            ctx.compared += 1
            ctx.count('op:' + name)
            ctx.case((name, line_fn(c)[:2000]), nontrivial=not isinstance(io, str))
            if mo.startswith('ok ') and not isinstance(io, str):
                mv = [Fraction(x) for x in mo[3:].split()]
                ok = len(mv) == len(io) and all(_close(a, b, c[exact_key], _scale(c['vals'])) for a, b in zip(mv, io))
            else:
                ok = mo == io
            if not ok:
                ctx.disagree(name, {'vals': c['vals'][:40], 'p': c['p'], 'n': len(c['vals'])}, mo[:300], repr(io)[:300])

    vt = lambda c: ' '.join(_frac_tok(v) for v in c['vals'])   # noqa: E731
    single('percentile', lambda c: 'percentile %s %s' % (_frac_tok(c['p']), vt(c)),
           lambda c: [coll_of(c).percentile(c['p'])], 'pexact')
    single('median', lambda c: 'median ' + vt(c), lambda c: [coll_of(c).median], 'exact')
    single('average', lambda c: 'average ' + vt(c), lambda c: [coll_of(c).average], 'exact')
    single('total', lambda c: 'total ' + vt(c), lambda c: [coll_of(c).total], 'exact')
    single('minmax', lambda c: 'minmax ' + vt(c),
           lambda c: [coll_of(c).min, coll_of(c).max] if coll_of(c).bounds == (coll_of(c).min, coll_of(c).max)
           else 'bounds-differ', 'exact')

    def hl(name, meth):
        outs = ctx.driver().run(['%s %d %s' % (name, c['count'], vt(c)) for c in scases])
        for c, mo in zip(scases, outs):
            try:
                v, ix = getattr(coll_of(c), meth)(c['count'])
                io = 'ok ' + ' '.join(_frac_tok(x) for x in v) + ' | ' + ' '.join(str(i) for i in ix)
            except Exception as e:
                io = 'err:' + err_name(e)
            ctx.compared += 1
            ctx.count('op:' + name)
            ctx.case((name, c['count'], tuple(c['vals'])), nontrivial=not io.startswith('err:'))
            if ' '.join(mo.split()) != ' '.join(io.split()):
                ctx.disagree(name, {'vals': c['vals'][:40], 'count': c['count']}, mo[:300], io[:300])

    hl('highest', 'highest_values')
    hl('lowest', 'lowest_values')

    # ---- histories on one object: object state machine of the model vs the real classes, step by step
    _corr_histories(ctx)
    _flush_shape_counts(ctx)


# ---------------------------------------------------------------------------------------------
# property oracle: the statement of C03 evaluated on the real code, independent of the model


def _key_of(by, r):
    if by == 'day':
        return r.timetuple().tm_yday
    if by == 'month':
        return r.month
    return (r.month, r.hour, r.minute)


def _expected_groups(by, dleap, moys):
    exp = {}
    for i, m in enumerate(moys):
        exp.setdefault(_key_of(by, _ref_dt(dleap, m)), []).append(i)
    return exp


def _textbook_percentile(vals, p):
    s = sorted(vals)
    k = Fraction(len(s) - 1) * Fraction(p) / 100
    lo = math.floor(k)
    hi = math.ceil(k)
    a, b = Fraction(s[lo]), Fraction(s[hi])
    return a + (k - lo) * (b - a)


def _stat_ref(stat, p, vals):
    if stat == 'percentile':
        return _textbook_percentile(vals, p)
    if all(isinstance(v, (int, float)) for v in vals):
        tot = math.fsum(vals)              # the correctly rounded exact sum
        return tot / len(vals) if stat == 'average' else tot
    fr = [Fraction(v) for v in vals]
    return sum(fr) / len(fr) if stat == 'average' else sum(fr)


def _result_period_wrong(r, t, iv):
    """The header period of a statistic per interval: the dates, hour window and kind of year of the source,
    timestep 1 for daily / monthly results (its consumers list their days / months from it)."""
    ap = r.header.analysis_period
    got = (ap.st_month, ap.st_day, ap.st_hour, ap.end_month, ap.end_day, ap.end_hour, ap.timestep, bool(ap.is_leap_year))
    want = tuple(t[:6]) + ((1 if iv in ('daily', 'monthly') else t[6]), bool(t[7]))
    if got == want:
        return None
    if got[7] != want[7]:
        return 'result-leap-flag', want, got
    if got[6] != want[6]:
        return 'timestep', want, got
    return 'result-period', want, got


def _tol(stat, group):
    """Float noise a correct implementation may show for `stat` of `group` (naive summation, the two
    products of the interpolation), RELATIVE TO THE DATA: no absolute allowance (kind h)."""
    n = len(group)
    big, tot = _scale(group)
    if stat == 'total':
        return 4 * EPS * max(n, 16) * tot
    if stat == 'average':
        return 4 * EPS * max(n, 16) * big
    return (8 * n + 64) * EPS * big          # percentile / median / an order statistic


def _stat_ok(stat, got, want, group):
    if isinstance(got, bool) or not isinstance(got, (int, float)) or not math.isfinite(got):
        return False
    return abs(float(want) - got) <= _tol(stat, group)


def _build(inp):
    t = tuple(inp['t'])
    imm, shapes = bool(inp.get('imm')), inp.get('shapes')
    if inp['coll'] == 'cont':
        moys = ref_moys(t)
        vals = inp.get('vals') or list(range(len(moys)))
        return _cont(t, vals, imm, shapes), t[7], moys, vals
    moys = inp['moys']
    vals = inp.get('vals') or list(range(len(moys)))
    return _disc(t, inp['dleap'], moys, vals, imm, shapes), inp['dleap'], moys, vals


def _sig(inp, **kw):
    t = tuple(inp['t'])
    s = {'coll': inp['coll'], 'span': _classify(t), 'leap': bool(t[7]), 'subhourly': t[6] != 1}
    if inp.get('imm'):
        s['imm'] = True
    s.update(kw)
    return s


def _chrono_first(keys):
    out = []
    for k in keys:
        if k not in out:
            out.append(k)
    return out


ORDER_CLASSES = ('daily', 'disc', 'cont', 'monthly', 'mph')


def _order_class_for(cls, n):
    """The class a value list of length n can be held by (fallbacks keep the request meaningful)."""
    if cls == 'monthly' and n > 12:
        cls = 'daily'
    if cls == 'mph' and n > 288:
        cls = 'daily'
    if cls == 'cont' and (n % 24 or n > 8760):
        cls = 'disc'
    if cls == 'daily' and n > 366:
        cls = 'disc'
    return cls


def _order_coll(inp):
    """The collection of an `order_stats` input: any of the five classes, mutable or immutable twin."""
    vals = inp['vals']
    n = len(vals)
    cls = _order_class_for(inp.get('cls', 'daily'), n)
    imm, shapes = bool(inp.get('imm')), inp.get('shapes')
    if cls == 'daily':
        return _make('daily', (1, 1, 0, 12, 31, 23, 1, True), list(range(1, n + 1)), vals, imm, None, shapes), cls
    if cls == 'monthly':
        return _make('monthly', (1, 1, 0, 12, 31, 23, 1, False), list(range(1, n + 1)), vals, imm, None, shapes), cls
    if cls == 'mph':
        return _make('mph', (1, 1, 0, 12, 31, 23, 1, False), [(i // 24 + 1, i % 24, 0) for i in range(n)], vals,
                     imm, None, shapes), cls
    if cls == 'cont':
        d = date(2017, 1, 1) + timedelta(days=n // 24 - 1)
        return _make('cont', (1, 1, 0, d.month, d.day, 23, 1, False), None, vals, imm, None, shapes), cls
    return _make('disc', (1, 1, 0, 12, 31, 23, 1, False), [i * 60 for i in range(n)], vals, imm, False, shapes), cls


def _scramble_result(x):
    """Edit an answer of the code under test in place (a later answer must not notice); -> True if edited."""
    try:
        if isinstance(x, list):
            x.reverse()
            x.append(-987654.25)
            if len(x) > 2:
                del x[1]
            return True
        if isinstance(x, dict):
            for k in list(x.keys()):
                _scramble_result(x[k])
            ks = list(x.keys())
            if ks:
                x[ks[0]] = [-987654.25]
                if len(ks) > 1:
                    del x[ks[-1]]
            return True
    except Exception:    # noqa: BLE001
        pass
    return False


def _check_plain(op, inp):
    if op == 'partition':
        by = inp['by']
        coll, dleap, moys, vals = _build(inp)
        sig = _sig(inp, by=by)
        exp = _expected_groups(by, dleap, moys)
        ids = 'vals' not in inp or not inp['vals']
        for ask in (1, 2):                   # asked again after the first answer was edited in place
            if ask == 2:
                sig = dict(sig, ask=2)
            try:
                got = getattr(coll, GROUP_FN[by])()
            except Exception as e:
                return {'required': 'groups of every value by its own datetime', 'observed': 'raises %s: %s' %
                        (type(e).__name__, e), 'sig': dict(sig, fail='raises ' + type(e).__name__)}
            nonempty = {k: list(v) for k, v in got.items() if len(v)}
            want = exp if ids else {k: [vals[i] for i in ix] for k, ix in exp.items()}
            if nonempty != want:
                for k in sorted(set(nonempty) | set(want), key=str):
                    if nonempty.get(k) != want.get(k):
                        a, b = want.get(k, []), nonempty.get(k, [])
                        fail = 'too-long' if len(b) > len(a) else 'too-short' if len(b) < len(a) else 'other-values'
                        return {'required': 'group %s = %s' % (k, ('ids ' + _runs(a)) if ids else a[:12]),
                                'observed': ('ids ' + _runs(b)) if ids and all(isinstance(x, int) for x in b) else b[:12],
                                'sig': dict(sig, fail=fail)}
            if ids:
                allv = sorted(x for v in got.values() for x in v)
                if allv != list(range(len(moys))):
                    return {'required': 'each value exactly once', 'observed': 'multiset differs',
                            'sig': dict(sig, fail='not-a-partition')}
            if len(moys) > 6000 and len(moys) % 3:
                break                        # (big inputs: the second ask on a third of them only)
            if not _scramble_result(got):
                break
        if list(coll.values) != list(vals):
            return {'required': 'grouping leaves the values as they are', 'observed': list(coll.values)[:12],
                    'sig': dict(sig, fail='values-changed-by-reads')}
        return None
    if op == 'cont_vs_disc':
        # siblings that hold the same data must answer alike (kind e): the continuous class, its immutable
        # twin, its to_discontinuous() image and an independently built immutable discontinuous collection
        t = tuple(inp['t'])
        shapes = inp.get('shapes')
        c = _cont(t, None, False, shapes)
        sig = _sig(dict(inp, coll='cont'))
        n = len(ref_moys(t))
        sibs = [('continuous immutable', lambda: _cont(t, None, True, shapes)),
                ('to_discontinuous()', lambda: c.to_discontinuous()),
                ('discontinuous immutable', lambda: _disc(t, t[7], ref_moys(t), list(range(n)), True, shapes))]
        norm = lambda dct: [(k, list(v)) for k, v in dct.items()]   # noqa: E731
        base = {}
        for sname, mk in sibs:
            try:
                d = mk()
            except Exception as e:           # noqa: BLE001
                return {'required': '%s can be built' % sname, 'observed': 'raises %s: %s' % (type(e).__name__, e),
                        'sig': dict(sig, fail='sibling-raises', sibling=sname)}
            for by, fn in GROUP_FN.items():
                if by not in base:
                    base[by] = norm(getattr(c, fn)())
                try:
                    b = norm(getattr(d, fn)())
                except Exception as e:
                    return {'required': '%s answers group_by_%s' % (sname, by), 'observed': 'raises %s: %s' %
                            (type(e).__name__, str(e)[:100]),
                            'sig': dict(sig, by=by, fail='raises ' + type(e).__name__, sibling=sname,
                                        imm='immutable' in sname)}
                if base[by] != b:
                    return {'required': 'continuous and %s give the same groups (%s)' % (sname, by),
                            'observed': 'they differ', 'sig': dict(sig, by=by, fail='cont!=disc', sibling=sname)}
            for iv in ('daily', 'monthly', 'monthlyperhour'):
                for stat, p in (('average', 0), ('total', 0), ('percentile', 75)):
                    if (iv, stat) not in base:
                        x = _op_method(c, iv, stat, p)
                        base[(iv, stat)] = (list(x.values), list(x.datetimes))
                    try:
                        y = _op_method(d, iv, stat, p)
                        yy = (list(y.values), list(y.datetimes))
                    except Exception as e:   # noqa: BLE001
                        return {'required': '%s answers %s %s' % (sname, stat, iv), 'observed': 'raises %s: %s' %
                                (type(e).__name__, str(e)[:100]),
                                'sig': dict(sig, by=iv, fail='raises ' + type(e).__name__, sibling=sname,
                                            imm='immutable' in sname)}
                    if base[(iv, stat)] != yy:
                        return {'required': 'same %s %s from continuous and %s' % (stat, iv, sname), 'observed': 'differ',
                                'sig': dict(sig, by=iv, fail='cont!=disc stats', sibling=sname)}
            for name in ('median', 'average', 'total', 'min', 'max'):
                if getattr(c, name) != getattr(d, name):
                    return {'required': 'same %s from continuous and %s' % (name, sname),
                            'observed': (getattr(c, name), getattr(d, name)),
                            'sig': dict(sig, fail='cont!=disc ' + name, sibling=sname)}
            if c.highest_values(min(3, n)) != d.highest_values(min(3, n)) or \
                    c.lowest_values(min(3, n)) != d.lowest_values(min(3, n)) or c.percentile(37.5) != d.percentile(37.5):
                return {'required': 'same order statistics from continuous and %s' % sname, 'observed': 'differ',
                        'sig': dict(sig, fail='cont!=disc order-statistics', sibling=sname)}
        return None
    if op == 'stats_of_groups':
        iv, stat, p = inp['iv'], inp['stat'], inp['p']
        by = {'daily': 'day', 'monthly': 'month', 'monthlyperhour': 'mph'}[iv]
        coll, dleap, moys, vals = _build(inp)
        sig0 = _sig(inp, by=iv, stat=stat)
        exp = _expected_groups(by, dleap, moys)

        def judge(r, sig):
            keys = list(r.datetimes)
            if len(keys) != len(r.values):
                return {'required': 'one value per key', 'observed': (len(keys), len(r.values)), 'sig': dict(sig, fail='keys')}
            for k, v in zip(keys, r.values):
                if k not in exp:
                    return {'required': 'only non-empty groups reported', 'observed': 'key %s' % (k,),
                            'sig': dict(sig, fail='phantom-group')}
                grp = [vals[i] for i in exp[k]]
                want = _stat_ref(stat, p, grp)
                if not _stat_ok(stat, v, want, grp):
                    return {'required': '%s of group %s = %r' % (stat, k, float(want)), 'observed': v,
                            'sig': dict(sig, fail='wrong-statistic')}
            if inp.get('inside', True):
                first = _chrono_first(_key_of(by, _ref_dt(dleap, m)) for m in ref_moys(tuple(inp['t'])))
                want_keys = [k for k in first if k in exp]
                got_keys = _chrono_first(keys)
                if by == 'mph':
                    # the listing is month by month (period order), times of day ascending inside a month
                    def canon(ks):
                        months = _chrono_first(k[0] for k in ks)
                        return [k for mo in months for k in sorted(x for x in ks if x[0] == mo)]
                    want_keys, got_keys = canon(want_keys), (got_keys if got_keys == canon(got_keys) else got_keys + ['unordered'])
                if got_keys != want_keys:
                    return {'required': 'groups in period order: %s' % (want_keys[:20],), 'observed': keys[:20],
                            'sig': dict(sig, fail='keys')}
            if iv in ('daily', 'monthly') and r.header.analysis_period.timestep != 1:
                return {'required': 'timestep 1', 'observed': r.header.analysis_period.timestep,
                        'sig': dict(sig, fail='timestep')}
            bad = _result_period_wrong(r, tuple(inp['t']), iv)
            if bad:
                # a day number / month names a date only together with the kind of year; consumers of the
                # result list their days / months from its header period
                return {'required': 'the result keeps period and kind of year: %s' % (bad[1],),
                        'observed': bad[2], 'sig': dict(sig, fail=bad[0])}
            return None

        try:
            r = _op_method(coll, iv, stat, p)
        except Exception as e:               # noqa: BLE001
            return {'required': '%s %s answers' % (stat, iv), 'observed': 'raises %s: %s' % (type(e).__name__, str(e)[:100]),
                    'sig': dict(sig0, fail='raises ' + type(e).__name__)}
        res = judge(r, sig0)
        if res:
            return res
        if len(vals) > 5000 and len(vals) % 3:
            return None                      # (the two extra calls are made on two thirds of the big inputs only)
        # keep the first answer, ask another question, look at the first answer again (kind f)
        snap = (list(r.values), list(r.datetimes))
        _op_method(coll, iv, 'average' if stat == 'total' else 'total', 0)
        if (list(r.values), list(r.datetimes)) != snap:
            return {'required': 'an answer already given is not changed by a later call', 'observed': list(r.values)[:12],
                    'sig': dict(sig0, fail='earlier-answer-changed')}
        # edit the first answer in place, ask the same question again
        try:
            r.values = [float(i) - 987654.25 for i in range(len(r.values))]
            r.header.metadata['edited'] = 'by the caller'
        except Exception:                    # noqa: BLE001
            pass
        res = judge(_op_method(coll, iv, stat, p), dict(sig0, ask=2))
        if res is None and list(coll.values) != list(vals):
            res = {'required': 'statistics leave the values as they are', 'observed': list(coll.values)[:12],
                   'sig': dict(sig0, fail='values-changed-by-reads')}
        return res
    if op == 'daily_month':
        leap, doys = inp['leap'], inp['doys']
        vals = inp.get('vals') or [float(i) for i in range(len(doys))]
        coll = _daily((1, 1, 0, 12, 31, 23, 1, leap), doys, vals, bool(inp.get('imm')), inp.get('shapes'))
        sig = {'coll': 'daily', 'leap': leap}
        if inp.get('imm'):
            sig['imm'] = True
        if any(a > b for a, b in zip(doys, doys[1:])):
            sig['unsorted'] = True
        exp = {}
        for i, d in enumerate(doys):
            exp.setdefault((date(_year(leap), 1, 1) + timedelta(days=d - 1)).month, []).append(i)
        want = {k: [vals[i] for i in ix] for k, ix in exp.items()}
        for ask in (1, 2):                   # asked again after the first answer was edited in place
            try:
                raw = coll.group_by_month()
                got = {k: list(v) for k, v in raw.items() if len(v)}
            except Exception as e:
                return {'required': 'months of the days', 'observed': 'raises %s' % type(e).__name__,
                        'sig': dict(sig, fail='raises ' + type(e).__name__)}
            if got != want:
                k = [k for k in sorted(set(got) | set(want)) if got.get(k) != want.get(k)][0]
                return {'required': 'each day in its month: month %s = %s' % (k, want.get(k, [])[:12]),
                        'observed': got.get(k, [])[:12], 'sig': dict(sig, fail='wrong-month', ask=ask)}
            if not _scramble_result(raw):
                break
        for stat, p in (('average', 0), ('total', 0), ('percentile', inp.get('p', 30))):
            r = coll.percentile_monthly(p) if stat == 'percentile' else getattr(coll, stat + '_monthly')()
            if list(r.datetimes) != sorted(want):
                return {'required': sorted(want), 'observed': list(r.datetimes), 'sig': dict(sig, fail='keys')}
            for k, v in zip(r.datetimes, r.values):
                w = float(_stat_ref(stat, p, want[k]))
                if not _stat_ok(stat, v, w, want[k]):
                    return {'required': '%s of month %s = %r' % (stat, k, w), 'observed': v,
                            'sig': dict(sig, fail='wrong-statistic', stat=stat)}
            if bool(r.header.analysis_period.is_leap_year) != bool(leap):
                return {'required': 'the result keeps the kind of year', 'observed': 'leap %s' %
                        r.header.analysis_period.is_leap_year, 'sig': dict(sig, fail='result-leap-flag')}
        if list(coll.values) != list(vals) or list(coll.datetimes) != list(doys):
            return {'required': 'reads leave values and days as they are', 'observed': list(coll.values)[:12],
                    'sig': dict(sig, fail='values-changed-by-reads')}
        return None
    if op == 'order_stats':
        vals, p = inp['vals'], inp['p']
        cnt = int(inp['count'])              # the API documents an integer and coerces with int(): 2.0 / '2' mean 2
        coll, cls = _order_coll(inp)
        n = len(vals)
        tolv = _tol('percentile', vals)
        sig = {'coll': 'any', 'cls': cls, 'imm': bool(inp.get('imm'))}
        w = _textbook_percentile(vals, p)
        g = coll.percentile(p)
        if not _stat_ok('percentile', g, w, vals):
            return {'required': 'percentile %s = %r' % (p, float(w)), 'observed': g, 'sig': dict(sig, fail='percentile')}
        if coll.percentile(0) != min(vals) or coll.percentile(100) != max(vals):
            return {'required': 'p0=min, p100=max', 'observed': (coll.percentile(0), coll.percentile(100)),
                    'sig': dict(sig, fail='percentile-ends')}
        med = float(_textbook_percentile(vals, 50))
        if not _stat_ok('percentile', coll.median, med, vals) or abs(statistics.median(vals) - coll.median) > tolv \
                or abs(coll.percentile(50) - coll.median) > tolv:
            return {'required': 'median %r' % med, 'observed': coll.median, 'sig': dict(sig, fail='median')}
        if not (min(vals) - tolv <= g <= max(vals) + tolv):
            return {'required': 'min <= percentile <= max', 'observed': g, 'sig': dict(sig, fail='percentile-range')}
        p2 = inp.get('p2', p)
        lo, hi = sorted((p, p2))
        if coll.percentile(lo) > coll.percentile(hi) + tolv:
            return {'required': 'monotone in p', 'observed': (coll.percentile(lo), coll.percentile(hi)),
                    'sig': dict(sig, fail='percentile-monotone')}
        if (coll.min, coll.max) != (min(vals), max(vals)) or tuple(coll.bounds) != (min(vals), max(vals)):
            return {'required': 'min/max/bounds %r' % ((min(vals), max(vals)),), 'observed': (coll.min, coll.max, coll.bounds),
                    'sig': dict(sig, fail='minmax')}
        fr = [Fraction(v) for v in vals]
        if not _stat_ok('total', coll.total, float(sum(fr)), vals) or \
                not _stat_ok('average', coll.average, float(sum(fr) / len(fr)), vals):
            return {'required': 'total/average %r' % ((float(sum(fr)), float(sum(fr) / len(fr))),),
                    'observed': (coll.total, coll.average), 'sig': dict(sig, fail='total-average')}
        for meth, rev in (('highest_values', True), ('lowest_values', False)):
            for ask in (1, 2):               # the second time after the first answer was edited in place
                try:
                    v, ix = getattr(coll, meth)(inp['count'])
                except Exception as e:       # noqa: BLE001
                    return {'required': '%s(%r) answers' % (meth, inp['count']), 'observed': 'raises %s: %s' %
                            (type(e).__name__, str(e)[:100]), 'sig': dict(sig, fail=meth + '-raises', ask=ask)}
                if list(v) != sorted(vals, reverse=rev)[:cnt]:
                    return {'required': 'first %d of the sort' % cnt, 'observed': list(v)[:20],
                            'sig': dict(sig, fail=meth + '-values', ask=ask)}
                if len(ix) != cnt or len(set(ix)) != cnt or any(not (0 <= i < n) or vals[i] != x for i, x in zip(ix, v)):
                    return {'required': 'vals[idx[i]] == values[i], indices distinct', 'observed': list(ix)[:20],
                            'sig': dict(sig, fail=meth + '-indices', ask=ask)}
                _scramble_result(v)
                _scramble_result(ix)
        if list(coll.values) != list(vals) or [coll[i] for i in range(n)] != list(vals):
            return {'required': 'asking for statistics leaves the values as they are', 'observed': list(coll.values)[:20],
                    'sig': dict(sig, fail='values-changed-by-reads')}
        return None
    raise ValueError('unknown op ' + op)


# ---------------------------------------------------------------------------------------------
# histories on one object / several objects in one process (round 3)
#
# A history is {'objs': [spec…], 'ops': [[k, name, args…]…]}: `k` selects the object.  The harness
# keeps, per object, the PUBLIC STATE the user has established (`_St`: class, period, datetimes, values,
# unit) by interpreting the same ops with plain Python; after every read the real object's answer is
# compared with the statement of C03 evaluated on that state.  An op the public API refuses (raises)
# must leave every later read as before; an op that is expected to be refused but is accepted puts the
# object outside what the harness can speak about (history stops for that object, nothing is reported).
#
#   reads      group <by> | stat <iv> <stat> <p> | pct <p> | median | minmax | avg | total |
#              highest <n> | lowest <n> | dts | twin <how> <by> | daily_of <stat> <p> <stat2> <p2>
#   mutators   setvals <list> | setitem <i> <v> | cull <timestep> | unit <u> | ip | si
#   refused    the same with arguments the validation code rejects, every mutator on an immutable twin,
#              pct/stat/highest/lowest outside their documented range

UNIT_FWD = {('C', 'F'): lambda v: v * 9. / 5. + 32., ('F', 'C'): lambda v: (v - 32.) * 5. / 9.,
            ('C', 'C'): lambda v: v, ('F', 'F'): lambda v: v}
BAD_TS = (7, 8, 9, 11, 0, 61, -1, 13, 24, 45, 120)
READS = ('group', 'stat', 'pct', 'median', 'minmax', 'avg', 'total', 'highest', 'lowest', 'dts', 'twin',
         'daily_of')
MUTATORS = ('setvals', 'setitem', 'cull', 'unit', 'ip', 'si')


class _St(object):
    """Public state of one collection, kept with plain Python (nothing here calls ladybug)."""

    def __init__(self, spec):
        self.kind = spec['kind']
        self.imm = bool(spec.get('imm'))
        self.t = tuple(spec['t'])
        self.dleap = bool(spec.get('dleap', self.t[7]))
        if self.kind == 'cont':
            self.moys = ref_moys(self.t)
        elif self.kind == 'disc':
            self.moys = list(spec['moys'])
        else:
            self.moys = list(spec['doys'])       # day numbers
        v = spec.get('vals')
        self.vals = [float(x) for x in v] if v is not None else [float(i) for i in range(len(self.moys))]
        self.unit = 'C'
        self.dead = False
        self.last = 'fresh'

    def key_of(self, by, m):
        if self.kind == 'daily':
            return (date(_year(self.t[7]), 1, 1) + timedelta(days=m - 1)).month
        return _keys_of(self.dleap, m)[_BY_IX[by]]

    def groups(self, by):
        exp = {}
        for m, v in zip(self.moys, self.vals):
            exp.setdefault(self.key_of(by, m), []).append(v)
        return exp

    def listing(self, by):
        """Keys in the order of the header period (first visit)."""
        ck = (self.kind, self.t, by)
        if ck in _LISTING:
            return _LISTING[ck]
        if self.kind == 'daily':
            sm, sd, _, em, ed, _, _, leap = self.t
            a, b = _moy(leap, sm, sd) // 1440, _moy(leap, em, ed) // 1440
            n = 366 if leap else 365
            days = list(range(a, b + 1)) if a <= b else list(range(a, n)) + list(range(0, b + 1))
            first = _chrono_first((date(_year(leap), 1, 1) + timedelta(days=d)).month for d in days)
        else:
            ix = _BY_IX[by]
            first = list(dict.fromkeys(_keys_of(self.t[7], m)[ix] for m in ref_moys(self.t)))
            if by == 'mph':
                months = _chrono_first(k[0] for k in first)
                first = [k for mo in months for k in sorted(x for x in first if x[0] == mo)]
        if len(_LISTING) > 400:
            _LISTING.clear()
        _LISTING[ck] = first
        return first


_BY_IX = {'day': 0, 'month': 1, 'mph': 2}
_HELD = []        # answers kept during one history: (what, object, snapshot)
_STEP = [0]       # index of the step being executed
_KEYS = {}
_LISTING = {}


def _keys_of(leap, m):
    """(day of year, month, (month, hour, minute)) of minute-of-year m, by the stdlib calendar."""
    k = _KEYS.get((leap, m))
    if k is None:
        r = _ref_dt(leap, m)
        k = (r.timetuple().tm_yday, r.month, (r.month, r.hour, r.minute))
        if len(_KEYS) > 600000:
            _KEYS.clear()
        _KEYS[(leap, m)] = k
    return k


def _spec_apply(st, op):
    """Interpret a mutator on the public state; False = the API refuses it (state unchanged)."""
    name = op[0]
    n = len(st.vals)
    if st.imm:
        return False
    if name == 'setvals':
        v = op[1]
        if not isinstance(v, list) or len(v) != n or not v:
            return False
        if len(op) > 2 and op[2] in ('gen', 'iter', 'map'):
            return False                     # the setter needs len(): a one-shot iterable is refused
        st.vals = [float(x) for x in v]
        return True
    if name == 'setitem':
        i = op[1]
        if not isinstance(i, int) or not (-n <= i < n):
            return False
        st.vals[i] = float(op[2])
        return True
    if name == 'cull':
        ts = op[1]
        if st.kind == 'daily' or isinstance(ts, bool) or ts not in VALID_TS:
            return False
        if st.kind == 'cont' and st.t[6] % ts != 0:
            return False                     # fix 2b7dc5a: a continuous collection refuses a non-dividing timestep
        step = 60 // ts
        keep = [i for i, m in enumerate(st.moys) if m % step == 0]
        st.moys = [st.moys[i] for i in keep]
        st.vals = [st.vals[i] for i in keep]
        st.t = st.t[:6] + (ts, st.t[7])
        return True
    if name in ('unit', 'ip', 'si'):
        to = op[1] if name == 'unit' else ('F' if name == 'ip' else 'C')
        if (st.unit, to) not in UNIT_FWD:
            return False
        f = UNIT_FWD[(st.unit, to)]
        st.vals = [f(v) for v in st.vals]
        st.unit = to
        return True
    raise ValueError('unknown mutator %r' % (op,))


def _not_a_number(x):
    return isinstance(x, bool) or not isinstance(x, (int, float))


def _read_refused(st, op):
    """Reads whose argument is outside the documented range (the API asserts)."""
    name = op[0]
    n = len(st.vals)
    if name == 'pct':
        return _not_a_number(op[1]) or not (0 <= op[1] <= 100)
    if name == 'stat':
        return op[2] == 'percentile' and (_not_a_number(op[3]) or not (0 <= op[3] <= 100))
    if name in ('highest', 'lowest'):
        try:
            return not (1 <= int(op[1]) <= n)
        except (TypeError, ValueError):
            return True
    if name == 'daily_of':
        return (op[1] == 'percentile' and not (0 <= op[2] <= 100)) or \
            (op[3] == 'percentile' and not (0 <= op[4] <= 100))
    return False


def _mk_real(spec):
    st = _St(spec)
    return _make(spec['kind'], tuple(spec['t']), st.moys if spec['kind'] != 'cont' else None, list(st.vals),
                 bool(spec.get('imm')), st.dleap, spec.get('shapes'))


def _real_apply(c, op):
    name = op[0]
    if name == 'setvals':
        if isinstance(op[1], list):
            obj, lst = _container(op[1], op[2] if len(op) > 2 else 'list')
            try:
                c.values = obj
            finally:
                _scramble_list(lst)          # the caller goes on using his own list (kind f)
        else:
            c.values = op[1]
    elif name == 'setitem':
        c[op[1]] = op[2]
    elif name == 'cull':
        c.convert_to_culled_timestep(op[1])
    elif name == 'unit':
        c.convert_to_unit(op[1])
    elif name == 'ip':
        c.convert_to_ip()
    elif name == 'si':
        c.convert_to_si()
    else:
        raise ValueError('unknown mutator %r' % (op,))


def _near(a, b):
    if isinstance(a, bool) or isinstance(b, bool) or not isinstance(a, (int, float)) or \
            not isinstance(b, (int, float)):
        return False
    return a == b or abs(a - b) <= 1e-12 * max(abs(a), abs(b))


def _same_vals(a, b):
    return len(a) == len(b) and all(_near(x, y) for x, y in zip(a, b))


def _grp_fn(st, by):
    return 'group_by_month' if st.kind == 'daily' else GROUP_FN[by]


def _cmp_groups(got, exp, what):
    nonempty = {k: list(v) for k, v in got.items() if len(v)}
    for k in sorted(set(nonempty) | set(exp), key=str):
        a, b = exp.get(k, []), nonempty.get(k, [])
        if not _same_vals(b, a):
            fail = 'too-long' if len(b) > len(a) else 'too-short' if len(b) < len(a) else 'other-values'
            return {'required': '%s: group %s = %d values %s' % (what, k, len(a), a[:6]),
                    'observed': '%d values %s' % (len(b), b[:6]), 'fail': fail}
    return None


def _cmp_stats(r, st, by, stat, p, exp, what):
    """r: result collection of a statistic per interval; exp: expected groups {key: values}.
    (A period that wraps the year end inside one month lists that month twice: tolerated.)"""
    want_keys = [k for k in st.listing(by) if k in exp]
    keys = list(r.datetimes)
    if len(r.values) != len(keys):
        return {'required': '%s: one value per key' % what, 'observed': len(r.values), 'fail': 'keys'}
    for k, v in zip(keys, r.values):
        if k not in exp:
            return {'required': '%s: only groups with data are reported' % what, 'observed': 'key %s' % (k,),
                    'fail': 'phantom-group'}
        want = float(_stat_ref(stat, p, exp[k]))
        if not _stat_ok(stat, v, want, exp[k]):
            return {'required': '%s: %s of group %s = %r' % (what, stat, k, want), 'observed': v,
                    'fail': 'wrong-statistic'}
    if _chrono_first(keys) != want_keys:
        return {'required': '%s: keys in period order %s' % (what, want_keys[:12]), 'observed': keys[:12],
                'fail': 'keys'}
    return None


def _read_check(c, st, op):
    """Evaluate one read on the real object and compare with the statement on the public state."""
    name = op[0]
    vals = st.vals
    n = len(vals)
    if name == 'group':
        by = op[1]
        got = getattr(c, _grp_fn(st, by))()
        res = _cmp_groups(got, st.groups(by), 'group_by_' + by)
        if res is None and _scramble_result(got):
            # the caller edited the answer in place; the same question again (kind f: no answer is shared)
            res = _cmp_groups(getattr(c, _grp_fn(st, by))(), st.groups(by),
                              'group_by_%s asked again after the caller edited the first answer in place' % by)
            if res:
                res['fail'] = 'edited-answer-' + res['fail']
        return res
    if name == 'stat':
        iv, stat, p = op[1], op[2], op[3]
        by = {'daily': 'day', 'monthly': 'month', 'monthlyperhour': 'mph'}[iv]
        r = _op_method(c, iv, stat, p)
        res = _cmp_stats(r, st, by, stat, p, st.groups(by), '%s_%s' % (stat, iv))
        if res is None and st.kind != 'daily' and iv in ('daily', 'monthly') and \
                r.header.analysis_period.timestep != 1:
            return {'required': 'timestep 1', 'observed': r.header.analysis_period.timestep, 'fail': 'timestep'}
        if res is None:
            bad = _result_period_wrong(r, st.t, iv if st.kind != 'daily' else 'of-daily')
            if bad:
                return {'required': 'the result keeps period and kind of year: %s' % (bad[1],), 'observed': bad[2],
                        'fail': bad[0]}
        if res is None:
            if len(_HELD) < 6 and _STEP[0] % 2 == 0:
                # keep this answer; it is looked at again at the end of the history (kind f)
                _HELD.append(('%s_%s(%s) given at step %d' % (stat, iv, p, _STEP[0]), r,
                              (list(r.values), list(r.datetimes))))
            else:
                try:                         # the caller edits the answer in place
                    r.values = [float(i) - 987654.25 for i in range(len(r.values))]
                    r.header.metadata['edited'] = 'by the caller'
                except Exception:            # noqa: BLE001
                    pass
        return res
    if name == 'pct':
        w = float(_textbook_percentile(vals, op[1]))
        g = c.percentile(op[1])
        return None if _stat_ok('percentile', g, w, vals) else {'required': 'percentile %s = %r' % (op[1], w), 'observed': g,
                                         'fail': 'percentile'}
    if name == 'median':
        w = float(_textbook_percentile(vals, 50))
        g = c.median
        return None if _stat_ok('percentile', g, w, vals) else {'required': 'median %r' % w, 'observed': g, 'fail': 'median'}
    if name == 'minmax':
        g = (c.min, c.max, tuple(c.bounds))
        w = (min(vals), max(vals), (min(vals), max(vals)))
        ok = _near(g[0], w[0]) and _near(g[1], w[1]) and _same_vals(g[2], w[2])
        return None if ok else {'required': 'min/max/bounds %r' % (w,), 'observed': g, 'fail': 'minmax'}
    if name in ('avg', 'total'):
        fr = [Fraction(v) for v in vals]
        w = float(sum(fr) / len(fr)) if name == 'avg' else float(sum(fr))
        g = c.average if name == 'avg' else c.total
        return None if _stat_ok('average' if name == 'avg' else 'total', g, w, vals) else \
            {'required': '%s %r' % (name, w), 'observed': g, 'fail': 'total-average'}
    if name in ('highest', 'lowest'):
        cnt = int(op[1])                     # 2.0 / '2' mean 2 (the API coerces with int())
        for ask in (1, 2):                   # the second time after the first answer was edited in place
            v, ix = getattr(c, name + '_values')(op[1])
            w = sorted(vals, reverse=(name == 'highest'))[:cnt]
            if not _same_vals(list(v), w):
                return {'required': 'first %d of the sort %s' % (cnt, w[:8]), 'observed': list(v)[:8],
                        'fail': name + '_values-values'}
            if len(ix) != cnt or len(set(ix)) != cnt or any(not (0 <= i < n) or not _near(vals[i], x)
                                                              for i, x in zip(ix, v)):
                return {'required': 'vals[idx[i]] == values[i], indices distinct', 'observed': list(ix)[:12],
                        'fail': name + '_values-indices'}
            if not (_scramble_result(v) and _scramble_result(ix)):
                break
        return None
    if name == 'dts':
        got = list(c.datetimes)
        if st.kind == 'daily':
            ok = got == st.moys
        else:
            ok = len(got) == len(st.moys) and all(
                bool(d.leap_year) == st.dleap and _moy(st.dleap, d.month, d.day, d.hour, d.minute) == m
                for d, m in zip(got, st.moys))
        return None if ok else {'required': 'datetimes = the %d established steps' % len(st.moys),
                                'observed': '%d datetimes %s' % (len(got), [str(x) for x in got[:3]]),
                                'fail': 'datetimes'}
    if name == 'twin':
        how, by = op[1], op[2]
        if how == 'disc':
            d = c.to_discontinuous()
        elif how == 'dup':
            d = c.duplicate()
        elif how == 'mut':
            d = c.to_mutable()
        else:
            d = c.to_immutable()
        res = _cmp_groups(getattr(d, _grp_fn(st, by))(), st.groups(by), '%s twin group_by_%s' % (how, by))
        if res is None and not _same_vals(list(d.values), vals):
            res = {'required': 'twin holds the same values', 'observed': list(d.values)[:8], 'fail': 'twin-values'}
        if res:
            res['fail'] = 'twin-' + res['fail']
        else:
            try:                             # the caller edits the twin; the source must not notice (later reads)
                d[0] = -987654.25
                d.header.metadata['edited'] = 'twin'
            except Exception:                # noqa: BLE001 - immutable twin
                pass
        return res
    if name == 'daily_of':
        # consumer chain: hourly -> <stat>_daily -> DailyCollection.group_by_month / <stat2>_monthly
        stat, p, stat2, p2 = op[1], op[2], op[3], op[4]
        dcoll = _op_method(c, 'daily', stat, p)
        dayg = st.groups('day')
        res = _cmp_stats(dcoll, st, 'day', stat, p, dayg, '%s_daily' % stat)
        if res:
            return res
        # (a period whose window wraps the year end inside one day lists that day twice - C04's
        # chronological-visits reading, tolerated here as in _cmp_stats: take the validated keys)
        # (the daily values were just validated against the statement; the monthly consumer is judged on
        # the daily numbers it was actually given, so only its own float noise is allowed)
        days = list(dcoll.datetimes)
        dvals = [float(x) for x in dcoll.values]
        leap = st.t[7]
        mexp = {}
        for k, v in zip(days, dvals):
            mexp.setdefault((date(_year(leap), 1, 1) + timedelta(days=k - 1)).month, []).append(v)
        res = _cmp_groups(dcoll.group_by_month(), mexp, 'group_by_month of the %s_daily collection' % stat)
        if res is None:
            r2 = _op_method(dcoll, 'monthly', stat2, p2)
            mlist = [k for k in _chrono_first(k[0] if isinstance(k, tuple) else k for k in st.listing('month'))
                     if k in mexp]
            keys = list(r2.datetimes)
            if _chrono_first(keys) != mlist or len(keys) != len(r2.values):
                res = {'required': 'months %s' % mlist, 'observed': keys, 'fail': 'keys'}
            else:
                for k, v in zip(keys, r2.values):
                    w = float(_stat_ref(stat2, p2, mexp[k]))
                    if not _stat_ok(stat2, v, w, mexp[k]):
                        res = {'required': '%s_monthly of the %s_daily collection, month %s = %r'
                               % (stat2, stat, k, w), 'observed': v, 'fail': 'wrong-statistic'}
                        break
        if res:
            res['fail'] = 'daily-chain-' + res['fail']
        return res
    raise ValueError('unknown read %r' % (op,))


def _fmt_op(op):
    s = json.dumps(op, default=str)
    return s if len(s) <= 80 else s[:77] + '...'


def _run_history(inp):
    objs = inp['objs']
    sts = [_St(s) for s in objs]
    reals = [None] * len(objs)
    known = None
    del _HELD[:]
    for step, full in enumerate(inp['ops']):
        k, op = full[0], full[1:]
        st = sts[k]
        _STEP[0] = step
        if st.dead:
            continue
        base_sig = {'coll': st.kind, 'hist': True, 'imm': st.imm, 'span': _classify(st.t) if st.kind != 'daily'
                    else 'daily', 'leap': bool(st.t[7]), 'subhourly': st.t[6] != 1, 'objs': len(objs)}
        if reals[k] is None:
            reals[k] = _mk_real(objs[k])
        c = reals[k]
        name = op[0]
        where = 'step %d %s (object %d: %s%s, after %s)' % (step, _fmt_op(op), k, st.kind,
                                                          ' immutable' if st.imm else '', st.last)
        if name in MUTATORS:
            probe = _St.__new__(_St)
            probe.__dict__.update(st.__dict__)
            probe.moys, probe.vals = list(st.moys), list(st.vals)
            accepted = _spec_apply(probe, op)
            try:
                _real_apply(c, op)
                raised = None
            except Exception as e:   # noqa: BLE001 - a refusal of the API
                raised = type(e).__name__
            if accepted and raised is None:
                sts[k] = probe
                probe.last = name
            elif accepted and raised is not None:
                return {'required': '%s is accepted' % where, 'observed': 'raises ' + raised,
                        'sig': dict(base_sig, fail='mutator-raises', step=name)}
            elif raised is None:
                # accepted something the documented validation refuses: the harness no longer knows what
                # the user has established; go on with the state the object itself reports publicly
                # (values aligned with datetimes under the header period) - the property is about that
                bad = _resync(st, c)
                st.last = 'unexpectedly-accepted ' + name
                if bad:
                    return {'required': '%s: every value has its own datetime' % where, 'observed': bad,
                            'sig': dict(base_sig, fail='values-datetimes-mismatch', step=name)}
            else:
                st.last = 'refused ' + name
            continue
        # a read
        if _read_refused(st, op):
            try:
                _read_check_call_only(c, st, op)
            except Exception:        # noqa: BLE001
                pass
            st.last = 'refused ' + name if st.last == 'fresh' else st.last + '+refused ' + name
            continue
        raised_in = None
        try:
            res = _read_check(c, st, op)
        except Exception as e:       # noqa: BLE001
            import traceback
            tb = traceback.extract_tb(e.__traceback__)
            raised_in = tb[-1].name if tb else None
            res = {'required': 'answers', 'observed': 'raises %s: %s' % (type(e).__name__, str(e)[:120]),
                   'fail': 'raises ' + type(e).__name__}
        if res:
            after = st.last.split('+')[0]
            sig = dict(base_sig, fail=res['fail'], step=name, after=after.split(' ')[0])
            if name == 'twin' and op[1] in ('imm', 'mut'):
                sig['imm'] = op[1] == 'imm'          # the object that answered
            if raised_in:
                sig['raised_in'] = raised_in
            out = {'required': '%s: %s' % (where, res['required']), 'observed': res['observed'], 'sig': sig}
            if _is_open_finding(sig):
                known = known or out   # go on: later steps of this history are still checked
                continue
            return out
    for what, r, snap in _HELD:              # answers kept by the caller: later calls must not have changed them
        try:
            now = (list(r.values), list(r.datetimes))
        except Exception as e:               # noqa: BLE001
            now = 'raises %s' % type(e).__name__
        if now != snap:
            del _HELD[:]
            return {'required': 'the answer %s is still what it was at the end of the history' % what,
                    'observed': now if isinstance(now, str) else now[0][:12],
                    'sig': {'hist': True, 'fail': 'earlier-answer-changed', 'objs': len(objs)}}
    del _HELD[:]
    return known


def _is_open_finding(sig):
    """The open finding C03-immutable-continuous-month-visited-twice (see known_findings.d/C03.json; repaired
    by fixes/C03_7_immutable_month_visited_twice.patch): group_by_month of an IMMUTABLE continuous collection
    over a period that wraps the year end inside one month raises TypeError (tuple + list)."""
    return sig.get('fail') == 'raises TypeError' and sig.get('coll') == 'cont' and sig.get('imm') is True and \
        sig.get('span') == 'wrap-same-month' and sig.get('raised_in', 'group_by_month') == 'group_by_month'


def _resync(st, c):
    """Take the public state from the object's own accessors; -> text when it is not a collection."""
    try:
        vals = [float(v) for v in c.values]
        dts = list(c.datetimes)
        ap = c.header.analysis_period
        t = (ap.st_month, ap.st_day, ap.st_hour, ap.end_month, ap.end_day, ap.end_hour, ap.timestep,
             bool(ap.is_leap_year))
        if st.kind == 'daily':
            moys = [int(d) for d in dts]
        else:
            moys = [_moy(bool(d.leap_year), d.month, d.day, d.hour, d.minute) for d in dts]
            if dts:
                st.dleap = bool(dts[0].leap_year)
    except Exception as e:           # noqa: BLE001
        st.dead = True
        return None
    if len(vals) != len(moys):
        return '%d values for %d datetimes' % (len(vals), len(moys))
    st.vals, st.moys, st.t = vals, moys, t
    return None


def _read_check_call_only(c, st, op):
    """Issue a read whose argument the API refuses (only the call matters)."""
    name = op[0]
    if name == 'pct':
        c.percentile(op[1])
    elif name == 'stat':
        _op_method(c, op[1], op[2], op[3])
    elif name in ('highest', 'lowest'):
        getattr(c, name + '_values')(op[1])
    elif name == 'daily_of':
        _op_method(_op_method(c, 'daily', op[1], op[2]), 'monthly', op[3], op[4])


# ---- process order: the same cases in fresh interpreters, in several orders


def _worker_main():
    """Entry of a fresh interpreter: JSON list of [op, inp] on stdin -> JSON list of results."""
    import sys
    sys.path.insert(0, core.REPO)
    cases = json.load(sys.stdin)
    out = []
    for op, inp in cases:
        try:
            res = check_case(op, inp)
        except Exception as e:       # noqa: BLE001
            res = {'required': 'oracle evaluates', 'observed': 'exception %s: %s' % (type(e).__name__, e),
                   'sig': {'exception': type(e).__name__}}
        out.append(res)
    sys.stdout.write(json.dumps(out, default=str))


def _spawn(cases):
    import subprocess
    import sys
    import tempfile
    env = dict(os.environ, LADYBUG_REPO=core.REPO, PYTHONHASHSEED='0')
    f = tempfile.TemporaryFile()
    f.write(json.dumps(cases, default=str).encode('utf-8'))
    f.seek(0)
    p = subprocess.Popen([sys.executable, '-c', 'from harness.props import c03; c03._worker_main()'],
                         cwd=core.ROOT, env=env, stdin=f, stdout=subprocess.PIPE, stderr=subprocess.PIPE)
    f.close()
    return p, None


def _collect(proc_data, timeout=600):
    p, data = proc_data
    try:
        so, se = p.communicate(data, timeout=timeout)
    except Exception as e:           # noqa: BLE001
        p.kill()
        return [{'required': 'fresh interpreter answers', 'observed': 'timeout/%s' % type(e).__name__,
                 'sig': {'fail': 'worker'}}]
    if p.returncode != 0:
        return [{'required': 'fresh interpreter runs the cases', 'observed': se.decode('utf-8', 'replace')[-400:],
                 'sig': {'fail': 'worker'}}]
    return json.loads(so.decode('utf-8'))


def _first_failure(res):
    for i, r in enumerate(res):
        if r and not _is_open_finding(r.get('sig') or {}):
            return i, r
    return None


def _run_order(cases):
    """Run cases in ONE fresh interpreter; -> (index, result) of the first failure or None."""
    return _first_failure(_collect(_spawn(cases)))


def _run_orders(orders):
    """Several orders, each in its own fresh interpreter, at most 4 at a time."""
    out = []
    for i in range(0, len(orders), 4):
        procs = [_spawn(o) for o in orders[i:i + 4]]
        out += [_first_failure(_collect(pd)) for pd in procs]
    return out


def _check_process_order(inp):
    hit = _run_order(inp['order'])
    if hit is None:
        return None
    i, r = hit
    sig = dict(r.get('sig') or {})
    sig['order'] = True
    return {'required': 'case %d of %d in this order in a fresh interpreter (%s): %s'
            % (i, len(inp['order']), inp['order'][i][0], r.get('required')),
            'observed': r.get('observed'), 'sig': sig}


_TIMES = {}


def check_case(op, inp):
    if not os.environ.get('C03_DEBUG'):
        return _check_case(op, inp)
    import time
    t0 = time.time()
    try:
        return _check_case(op, inp)
    finally:
        k = _TIMES.setdefault(op, [0, 0.0])
        k[0] += 1
        k[1] += time.time() - t0


def _check_case(op, inp):
    try:
        if op == 'history':
            return _run_history(inp)
        if op == 'process_order':
            return _check_process_order(inp)
        return _check_plain(op, inp)
    except Exception as e:                   # noqa: BLE001
        import traceback
        names = [f.name for f in traceback.extract_tb(e.__traceback__)]
        if '_make' not in names:
            raise
        # the inputs are collections of the statement, handed over in a documented form: they can be built
        where = [n for n in names[names.index('_make'):] if not n.startswith('_')][-1:] or ['constructor']
        shapes = inp.get('shapes') if isinstance(inp, dict) else None
        return {'required': 'the collection of this input can be built (forms: %s)' % (shapes or 'see objs'),
                'observed': 'raises %s: %s (in %s)' % (type(e).__name__, str(e)[:120], where[0]),
                'sig': {'fail': 'construction-raises', 'exception': type(e).__name__, 'op': op}}


# ---- generators of histories (plain numbers; the public state is simulated with _St/_spec_apply)


def _other_year_same_doys(t):
    """The period of the other kind of year that covers the same day numbers (None if impossible)."""
    sm, sd, sh, em, ed, eh, ts, leap = t
    a, b = _moy(leap, sm, sd) // 1440, _moy(leap, em, ed) // 1440
    n2 = 365 if leap else 366
    if a >= n2 or b >= n2:
        return None
    d0 = date(_year(not leap), 1, 1) + timedelta(days=a)
    d1 = date(_year(not leap), 1, 1) + timedelta(days=b)
    return (d0.month, d0.day, sh, d1.month, d1.day, eh, ts, not leap)


def _valid_t(t):
    try:
        _moy(t[7], t[0], t[1]), _moy(t[7], t[3], t[4])
        return True
    except ValueError:
        return False


def _family(rng, t, cap):
    """Periods that agree with t in all but one respect (what an incompletely keyed memo confuses)."""
    sm, sd, sh, em, ed, eh, ts, leap = t
    out = []
    c = (sm, sd, sh, em, ed, eh, ts, not leap)
    if _valid_t(c):
        out.append(('flip-leap', c))
    c = _other_year_same_doys(t)
    if c:
        out.append(('same-doys-other-year', c))
    for ts2 in rng.sample(VALID_TS, 3):
        if ts2 != ts:
            out.append(('other-timestep', (sm, sd, sh, em, ed, eh, ts2, leap)))
    y = _year(leap)
    try:
        d0 = date(y, sm, sd) + timedelta(days=1)
        d1 = date(y, em, ed) + timedelta(days=1)
        if d0.year == y and d1.year == y:
            out.append(('shifted', (d0.month, d0.day, sh, d1.month, d1.day, eh, ts, leap)))
        d1 = date(y, em, ed) - timedelta(days=1)
        if d1.year == y and (d1.month, d1.day) != (sm, sd):
            out.append(('same-start', (sm, sd, sh, d1.month, d1.day, eh, ts, leap)))
    except ValueError:
        pass
    out.append(('same-period', t))
    good = []
    for tag, c in out:
        try:
            if 0 < len(ref_moys(c)) <= cap:
                good.append((tag, c))
        except ValueError:
            pass
    return good


def _feb_period(rng, cap):
    """Short whole-day periods around the end of February (where the two kinds of year part)."""
    leap = rng.random() < 0.5
    ts = rng.choice([1, 1, 2, 4])
    y = _year(leap)
    d0 = date(y, 2, 28) - timedelta(days=rng.choice([0, 0, 1, 3]))
    d1 = date(y, 3, 1) + timedelta(days=rng.choice([0, 1, 1, 2]))
    return (d0.month, d0.day, 0, d1.month, d1.day, 23, ts, leap)


def _gen_shapes(rng):
    """Forms in which period, datetimes and values are handed over (None: plain ints / lists)."""
    if rng.random() < 0.35:
        return None
    return {'ap': rng.choice(AP_FORMS), 'v': rng.choice(V_FORMS), 'd': rng.choice(D_FORMS),
            'dt': rng.choice(DT_FORMS), 'scr': rng.random() < 0.6}


def _with_shapes(rng, d):
    sh = _gen_shapes(rng)
    if sh is not None:
        d['shapes'] = sh
    return d


def _gen_obj(rng, cap, kind=None, t=None, model=False):
    """One object spec (plain numbers)."""
    return _with_shapes(rng, _gen_obj0(rng, cap, kind, t, model))


def _gen_obj0(rng, cap, kind=None, t=None, model=False):
    kind = kind or rng.choice(['cont', 'cont', 'cont', 'disc', 'disc', 'daily'])
    imm = rng.random() < 0.25
    if kind == 'cont':
        if t is None:
            t = _feb_period(rng, cap) if rng.random() < 0.2 else _gen_fullday(rng, cap)
        n = len(ref_moys(t))
        _, vals = _gen_values(rng, n, 'int' if model and rng.random() < 0.7 else None)
        return {'kind': 'cont', 'imm': imm, 't': list(t), 'vals': vals}
    if kind == 'disc':
        for _ in range(40):
            if t is not None:
                base = ref_moys(t)
                dleap, tag = t[7], 'full'
                moys = list(base) if rng.random() < 0.5 else ([m for m in base if rng.random() < 0.6] or [base[0]])
                tt = t
            else:
                tt, dleap, moys, tag = _gen_disc(rng, cap)
            if tag in ('full', 'holes') and 0 < len(moys) <= cap and any(m % 60 == 0 for m in moys):
                break
            t = None
        else:
            tt, dleap, moys = (1, 1, 0, 1, 3, 23, 1, False), False, list(range(0, 4320, 60))
        _, vals = _gen_values(rng, len(moys), 'int' if model and rng.random() < 0.7 else None)
        return {'kind': 'disc', 'imm': imm, 't': list(tt), 'dleap': dleap, 'moys': moys, 'vals': vals}
    leap = rng.random() < 0.5 if t is None else t[7]
    n = 366 if leap else 365
    if t is None or _classify(t) in ('wrap', 'wrap-same-month'):
        t = (1, 1, 0, 12, 31, 23, 1, leap)
    a, b = _moy(leap, t[0], t[1]) // 1440 + 1, _moy(leap, t[3], t[4]) // 1440 + 1
    pool = list(range(a, b + 1))
    doys = sorted(rng.sample(pool, min(len(pool), rng.choice([1, 3, 40, 120, n]))))
    if b == n and rng.random() < 0.5 and n not in doys:
        doys.append(n)
    _, vals = _gen_values(rng, len(doys), 'int' if model and rng.random() < 0.7 else None)
    return {'kind': 'daily', 'imm': imm, 't': list(t[:6]) + [1, leap], 'doys': doys, 'vals': vals}


def _gen_read(rng, st, model=False):
    n = len(st.vals)
    ts = st.t[6]
    if st.kind == 'daily':
        r = rng.random()
        if r < 0.3:
            return ['group', 'month']
        if r < 0.65:
            stat = rng.choice(['average', 'total', 'percentile', 'percentile'])
            return ['stat', 'monthly', stat, _gen_p(rng)[0] if stat == 'percentile' else 0]
        return _gen_order_read(rng, n, model)
    bys = ['day', 'month', 'mph'] if ts <= 12 or rng.random() < 0.25 else ['day', 'month']
    r = rng.random()
    if r < 0.28:
        return ['group', rng.choice(bys)]
    if r < 0.55:
        by = rng.choice(bys)
        stat = rng.choice(['average', 'total', 'percentile', 'percentile'])
        return ['stat', {'day': 'daily', 'month': 'monthly', 'mph': 'monthlyperhour'}[by], stat,
                _gen_p(rng)[0] if stat == 'percentile' else 0]
    if r < 0.63:
        return ['dts']
    if r < 0.75:
        hows = ['dup', 'imm', 'mut'] + (['disc', 'disc'] if st.kind == 'cont' else [])
        if model:
            hows = ['disc'] if st.kind == 'cont' else ['dup']
        return ['twin', rng.choice(hows), rng.choice(bys)]
    if r < 0.85 and not model:
        s1 = rng.choice(['average', 'total', 'percentile'])
        s2 = rng.choice(['average', 'total', 'percentile', 'percentile'])
        return ['daily_of', s1, _gen_p(rng)[0] if s1 == 'percentile' else 0, s2,
                _gen_p(rng)[0] if s2 == 'percentile' else 0]
    return _gen_order_read(rng, n, model)


def _gen_order_read(rng, n, model=False):
    r = rng.random()
    if r < 0.3:
        return ['pct', _gen_p(rng)[0]]
    if r < 0.4:
        return ['median']
    if r < 0.5:
        return ['minmax']
    if r < 0.6:
        return [rng.choice(['avg', 'total'])]
    cnt = rng.choice([1, n, rng.randrange(1, n + 1)])
    if not model and rng.random() < 0.3:
        cnt = rng.choice([float(cnt), str(cnt), ' %d ' % cnt])     # what a slider / a text field delivers (kind i)
    return [rng.choice(['highest', 'lowest']), cnt]


def _gen_mutator(rng, st, model=False):
    n = len(st.vals)
    r = rng.random()
    if r < 0.35:
        kind, vals = _gen_values(rng, n, 'int' if model else None)
        if rng.random() < 0.3:
            vals = list(reversed(st.vals))          # same multiset, other order
        if rng.random() < 0.5:
            return ['setvals', vals, rng.choice(['tuple', 'deque', 'array', 'dictvalues', 'pyint', 'list'])]
        return ['setvals', vals]
    if r < 0.6:
        i = rng.choice([0, n - 1, -1, -n, rng.randrange(-n, n)])
        return ['setitem', i, rng.choice([0.0, -1.0, float(rng.randrange(-99, 2000)), 1e6])]
    if r < 0.85 and st.kind != 'daily':
        ts = st.t[6]
        if st.kind == 'cont':
            opts = [x for x in VALID_TS if ts % x == 0]
        else:
            opts = [x for x in VALID_TS if any(m % (60 // x) == 0 for m in st.moys)]
        return ['cull', rng.choice(opts)]
    if model:
        return ['setitem', rng.randrange(-n, n), float(rng.randrange(-99, 2000))]
    return rng.choice([['unit', 'F'], ['unit', 'C'], ['ip'], ['si']])


def _gen_refused(rng, st, model=False):
    n = len(st.vals)
    ts = st.t[6]
    opts = [['setvals', [1.0] * (n + 1)], ['setvals', [2.0] * (n - 1)], ['setvals', []], ['setvals', 5],
            ['setitem', n, 1.0], ['setitem', n + 7, 1.0], ['setitem', -n - 1, 1.0],
            ['pct', 101], ['pct', -1], ['pct', 100.5], ['highest', 0], ['highest', n + 1], ['lowest', 0],
            ['lowest', n + 2], ['lowest', -3]]
    if st.kind != 'daily':
        opts += [['cull', b] for b in BAD_TS] * 2
        if st.kind == 'cont':                # valid timesteps that do not divide the collection's own
            opts += [['cull', x] for x in VALID_TS if ts % x != 0][:6]
        iv = rng.choice(['daily', 'monthly', 'monthlyperhour'] if ts <= 12 else ['daily', 'monthly'])
        opts += [['stat', iv, 'percentile', rng.choice([-1, 100.5, 101, 1000])]] * 3
    else:
        opts += [['stat', 'monthly', 'percentile', rng.choice([-1, 100.5, 101])]] * 3
    if not model:
        opts += [['unit', 'bogus'], ['unit', 'W'], ['unit', '']]
        opts += [['pct', '50'], ['pct', None], ['highest', 'two'], ['lowest', None]]    # text where a number is due
        if st.kind != 'daily':
            opts += [['cull', str(ts)], ['cull', None], ['cull', float(ts) + 0.5]]
        opts += [['setvals', [float(i) for i in range(n)], f] for f in ('gen', 'iter', 'map')]
    if st.imm:
        opts += [_gen_mutator(rng, st, model) for _ in range(12)]
    return rng.choice(opts)


def _sweep(rng, st, k, model=False):
    if st.kind == 'daily':
        ops = [['group', 'month'], ['stat', 'monthly', 'percentile', _gen_p(rng)[0]],
               ['stat', 'monthly', rng.choice(['average', 'total']), 0]]
    else:
        ops = [['group', 'day'], ['group', 'month'], ['stat', 'daily', rng.choice(['average', 'total']), 0],
               ['stat', 'monthly', 'percentile', _gen_p(rng)[0]]]
        if st.t[6] <= 12:
            ops += [['group', 'mph'], ['stat', 'monthlyperhour', rng.choice(['average', 'total', 'percentile']), 50]]
        if st.kind == 'cont':
            ops.append(['twin', 'disc', rng.choice(['day', 'month', 'mph'] if st.t[6] <= 12 else ['day', 'month'])])
    ops += [['pct', _gen_p(rng)[0]], ['highest', min(3, len(st.vals))]]
    return [[k] + o for o in ops]


def _gen_history(rng, cap=1500, model=False, nobj=None, first=None):
    """A history over 1–3 objects.  `first`: 'refused' / 'read' forces the kind of the first op."""
    base = _gen_obj(rng, cap, model=model)
    objs = [base]
    nobj = nobj if nobj is not None else (1 if model else rng.choice([1, 1, 2, 3]))
    if nobj > 1 and base['kind'] != 'daily':
        fam = _family(rng, tuple(base['t']), cap)
        rng.shuffle(fam)
        for tag, t2 in fam[:nobj - 1]:
            kind = base['kind'] if rng.random() < 0.7 else ('disc' if base['kind'] == 'cont' else 'cont')
            if kind == 'cont' and not (t2[2] == 0 and t2[5] == 23):
                kind = 'disc'
            objs.append(_gen_obj(rng, cap, kind=kind, t=t2, model=model))
    elif nobj > 1:
        for _ in range(nobj - 1):
            objs.append(_gen_obj(rng, cap, kind='daily', t=tuple(base['t'][:7]) + (rng.random() < 0.5,), model=model))
    if rng.random() < 0.5:
        rng.shuffle(objs)
    sts = [_St(o) for o in objs]
    ops = []
    pending = []                     # reads owed after a mutator / refusal: (k, read)
    nsteps = rng.randrange(6, 15)
    prev_read = None
    for i in range(nsteps):
        k = rng.randrange(len(objs))
        st = sts[k]
        r = rng.random()
        if i == 0 and first:
            r = {'refused': 0.99, 'read': 0.0, 'mutator': 0.6}[first]
        if pending and rng.random() < 0.8:
            ops.append(pending.pop(0))
            continue
        if r < 0.5:
            if prev_read is not None and rng.random() < 0.12:
                ops.append(list(prev_read))          # the same question twice
                continue
            rd = [k] + _gen_read(rng, st, model)
            ops.append(rd)
            prev_read = rd
        elif r < 0.78 and not st.imm:
            m = _gen_mutator(rng, st, model)
            before = [k] + _gen_read(rng, st, model) if rng.random() < 0.4 else None
            if before:
                ops.append(before)                    # read -> set -> the same read
            if _spec_apply(st, m):
                ops.append([k] + m)
                if before:
                    pending.append(list(before))
                pending.append([k] + _gen_read(rng, st, model))
                pending.append([k] + _gen_read(rng, st, model))
        else:
            ops.append([k] + _gen_refused(rng, st, model))
            pending.append([k] + _gen_read(rng, st, model))
            pending.append([k] + _gen_read(rng, st, model))
    ops += pending
    for k, st in enumerate(sts):
        ops += _sweep(rng, st, k, model)
    return {'objs': objs, 'ops': ops}


def _hist_counts(ctx, h, prefix='hist'):
    ctx.count('%s:objects:%d' % (prefix, len(h['objs'])))
    for o in h['objs']:
        ctx.count('%s:obj:%s%s' % (prefix, o['kind'], ':imm' if o.get('imm') else ''))
        t = tuple(o['t'])
        if o['kind'] != 'daily':
            ctx.count('%s:span:%s' % (prefix, _classify(t)))
        ctx.count('%s:leap:%s' % (prefix, t[7]))
        ctx.count('%s:ts:%d' % (prefix, t[6]))
    sts = [_St(o) for o in h['objs']]
    for o in h['objs']:
        sh = o.get('shapes')
        if sh:
            ctx.count('%s:built-in-other-forms' % prefix)
    touched = set()
    for full in h['ops']:
        st, op = sts[full[0]], full[1:]
        if op[0] in MUTATORS:
            n = len(st.vals)
            ok = _spec_apply(st, op)
            ctx.count('%s:op:%s:%s' % (prefix, op[0], 'accepted' if ok else 'refused'))
            if op[0] == 'setvals':
                form = op[2] if len(op) > 2 else 'list'
                why = 'accepted' if ok else 'immutable' if st.imm else 'not-a-sequence' if not isinstance(op[1], list) \
                    else 'empty' if not op[1] else 'wrong-length' if len(op[1]) != n else 'one-shot-iterable'
                ctx.count('branch:values-setter:%s' % why)
                ctx.count('branch:values-setter:given-as-%s' % form)
            if op[0] == 'cull' and ok:
                touched.add(full[0])
        else:
            refused = _read_refused(st, op)
            ctx.count('%s:op:%s%s' % (prefix, op[0], ':refused' if refused else ''))
            needs = op[0] in ('dts', 'twin') or (op[0] == 'group' and op[1] == 'mph') or \
                (op[0] == 'stat' and op[1] == 'monthlyperhour')
            if st.kind == 'cont' and needs and not refused:
                ctx.count('branch:cont.datetimes:%s' % ('slot-already-filled' if full[0] in touched else 'lazy-first-use'))
                touched.add(full[0])
            if op[0] in ('highest', 'lowest'):
                ctx.count('branch:highest_lowest:hist-count-given-as-%s' % type(op[1]).__name__)
    if h['ops'] and (h['ops'][0][1] in MUTATORS or _read_refused(_St(h['objs'][h['ops'][0][0]]), h['ops'][0][1:])):
        ctx.count('%s:first-op-mutator-or-refused' % prefix)


def _rarity(case):
    """Sort key: rare classes first (leap, wrapping, sub-hourly, refused call first)."""
    op, inp = case
    score = 0
    if op == 'history':
        o = inp['objs'][inp['ops'][0][0]]
        t = tuple(o['t'])
        first = inp['ops'][0][1:]
        st = _St(o)
        if first[0] in MUTATORS:
            probe = _St(o)
            score += 4 if not _spec_apply(probe, first) else 1
        elif _read_refused(st, first):
            score += 4
    else:
        t = tuple(inp['t']) if 't' in inp else (1, 1, 0, 12, 31, 23, 1, bool(inp.get('leap')))
    score += 3 if t[7] else 0
    if op != 'daily_month' and _valid_t(t):
        score += 2 if _classify(t).startswith('wrap') else 0
    score += 1 if t[6] != 1 else 0
    return -score


def _order_slices(ctx):
    """Cases for the fresh-interpreter runs: small families of plain cases + histories."""
    rng = ctx.rng
    cases = []
    nfam = ctx.n(7, 30)
    for _ in range(nfam):
        t = _feb_period(rng, 800) if rng.random() < 0.4 else _gen_fullday(rng, 800)
        fam = [('base', t)] + _family(rng, t, 800)
        rng.shuffle(fam)
        for tag, t2 in fam[:4]:
            ctx.count('order:family:' + tag)
            by = rng.choice(['day', 'month', 'mph'] if t2[6] <= 12 else ['day', 'month'])
            if rng.random() < 0.5:
                cases.append(('partition', {'coll': 'cont', 'by': by, 't': list(t2)}))
            else:
                cases.append(('cont_vs_disc', {'t': list(t2)}))
            iv = rng.choice(['daily', 'monthly', 'monthlyperhour'] if t2[6] <= 12 else ['daily', 'monthly'])
            stat = rng.choice(['average', 'total', 'percentile'])
            _, vals = _gen_values(rng, len(ref_moys(t2)))
            cases.append(('stats_of_groups', {'coll': 'cont', 'iv': iv, 'stat': stat, 'p': _gen_p(rng)[0],
                                              't': list(t2), 'vals': vals}))
    for i in range(ctx.n(14, 60)):
        h = _gen_history(rng, 700, first=('refused' if i % 3 == 0 else None))
        _hist_counts(ctx, h, 'order-hist')
        cases.append(('history', h))
    for leap in (True, False):
        n = 366 if leap else 365
        cases.append(('daily_month', {'leap': leap, 'doys': [59, 60, 61, n - 1, n],
                                      'vals': [5.0, 1.0, 4.0, 2.0, 3.0]}))
    for _ in range(ctx.n(10, 40)):
        n = rng.choice([1, 2, 5, 24, 25])
        _, vals = _gen_values(rng, n)
        cases.append(('order_stats', {'vals': vals, 'p': _gen_p(rng)[0], 'p2': _gen_p(rng)[0],
                                      'count': rng.randrange(1, n + 1)}))
    return cases


def _shrink_order(order, j):
    """order[j] failed in a fresh interpreter after order[:j].  Find a short order that still fails."""
    bad = order[j]
    if _run_order([bad]) is not None:
        return None                          # fails on its own: a plain failing input
    cand = list(range(j - 1, -1, -1))[:64]   # one predecessor, the most recent first
    for k in range(0, len(cand), 4):
        part = cand[k:k + 4]
        hits = _run_orders([[order[i], bad] for i in part])
        for i, h in zip(part, hits):
            if h is not None:
                return [order[i], bad]
    pre = order[:j]
    n, runs = 2, 0                           # delta debugging on the prefix
    while len(pre) >= 2 and runs < 24:
        size = max(1, len(pre) // n)
        chunks = [pre[i:i + size] for i in range(0, len(pre), size)]
        reduced = False
        for ci in range(len(chunks)):
            rest = [c for k, ch in enumerate(chunks) if k != ci for c in ch]
            runs += 1
            if _run_order(rest + [bad]) is not None:
                pre, n, reduced = rest, max(n - 1, 2), True
                break
        if not reduced:
            if n >= len(pre):
                break
            n = min(len(pre), n * 2)
    return pre + [bad]


def _oracle_process_orders(ctx):
    rng = ctx.rng
    cases = _order_slices(ctx)
    norders = ctx.n(3, 4)
    orders = []
    rare_first = sorted(cases, key=_rarity)
    orders.append(rare_first)
    orders.append(list(reversed(rare_first)))
    while len(orders) < norders:
        o = list(cases)
        rng.shuffle(o)
        orders.append(o)
    procs = [_spawn([list(c) for c in o]) for o in orders]
    for o, pd in zip(orders, procs):
        res = _collect(pd)
        ctx.count('order:interpreters')
        ctx.count('order:cases', len(res))
        for c in o[:len(res)]:
            ctx.case(('order', json.dumps(c, sort_keys=True, default=str)[:3000]))
        olist = [list(c) for c in o]
        reported = 0
        for j, r in enumerate(res):
            if not r:
                continue
            if _is_open_finding(r.get('sig') or {}):
                ctx.count('order:open-finding-hit')
                continue
            worker = (r.get('sig') or {}).get('fail') == 'worker'
            short = olist[:j + 1] if worker else _shrink_order(olist, j)
            if short is None:
                ctx.fail(olist[j][0], olist[j][1], r.get('required'), r.get('observed'), r.get('sig'))
            else:
                inp = {'order': short}
                rr = (None if worker else _check_process_order(inp)) or {
                    'required': r.get('required'), 'observed': r.get('observed'),
                    'sig': dict(r.get('sig') or {}, order=True)}
                ctx.fail('process_order', inp, rr['required'], rr['observed'], rr['sig'])
            reported += 1
            if reported >= 2:
                break
        if reported:
            break


# ---- model vs code on histories (Drv/C03.lean `hist`, Model/GroupObj.lean)


def _tok_op(op):
    name = op[0]
    if name == 'stat':
        return 'stat %s %s %s' % (op[1], op[2], _frac_tok(op[3]))
    if name == 'pct':
        return 'pct ' + _frac_tok(op[1])
    if name == 'twin':
        return 'twin ' + op[2]
    if name == 'setvals':
        if not isinstance(op[1], list):
            return 'setvals N'
        return 'setvals %d %s' % (len(op[1]), ' '.join(_frac_tok(v) for v in op[1]))
    if name == 'setitem':
        return 'setitem %d %s' % (op[1], _frac_tok(op[2]))
    return ' '.join(str(x) for x in op)


def _hist_line(h):
    o = h['objs'][0]
    t = tuple(o['t'])
    stamps = o.get('moys') if o['kind'] == 'disc' else o.get('doys') if o['kind'] == 'daily' else []
    head = 'hist %s %s %s %s %d %s %d %s' % (o['kind'], _b(o.get('imm')), _ap_tokens(t), _b(o.get('dleap', t[7])),
                                            len(stamps), ' '.join(map(str, stamps)), len(o['vals']),
                                            ' '.join(_frac_tok(v) for v in o['vals']))
    return ' '.join(head.split()) + ''.join(' | ' + _tok_op(full[1:]) for full in h['ops'])


def _show_groups_vals(d, mph):
    items = list(d.items())
    return 'ok nkeys %d groups' % len(items) + ''.join(
        ' %s=%s' % (_k3(k) if mph else k, ','.join(_frac_tok(x) for x in v)) for k, v in items if len(v))


def _hist_impl_step(c, kind, leap_of, op):
    """Answer of the real object to one op, in the driver's format (numeric answers as tuples)."""
    name = op[0]
    if name in MUTATORS:
        _real_apply(c, op)
        return 'ok'
    if name == 'group':
        by = op[1]
        fn = 'group_by_month' if kind == 'daily' else GROUP_FN[by]
        return _show_groups_vals(getattr(c, fn)(), by == 'mph')
    if name == 'twin':
        d = c.to_discontinuous() if kind == 'cont' else c.duplicate()
        return _show_groups_vals(getattr(d, GROUP_FN[op[2]])(), op[2] == 'mph')
    if name == 'stat':
        r = _op_method(c, op[1], op[2], op[3])
        keys = [(_k3(k) if isinstance(k, tuple) else str(k)) for k in r.datetimes]
        return ('stat', r.header.analysis_period.timestep, keys, list(r.values))
    if name == 'pct':
        return ('num', [c.percentile(op[1])])
    if name == 'median':
        return ('num', [c.median])
    if name == 'avg':
        return ('num', [c.average])
    if name == 'total':
        return ('num', [c.total])
    if name == 'minmax':
        return ('num', [c.min, c.max])
    if name in ('highest', 'lowest'):
        v, ix = getattr(c, name + '_values')(op[1])
        return 'ok ' + ' '.join(_frac_tok(x) for x in v) + ' | ' + ' '.join(str(i) for i in ix)
    if name == 'dts':
        got = list(c.datetimes)
        ms = got if kind == 'daily' else [_moy(bool(d.leap_year), d.month, d.day, d.hour, d.minute) for d in got]
        return 'ok %d %d %d %d' % (len(ms), ms[0] if ms else 0, ms[-1] if ms else 0, sum(ms))
    raise ValueError('unknown op %r' % (op,))


def _step_agrees(mo, io, scale=None):
    if isinstance(io, tuple):
        if not mo.startswith('ok '):
            return False
        if io[0] == 'stat':
            pm = _parse_op(mo)
            return not isinstance(pm, str) and pm[0] == io[1] and pm[1] == io[2] and len(pm[2]) == len(io[3]) \
                and all(_close(a, b, False, scale) for a, b in zip(pm[2], io[3]))
        mv = [Fraction(x) for x in mo[3:].split()]
        return len(mv) == len(io[1]) and all(_close(a, b, False, scale) for a, b in zip(mv, io[1]))
    return ' '.join(mo.split()) == ' '.join(io.split())


def _corr_histories(ctx):
    rng = ctx.rng
    hs = []
    for i in range(ctx.n(70, 450)):
        first = 'refused' if i % 5 == 0 else 'read' if i % 5 == 1 else None
        h = _gen_history(rng, 900 if i % 4 else 2000, model=True, nobj=1, first=first)
        _hist_counts(ctx, h, 'corr-hist')
        hs.append(h)
    outs = ctx.driver().run([_hist_line(h) for h in hs])
    for h, mo in zip(hs, outs):
        o = h['objs'][0]
        msteps = mo.split(' ;; ')
        ctx.compared += 1
        ctx.count('op:hist')
        ctx.case(('hist', _hist_line(h)[:3000]), nontrivial=True)
        if len(msteps) != len(h['ops']):
            ctx.disagree('hist', {'history': h}, mo[:300], 'model answered %d steps for %d ops' % (len(msteps), len(h['ops'])))
            continue
        c = _mk_real(o)
        for i, (full, ms) in enumerate(zip(h['ops'], msteps)):
            op = full[1:]
            try:
                io = _hist_impl_step(c, o['kind'], o['t'][7], op)
            except Exception as e:       # noqa: BLE001
                io = 'err:' + err_name(e)
                if io == 'err:type' and o['kind'] == 'cont' and o.get('imm') and ms.startswith('ok') and \
                        _classify(tuple(o['t'])) == 'wrap-same-month' and \
                        ((op[0] == 'group' and op[1] == 'month') or (op[0] == 'stat' and op[1] == 'monthly')):
                    ctx.count('corr-hist:open-finding-hit')   # C03-immutable-continuous-month-visited-twice
                    continue
            ctx.count('corr-hist:steps')
            try:
                sc = _scale(c._values)
            except Exception:        # noqa: BLE001
                sc = None
            if not _step_agrees(ms, io, sc):
                ctx.disagree('hist', {'history': {'objs': h['objs'], 'ops': h['ops'][:i + 1]}, 'step': i,
                                      'op': op}, ms[:400], (io if isinstance(io, str) else repr(io))[:400])
                break
    if hs:
        ctx.sample({'op': 'hist', 'request': _hist_line(hs[0])[:300], 'model': outs[0][:300]})


def _oracle_histories(ctx):
    rng = ctx.rng
    big = ctx.searching or not ctx.quick
    n = 600 if big else 120
    for i in range(n):
        first = 'refused' if i % 5 == 0 else 'read' if i % 5 == 1 else None
        h = _gen_history(rng, 1500 if i % 4 else 3000, first=first)
        _hist_counts(ctx, h)
        yield 'history', h


replay = check_case


# HourlyContinuousCollectionImmutable.group_by_month over more than one month (known finding
# C03-immutable-continuous-group-by-month, repaired by fixes/C03_6_immutable_month_groups.patch)
IMMUTABLE_MONTH_INPUT = {'objs': [{'kind': 'cont', 'imm': True, 't': [1, 31, 0, 2, 1, 23, 1, False],
                                   'vals': [float(i) for i in range(48)]}],
                         'ops': [[0, 'group', 'day'], [0, 'group', 'month']]}

# HourlyContinuousCollectionImmutable.group_by_month, period wrapping the year end inside one month (known
# finding C03-immutable-continuous-month-visited-twice, repaired by fixes/C03_7_immutable_month_visited_twice.patch)
IMMUTABLE_TWICE_INPUT = {'coll': 'cont', 'by': 'month', 't': [1, 20, 0, 1, 10, 23, 1, False], 'imm': True}

ORACLE_CORPUS = [
    ('partition', IMMUTABLE_TWICE_INPUT),
    ('partition', {'coll': 'cont', 'by': 'month', 't': [1, 30, 0, 3, 2, 23, 1, False]}),
    ('partition', {'coll': 'cont', 'by': 'day', 't': [12, 26, 0, 1, 3, 23, 1, False]}),
    ('partition', {'coll': 'cont', 'by': 'month', 't': [1, 20, 0, 1, 10, 23, 1, False]}),
    ('partition', {'coll': 'cont', 'by': 'day', 't': [12, 30, 0, 1, 2, 23, 2, True]}),
    ('partition', {'coll': 'disc', 'by': 'day', 't': [12, 30, 0, 12, 31, 23, 1, True], 'dleap': True,
                   'moys': [525600, 525660, 527040 - 60]}),
    ('cont_vs_disc', {'t': [12, 30, 0, 12, 31, 23, 1, True]}),
    ('cont_vs_disc', {'t': [1, 30, 0, 3, 2, 23, 1, False]}),
    ('cont_vs_disc', {'t': [12, 26, 0, 1, 3, 23, 1, False]}),
    ('stats_of_groups', {'coll': 'cont', 'iv': 'monthly', 'stat': 'average', 'p': 0, 't': [1, 30, 0, 3, 2, 23, 1, False]}),
    ('stats_of_groups', {'coll': 'cont', 'iv': 'daily', 'stat': 'total', 'p': 0, 't': [12, 26, 0, 1, 3, 23, 1, False]}),
    ('daily_month', {'leap': True, 'doys': [59, 60, 61, 335, 336, 366]}),
    ('daily_month', {'leap': False, 'doys': [59, 60, 61, 334, 335, 365]}),
    ('daily_month', {'leap': True, 'doys': [31, 32, 59, 60, 61, 62, 366], 'vals': [7.0, 9.0, 3.0, 8.0, 5.0, 1.0, 2.0]}),
    ('history', IMMUTABLE_MONTH_INPUT),
    ('order_stats', {'vals': [4.0, 1.0, 2.0, 3.0], 'p': 25, 'p2': 60, 'count': 2}),
    ('order_stats', {'vals': [2.0, 2.0, 1.0, 2.0, 1.0], 'p': 50, 'p2': 50, 'count': 5}),
]


def _month_of_doy(leap, d):
    return (date(_year(leap), 1, 1) + timedelta(days=d - 1)).month


def _count_branches(ctx, op, inp):
    """Counted strata of kind (j): which branch of the anchored functions an input takes (worked out from
    the plain numbers of the input; the list of branches is in the module header)."""
    c = ctx.count
    if op in ('partition', 'stats_of_groups', 'cont_vs_disc'):
        t = tuple(inp['t'])
        coll = inp.get('coll', 'cont')
        by = inp.get('by') or {'daily': 'day', 'monthly': 'month', 'monthlyperhour': 'mph'}.get(inp.get('iv'))
        span = _classify(t)
        if coll == 'cont':
            if by in ('day', None):
                c('branch:cont.group_by_day:' + ('wrapped-period (two loops)' if span.startswith('wrap') else 'plain-period'))
            if by in ('month', None):
                sm, sd, _, em, ed, _, _, leap = t
                if span == 'wrap-same-month':
                    c('branch:cont.group_by_month:month-visited-twice')
                elif sm == em and span == 'partial':
                    c('branch:cont.group_by_month:single-month (no loop)')
                else:
                    c('branch:cont.group_by_month:several-months')
                c('branch:cont.group_by_month:first-month-%s' % ('partial' if sd != 1 else 'whole'))
            if by in ('mph', None):
                c('branch:cont.datetimes:lazy-slot-filled-by-this-read')
        else:
            c('branch:disc.group_by_day:%s-keys' % ('366' if t[7] else '365')) if by == 'day' else None
            if by == 'mph':
                c('branch:disc.group_by_month_per_hour:timestep-%d' % t[6])
        if op == 'stats_of_groups':
            c('branch:_time_interval_operation:op-' + inp['stat'])
            c('branch:_time_interval_operation:interval-' + inp['iv'])
            c('branch:_time_interval_operation:%s' % ('new-header (sub-hourly, daily/monthly)'
                                                      if t[6] != 1 and inp['iv'] in ('daily', 'monthly')
                                                      else 'header-duplicated'))
            if coll == 'disc':
                have = set(_key_of(by, _ref_dt(inp['dleap'], m)) for m in inp['moys'])
                listed = set(_key_of(by, _ref_dt(t[7], m)) for m in ref_moys(t))
                c('branch:_time_interval_operation:%s' % ('empty-group-skipped' if listed - have else 'every-listed-group-has-data'))
            vals = inp.get('vals')
            if vals and by == 'day' and (coll == 'cont' or len(vals) == len(ref_moys(t))) and t[2] == 0 and t[5] == 23:
                per = 24 * t[6]
                if any(not any(vals[i:i + per]) for i in range(0, len(vals), per)):
                    c('branch:_time_interval_operation:group-of-zeros-is-not-empty')
                if any(any(vals[i:i + per]) and sum(vals[i:i + per]) == 0 for i in range(0, len(vals), per)):
                    c('branch:_time_interval_operation:group-summing-to-zero')
            if inp['stat'] == 'percentile':
                c('branch:_time_interval_operation:percentile-%s' % ('at-bound' if inp['p'] in (0, 100) else 'inside'))
    elif op == 'daily_month':
        doys, leap = inp['doys'], inp['leap']
        c('branch:daily.group_by_month:%s' % ('leap' if leap else 'common'))
        if any(a > b for a, b in zip(doys, doys[1:])):
            c('branch:daily.group_by_month:days-not-ascending')
        if len(set(doys)) < len(doys):
            c('branch:daily.group_by_month:repeated-day')
        if any(_month_of_doy(leap, d) != _month_of_doy(leap, d + 1) for d in doys if d < (366 if leap else 365)):
            c('branch:daily.group_by_month:last-day-of-a-month')
        if (366 if leap else 365) in doys:
            c('branch:daily.group_by_month:last-day-of-the-year')
        if len(set(_month_of_doy(leap, d) for d in doys)) < 12:
            c('branch:daily._monthly_operation:empty-month-skipped')
    elif op == 'order_stats':
        n = len(inp['vals'])
        k = Fraction(n - 1) * Fraction(inp['p']) / 100
        c('branch:_percentile:%s' % ('on-a-value (f == c)' if k.denominator == 1 else 'interpolated'))
        c('branch:order_stats:class-%s%s' % (_order_class_for(inp.get('cls', 'daily'), n), '-imm' if inp.get('imm') else ''))
        c('branch:highest_lowest:count-%s' % ('all' if int(inp['count']) == n else 'one' if int(inp['count']) == 1 else 'some'))
        c('branch:highest_lowest:count-given-as-%s' % type(inp['count']).__name__)
        if len(set(inp['vals'])) < n:
            c('branch:highest_lowest:ties')
        if n == 1:
            c('branch:_percentile:single-value')


def _oracle_cases(ctx):
    for op, inp in _oracle_cases0(ctx):
        _count_branches(ctx, op, inp)
        yield op, inp


def _oracle_cases0(ctx):
    rng = ctx.rng
    big = ctx.searching or not ctx.quick
    for c in ORACLE_CORPUS:
        yield c
    # continuous collections: whole-day periods of every shape
    nper = 400 if big else 40
    for i in range(nper):
        t = _gen_fullday(rng, 12000 if i % 7 else 40000)
        imm = rng.random() < 0.3
        for by in ('day', 'month', 'mph'):
            if by == 'mph' and t[6] > 6 and rng.random() < 0.5:
                continue
            yield 'partition', _with_shapes(rng, {'coll': 'cont', 'by': by, 't': list(t), 'imm': imm})
        if i % 3 == 0 and len(ref_moys(t)) <= 12000 and t[6] <= 12:
            yield 'cont_vs_disc', _with_shapes(rng, {'t': list(t)})
        if t[6] <= 12 or rng.random() < 0.6:
            iv = rng.choice(['daily', 'monthly', 'monthlyperhour'])
            stat = rng.choice(['average', 'total', 'percentile'])
            p, _ = _gen_p(rng)
            _, vals = _gen_values(rng, len(ref_moys(t)))
            yield 'stats_of_groups', _with_shapes(rng, {'coll': 'cont', 'iv': iv, 'stat': stat, 'p': p, 't': list(t),
                                                        'vals': vals, 'imm': rng.random() < 0.3})
    # rare branches as strata of their own (kind j): a period inside one month (group_by_month without its
    # loop), whole days / months of zeros and of cancelling values (a group that sums to 0 is not an empty group)
    for _ in range(60 if big else 8):
        leap = rng.random() < 0.5
        m = rng.randrange(1, 13)
        a = rng.randrange(1, MLEN[leap][m - 1] + 1)
        b = rng.randrange(a, MLEN[leap][m - 1] + 1)
        t = (m, a, 0, m, b, 23, rng.choice([1, 1, 2, 4, 12, 60] if b - a < 6 else [1, 2]), leap)
        imm = rng.random() < 0.4
        yield 'partition', _with_shapes(rng, {'coll': 'cont', 'by': 'month', 't': list(t), 'imm': imm})
        _, vals = _gen_values(rng, len(ref_moys(t)))
        yield 'stats_of_groups', _with_shapes(rng, {'coll': 'cont', 'iv': 'monthly', 'stat': rng.choice(['average', 'total', 'percentile']),
                                                    'p': _gen_p(rng)[0], 't': list(t), 'vals': vals, 'imm': imm})
    for _ in range(60 if big else 8):
        t = _gen_fullday(rng, 4000)
        per = 24 * t[6]
        n = len(ref_moys(t))
        vals = [float(rng.randrange(1, 500)) for _ in range(n)]
        for d0 in rng.sample(range(n // per), min(n // per, rng.choice([1, 2, 40]))):
            if rng.random() < 0.5:
                vals[d0 * per:(d0 + 1) * per] = [0.0] * per
            else:
                x = float(rng.randrange(1, 99))
                vals[d0 * per:(d0 + 1) * per] = [x, -x] * (per // 2)
        iv = rng.choice(['daily', 'daily', 'monthly', 'monthlyperhour'] if t[6] <= 12 else ['daily', 'monthly'])
        stat = rng.choice(['average', 'total', 'percentile'])
        if rng.random() < 0.5:
            yield 'stats_of_groups', _with_shapes(rng, {'coll': 'cont', 'iv': iv, 'stat': stat, 'p': _gen_p(rng)[0],
                                                        't': list(t), 'vals': vals, 'imm': rng.random() < 0.3})
        else:
            yield 'stats_of_groups', _with_shapes(rng, {'coll': 'disc', 'iv': iv, 'stat': stat, 'p': _gen_p(rng)[0],
                                                        't': list(t), 'dleap': t[7], 'moys': ref_moys(t), 'vals': vals,
                                                        'imm': rng.random() < 0.3})
    # discontinuous collections
    for _ in range(500 if big else 56):
        t, dleap, moys, tag = _gen_disc(rng, 1500)
        if tag == 'other-leap':
            continue                         # header and datetimes disagree on the year: not a collection of the statement
        if tag == 'off-grid':
            bys = ('day', 'month')
        else:
            bys = ('day', 'month', 'mph')
        imm = rng.random() < 0.3
        for by in bys:
            if by == 'mph' and t[6] > 12 and rng.random() < 0.4:
                continue
            yield 'partition', _with_shapes(rng, {'coll': 'disc', 'by': by, 't': list(t), 'dleap': dleap, 'moys': moys,
                                                  'imm': imm})
        if tag in ('full', 'holes'):
            iv = rng.choice(['daily', 'monthly', 'monthlyperhour'] if t[6] <= 12 or rng.random() < 0.6 else ['daily', 'monthly'])
            stat = rng.choice(['average', 'total', 'percentile'])
            p, _ = _gen_p(rng)
            _, vals = _gen_values(rng, len(moys))
            yield 'stats_of_groups', _with_shapes(rng, {'coll': 'disc', 'iv': iv, 'stat': stat, 'p': p, 't': list(t),
                                                        'dleap': dleap, 'moys': moys, 'vals': vals,
                                                        'imm': rng.random() < 0.3})
    for _ in range(300 if big else 40):
        leap = rng.random() < 0.5
        n = 366 if leap else 365
        doys = sorted(rng.sample(range(1, n + 1), rng.choice([1, 3, 30, 200, n])))
        if rng.random() < 0.3:
            doys += [n] if n not in doys else []
        r = rng.random()
        if r < 0.25:                         # days not in ascending order (kind i: unsorted input)
            rng.shuffle(doys)
        elif r < 0.35:                       # the same day twice
            doys += [rng.choice(doys) for _ in range(rng.randrange(1, 4))]
        elif r < 0.45:                       # the last days of the months, in both kinds of year
            ends = [sum(MLEN[leap][:m]) for m in range(1, 13)]
            doys = sorted(set(ends + [e + 1 for e in ends if e < n]))
        _, vals = _gen_values(rng, len(doys))          # not in ascending order inside a month
        yield 'daily_month', _with_shapes(rng, {'leap': leap, 'doys': doys, 'vals': vals, 'p': _gen_p(rng)[0],
                                                'imm': rng.random() < 0.3})
    for _ in range(20000 if big else 1000):
        n = rng.choice([1, 2, 3, 4, 5, 8, 9, 12, 24, 25, 48, rng.randrange(1, 200)])
        _, vals = _gen_values(rng, n)
        p, _ = _gen_p(rng)
        p2, _ = _gen_p(rng)
        cnt = rng.randrange(1, n + 1)
        r = rng.random()
        if r < 0.1:
            cnt = float(cnt)
        elif r < 0.2:
            cnt = str(cnt)
        yield 'order_stats', _with_shapes(rng, {'vals': vals, 'p': p, 'p2': p2, 'count': cnt,
                                                'cls': rng.choice(ORDER_CLASSES), 'imm': rng.random() < 0.35})


def _flush_shape_counts(ctx):
    for k, v in sorted(SHAPE_COUNTS.items()):
        ctx.count(k, v)
    SHAPE_COUNTS.clear()


def oracle(ctx):
    def enough():
        return ctx.searching and sum(1 for f in ctx.failures if not _is_open_finding(f['sig'])) >= 8

    def until_enough(gen):
        for c in gen:
            if enough():
                return
            yield c
    run_oracle_cases(ctx, until_enough(_oracle_cases(ctx)), check_case)
    seen_open = [0]

    def capped(op, inp):
        res = check_case(op, inp)
        if res and _is_open_finding(res.get('sig') or {}):
            seen_open[0] += 1
            ctx.count('hist:open-finding-hit')
            if seen_open[0] > 2:
                return None
        return res
    run_oracle_cases(ctx, until_enough(_oracle_histories(ctx)), capped)
    if not enough() and len(ctx.failures) < 200:
        _oracle_process_orders(ctx)
    _flush_shape_counts(ctx)
    if os.environ.get('C03_DEBUG'):          # development aid: list every failure, not only the first
        print('C03_DEBUG times', {k: (v[0], round(v[1], 2)) for k, v in _TIMES.items()})
        for f in ctx.failures:
            print('C03_DEBUG', f.get('op'), json.dumps(f.get('sig'), default=str), str(f.get('required'))[:300], '|',
                  str(f.get('observed'))[:200], '|', json.dumps(f.get('input'), default=str)[:300])


LEVEL_TEXT = ('Machine-checked Lean 4 theorems (39) over an executable, value-polymorphic model of the grouping code: '
              'the datetime-keyed groups by day, month and month-per-hour (all 12 timesteps; key list proved '
              'duplicate-free and complete for grid date-times) hold at each key exactly the values whose own datetime '
              'has that key, in collection order, and their concatenation is a permutation of the data (nothing lost, '
              'duplicated or borrowed); a datetime without key (off-grid step, day 366 under a normal-year header) raises '
              'KeyError; the slice arithmetic of the continuous group_by_day AND group_by_month equals the keyed grouping '
              'for EVERY whole-day period (annual, partial, year-wrapping, wrapping inside one month; 12 timesteps; leap) '
              '- proved on top of the C04/C08 theorems and a calendar lemma from a finite check of the month table; '
              'average_/total_/percentile_ daily|monthly|monthly_per_hour of discontinuous and of continuous collections '
              'are, end to end, that statistic of exactly the values of each listed day/month/month-hour-minute, in '
              'listing order with empty groups skipped, and no day with data is skipped; percentile = textbook linear '
              'interpolation between order statistics with p=0 -> min, p=100 -> max, p=50 -> median, min <= percentile '
              '<= max, monotone in p; highest/lowest values = first count of the sort with distinct consistent indices '
              'and stable order of ties; daily collections are grouped by the calendar month of their day (all 365+366 '
              'days). Object state machine (lazy _datetimes slot of continuous collections, values setter, item '
              'assignment, convert_to_culled_timestep, refused operations, immutable twins): reads are pure and '
              'order-independent, a refused operation leaves every observation unchanged, and after EVERY history '
              'every read answers as on a freshly constructed object with the final public state (unconditional for '
              'every class over a well-formed period: a continuous collection refuses a culling step whose timestep '
              'does not divide its own, and culling to a dividing timestep is proved to give exactly the datetimes of '
              'the period at that timestep). Sibling classes: the immutable twin answers every read like the mutable '
              'class and refuses every mutator; a continuous collection answers the three groupings exactly like its '
              'to_discontinuous() image; the two branches of the percentile (on a value / interpolated). The model is compared with the real classes on structure-directed inputs '
              'and on operation histories, step by step, on every run; an '
              'independent oracle regroups every value by its stdlib datetime.')
LEVEL_NOTE = ('Trusted: Lean kernel; axioms propext/Classical.choice/Quot.sound only; the correspondence run '
              '(agreement on generated inputs only); the AP and Cal models (C04, C08); Python sorted()/OrderedDict '
              'modelled by List.mergeSort / association lists; float arithmetic of the statistics not proved.')
TECHNIQUE = ('Lean 4 proof (list induction over a polymorphic dictionary model, slice arithmetic with omega, '
             'linear arithmetic over Rat for order statistics) about a model tied to datacollection.py by '
             'differential correspondence')
