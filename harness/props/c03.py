"""C03 — Calendar grouping partitions the data; statistics equal those of the groups.

Model: lean/Ladybug/Model/Group.lean (polymorphic grouping) + Model/Stats.lean (statistics over Rat),
on top of Model/AP.lean and Model/Cal.lean; theorems: lean/Ladybug/Props/C03.lean
(lemmas Proofs/C03*.lean); driver: drv_c03.  Tie: correspondence (C) on the ops below.

The model describes ladybug/datacollection.py WITH fixes/C03_1..C03_5 applied (see Model/Group.lean).
"""
import itertools
import math
import statistics
import struct
from datetime import date, datetime, timedelta
from fractions import Fraction

from harness import core
from harness.core import compare_batch, err_name, run_oracle_cases

PROP = 'C03'
PROOF_MODULES = ['Ladybug.Props.C03']
GREP_MODULES = ['Ladybug.Py', 'Ladybug.Model.Cal', 'Ladybug.Model.AP', 'Ladybug.Model.Group',
                'Ladybug.Model.Stats', 'Ladybug.Proofs.C03Dict', 'Ladybug.Proofs.C03Cont',
                'Ladybug.Proofs.C03Stats', 'Ladybug.Proofs.C03Samples', 'Ladybug.Proofs.C03Month', 'Ladybug.Proofs.C03Mph', 'Ladybug.Drv.C03', 'Ladybug.DrvCore']
RULE = ('correspondence: hourly collections built from plain numbers — continuous (whole-day periods: '
        'annual / partial / year-wrapping / wrapping inside one month, 12 timesteps, leap) and '
        'discontinuous (any hour window; datetimes = the period, a subset with holes, shuffled, '
        'duplicated, outside the period, off the timestep grid, other leap flag) with distinct ids as '
        'values; group_by_day/month/month_per_hour dictionaries compared key by key in order; '
        'average_/total_/percentile_ daily|monthly|monthly_per_hour compared on keys, header timestep '
        'and values (bit-exact where the float computation is exact, else 1e-9); percentile/median/'
        'min/max/average/total/highest/lowest on integer, dyadic, tied and random float lists; '
        'DailyCollection.group_by_month and its monthly statistics.  oracle: every value regrouped by '
        'its own stdlib datetime, statistics recomputed with Fractions from those groups, continuous '
        'vs to_discontinuous(), textbook percentile/median/order statistics.  A case is non-trivial '
        'when the implementation returns a value (not a rejection); distinct = distinct (op, input).')
TRUSTED_BASE = [
    'model of AnalysisPeriod (Model/AP.lean, tied by the C04 check) supplies moys/doys_int/months_int/'
    'months_per_hour/len; model of DateTime (Model/Cal.lean, tied by the C08 check)',
    'modelled, not verified: Python sorted()/list.sort stability (Lean List.mergeSort is used as its '
    'model and compared on lists with ties), OrderedDict insertion order, float arithmetic of '
    'sum/len and of the percentile weights (theorems are over exact rationals)',
    'Header/metadata handling of _time_interval_operation is compared only for the header timestep',
]
ASSUMPTIONS = [
    'CPython datetime is the reference calendar of the oracle',
    '/repo carries fixes/C03_1..C03_5 (on a tree without them the check reports the violation)',
    'values are finite numbers (no NaN)',
]

VALID_TS = (1, 2, 3, 4, 5, 6, 10, 12, 15, 20, 30, 60)
MLEN = {False: (31, 28, 31, 30, 31, 30, 31, 31, 30, 31, 30, 31),
        True: (31, 29, 31, 30, 31, 30, 31, 31, 30, 31, 30, 31)}


# ---------------------------------------------------------------------------------------------
# plain-number helpers (stdlib only: nothing here calls ladybug)


def _b(x):
    return '1' if x else '0'


def _year(leap):
    return 2016 if leap else 2017


def _year_minutes(leap):
    return 527040 if leap else 525600


def _moy(leap, month, day, hour=0, minute=0):
    y = _year(leap)
    return int((datetime(y, month, day, hour, minute) - datetime(y, 1, 1)).total_seconds() // 60)


def _ref_dt(leap, moy):
    return datetime(_year(leap), 1, 1) + timedelta(minutes=moy)


def ref_moys(t):
    """Independent enumeration of the steps of period t (C04's description), chronological from the start."""
    sm, sd, sh, em, ed, eh, ts, leap = t
    st, en = _moy(leap, sm, sd, sh), _moy(leap, em, ed, eh)
    step = 60 // ts
    n = _year_minutes(leap)

    def inwin(mod):
        if sh <= eh:
            return (sh * 60 <= mod <= eh * 60) or (sh == 0 and eh == 23)
        return mod >= sh * 60 or mod <= eh * 60

    if st <= en:
        rg = range(st, en + 60, step)
    else:
        rg = itertools.chain(range(st, n, step), range(0, en + 60, step))
    return [m for m in rg if inwin(m % 1440)]


def _runs(l):
    """[3,4,5,9,1,2] -> '3-5,9,1-2' (same compression as the model driver)."""
    if not l:
        return '-'
    out = []
    a = b = l[0]
    for x in l[1:]:
        if x == b + 1:
            b = x
        else:
            out.append(str(a) if a == b else '%d-%d' % (a, b))
            a = b = x
    out.append(str(a) if a == b else '%d-%d' % (a, b))
    return ','.join(out)


def _show_dict_nat(d):
    items = list(d.items())
    return 'ok keys ' + _runs([k for k, _ in items]) + ' groups' + \
        ''.join(' %d=%s' % (k, _runs(list(v))) for k, v in items if len(v))


def _k3(k):
    return '%d.%d.%d' % tuple(k)


def _show_dict_mph(d):
    items = list(d.items())
    return 'ok keys ' + ','.join(_k3(k) for k, _ in items) + ' groups' + \
        ''.join(' %s=%s' % (_k3(k), _runs(list(v))) for k, v in items if len(v))


def _ap_tokens(t):
    return ' '.join(str(x) for x in t[:7]) + ' ' + _b(t[7])


def _frac_tok(x):
    fr = Fraction(x)
    return str(fr.numerator) if fr.denominator == 1 else '%d/%d' % (fr.numerator, fr.denominator)


def _fbits(x):
    return struct.unpack('<Q', struct.pack('<d', float(x)))[0]


# ---------------------------------------------------------------------------------------------
# building the real objects


def _header(t):
    from ladybug.header import Header
    from ladybug.analysisperiod import AnalysisPeriod
    from ladybug.datatype.temperature import Temperature
    return Header(Temperature(), 'C', AnalysisPeriod(*t))


def _cont(t, values=None):
    from ladybug.datacollection import HourlyContinuousCollection
    h = _header(t)
    if values is None:
        values = list(range(len(ref_moys(t))))
    return HourlyContinuousCollection(h, values)


def _disc(t, dleap, moys, values=None):
    from ladybug.datacollection import HourlyDiscontinuousCollection
    from ladybug.dt import DateTime
    h = _header(t)
    dts = []
    for m in moys:
        r = _ref_dt(dleap, m)
        dts.append(DateTime(r.month, r.day, r.hour, r.minute, dleap))
    if values is None:
        values = list(range(len(moys)))
    return HourlyDiscontinuousCollection(h, values, dts)


def _daily(t, doys, values=None):
    from ladybug.datacollection import DailyCollection
    if values is None:
        values = list(range(len(doys)))
    return DailyCollection(_header(t), values, doys)


# ---------------------------------------------------------------------------------------------
# generators (plain numbers)


def _gen_date(rng, leap):
    r = rng.random()
    if r < 0.35:
        pool = [(1, 1), (12, 31), (2, 28), (3, 1), (1, 31), (2, 1), (12, 1), (6, 30), (7, 1), (12, 30), (1, 2)]
        if leap:
            pool += [(2, 29), (2, 29)]
        return rng.choice(pool)
    m = rng.randrange(1, 13)
    if r < 0.55:
        return m, rng.choice([1, MLEN[leap][m - 1]])
    return m, rng.randrange(1, MLEN[leap][m - 1] + 1)


def _span_days(t):
    sm, sd, _, em, ed, _, _, leap = t
    a = _moy(leap, sm, sd) // 1440
    b = _moy(leap, em, ed) // 1440
    n = 366 if leap else 365
    return (b - a) % n + 1 if (a, 0) <= (b, 0) or True else 0


def _gen_fullday(rng, max_steps):
    """A whole-day period (what a continuous collection needs), boundary-biased, size-capped."""
    for _ in range(200):
        leap = rng.random() < 0.45
        ts = rng.choice([1, 1, 1, 2, 2, 3, 4, 5, 6, 10, 12, 15, 20, 30, 60])
        r = rng.random()
        if r < 0.12:
            sm, sd, em, ed = 1, 1, 12, 31
        elif r < 0.30:                       # wraps the year end inside one month
            m = rng.randrange(1, 13)
            ed = rng.randrange(1, MLEN[leap][m - 1])
            sd = rng.randrange(ed + 1, MLEN[leap][m - 1] + 1)
            sm = em = m
        elif r < 0.45:                       # short wrap over new year
            a = rng.randrange(1, 40)
            b = rng.randrange(1, 40)
            d0 = date(_year(leap), 12, 31) - timedelta(days=a - 1)
            d1 = date(_year(leap), 1, 1) + timedelta(days=b - 1)
            sm, sd, em, ed = d0.month, d0.day, d1.month, d1.day
        else:
            (sm, sd), (em, ed) = _gen_date(rng, leap), _gen_date(rng, leap)
        t = (sm, sd, 0, em, ed, 23, ts, leap)
        a, b = _moy(leap, sm, sd), _moy(leap, em, ed, 23)
        days = ((b - a) % _year_minutes(leap)) // 1440 + 1
        if days * 24 * ts <= max_steps:
            return t
    return (1, 1, 0, 1, 2, 23, 1, False)


def _classify(t):
    sm, sd, sh, em, ed, eh, ts, leap = t
    a, b = _moy(leap, sm, sd, sh), _moy(leap, em, ed, eh)
    if (sm, sd, em, ed) == (1, 1, 12, 31):
        span = 'annual'
    elif a > b:
        span = 'wrap-same-month' if sm == em else 'wrap'
    else:
        span = 'partial'
    return span


def _gen_window_ap(rng):
    """Any valid period (hour windows, overnight) for discontinuous headers; small."""
    leap = rng.random() < 0.45
    ts = rng.choice([1, 1, 2, 3, 4, 6, 12, 60])
    (sm, sd) = _gen_date(rng, leap)
    if rng.random() < 0.7:
        d0 = date(_year(leap), sm, sd) + timedelta(days=rng.choice([0, 1, 2, 5, 30, 45]))
        if d0.year != _year(leap):
            d0 = date(_year(leap), d0.month, d0.day)
        em, ed = d0.month, d0.day
    else:
        em, ed = _gen_date(rng, leap)
    sh, eh = rng.choice([(0, 23), (0, 23), (8, 17), (22, 5), (0, 11), (12, 23), (5, 5), (23, 0),
                         (rng.randrange(24), rng.randrange(24))])
    return (sm, sd, sh, em, ed, eh, ts, leap)


def _gen_disc(rng, cap=3000):
    """(period tuple, datetime leap flag, moys, tag) of a discontinuous collection."""
    for _ in range(50):
        t = _gen_window_ap(rng) if rng.random() < 0.6 else _gen_fullday(rng, cap)
        base = ref_moys(t)
        if 0 < len(base) <= cap * 3:
            break
    else:
        t = (1, 1, 0, 1, 3, 23, 1, False)
        base = ref_moys(t)
    leap = t[7]
    step = 60 // t[6]
    r = rng.random()
    dleap = leap
    if r < 0.25:
        moys, tag = list(base), 'full'
    elif r < 0.50:
        keep = rng.choice([0.9, 0.5, 0.1])
        moys = [m for m in base if rng.random() < keep] or [base[0]]
        tag = 'holes'
    elif r < 0.62:
        moys = list(base)
        rng.shuffle(moys)
        moys = moys[:rng.randrange(1, len(moys) + 1)]
        tag = 'shuffled'
    elif r < 0.72:
        moys = [rng.choice(base) for _ in range(rng.randrange(1, 60))]
        tag = 'duplicates'
    elif r < 0.84:                           # anywhere in the year, on the grid
        n = _year_minutes(leap)
        moys = sorted(rng.randrange(n // step) * step for _ in range(rng.randrange(1, 200)))
        moys += [n - step, 0, n - 1440]
        tag = 'outside-period'
    elif r < 0.92:                           # off the timestep grid (KeyError in month-per-hour)
        n = _year_minutes(leap)
        moys = sorted(rng.randrange(n) for _ in range(rng.randrange(1, 40)))
        tag = 'off-grid'
    else:                                    # datetimes carry the other leap flag
        dleap = not leap
        n = _year_minutes(dleap)
        moys = sorted(rng.randrange(n // step) * step for _ in range(rng.randrange(1, 100)))
        moys += [n - step, _moy(dleap, 3, 1), _moy(dleap, 2, 28)]
        tag = 'other-leap'
    return t, dleap, moys, tag


def _gen_values(rng, n, kind=None):
    """Value lists: 'int' (exact in floats), 'dyadic', 'ties', 'float'."""
    kind = kind or rng.choice(['int', 'int', 'dyadic', 'ties', 'float'])
    if kind == 'int':
        vals = [float(rng.randrange(-50, 1000)) for _ in range(n)]
    elif kind == 'dyadic':
        vals = [rng.randrange(-4000, 4000) / 8.0 for _ in range(n)]
    elif kind == 'ties':
        vals = [float(rng.randrange(0, 4)) for _ in range(n)]
    else:
        vals = [rng.uniform(-40.0, 60.0) for _ in range(n)]
    return kind, vals


EXACT_P = (0, 100, 50, 25, 75, 12.5, 37.5, 62.5, 87.5, 6.25, 93.75)


def _gen_p(rng):
    r = rng.random()
    if r < 0.6:
        return rng.choice(EXACT_P), True
    if r < 0.8:
        return float(rng.randrange(0, 101)), False
    return rng.uniform(0, 100), False


# ---------------------------------------------------------------------------------------------
# correspondence


GROUP_FN = {'day': 'group_by_day', 'month': 'group_by_month', 'mph': 'group_by_month_per_hour'}


def _impl_group_cont(c):
    by, t = c
    d = getattr(_cont(t), GROUP_FN[by])()
    return _show_dict_mph(d) if by == 'mph' else _show_dict_nat(d)


def _impl_group_disc(c):
    by, t, dleap, moys = c
    d = getattr(_disc(t, dleap, moys), GROUP_FN[by])()
    return _show_dict_mph(d) if by == 'mph' else _show_dict_nat(d)


def _op_method(coll, interval, stat, p):
    name = {'daily': 'daily', 'monthly': 'monthly', 'monthlyperhour': 'monthly_per_hour'}[interval]
    if stat == 'percentile':
        return getattr(coll, 'percentile_' + name)(p)
    return getattr(coll, stat + '_' + name)()


def _parse_op(line):
    """model answer 'ok ts n keys… | rats…' -> (ts, [keys], [Fraction])."""
    if not line.startswith('ok '):
        return line
    left, right = line[3:].split('|')
    lt = left.split()
    ts, n = int(lt[0]), int(lt[1])
    keys = lt[2:]
    vals = [Fraction(x) for x in right.split()]
    assert len(keys) == n and len(vals) == n
    return ts, keys, vals


def _close(model_fr, impl, exact):
    if isinstance(impl, bool) or not isinstance(impl, (int, float)):
        return False
    if isinstance(impl, float) and not math.isfinite(impl):
        return False
    if exact:
        return _fbits(float(model_fr)) == _fbits(impl) or float(model_fr) == impl
    return abs(float(model_fr) - impl) <= 1e-9 * max(1.0, abs(impl))


def _compare_ops(ctx, name, cases, line_fn, impl_fn):
    """cases carry an `exact` flag; impl_fn -> (ts, [key strings], [numbers]) or raises."""
    outs = ctx.driver().run([line_fn(c) for c in cases])
    for c, mo in zip(cases, outs):
        try:
            io = impl_fn(c)
        except Exception as e:
            io = 'err:' + err_name(e)
        ctx.compared += 1
        ctx.count('op:' + name)
        key = (name, line_fn(c)[:4000])
        ctx.case(key, nontrivial=not isinstance(io, str))
        pm = _parse_op(mo)
        ok = False
        if isinstance(pm, str) or isinstance(io, str):
            ok = pm == io
            ctx.count('err_results')
        else:
            ok = pm[0] == io[0] and pm[1] == io[1] and len(pm[2]) == len(io[2]) and \
                all(_close(a, b, c['exact']) for a, b in zip(pm[2], io[2]))
        if not ok:
            ctx.disagree(name, {k: v for k, v in c.items() if k != 'vals'} | {'nvals': len(c.get('vals', []))},
                         mo[:600], (io if isinstance(io, str) else repr(io)[:600]))
    if cases:
        ctx.sample({'op': name, 'request': line_fn(cases[0])[:200], 'model': outs[0][:200]})


def _exactness(kind, stat, pexact):
    if kind == 'float':
        return False
    if stat == 'percentile':
        return pexact
    return True


def correspondence(ctx):
    rng = ctx.rng

    # ---- continuous grouping: fixed corpus + generated whole-day periods
    corpus = [(1, 30, 0, 3, 2, 23, 1, False), (12, 26, 0, 1, 3, 23, 1, False), (12, 30, 0, 12, 31, 23, 1, True),
              (1, 20, 0, 1, 10, 23, 1, False), (1, 1, 0, 12, 31, 23, 1, False), (1, 1, 0, 12, 31, 23, 1, True),
              (2, 29, 0, 2, 28, 23, 2, True), (12, 31, 0, 1, 1, 23, 4, True), (3, 1, 0, 2, 28, 23, 1, False),
              (6, 15, 0, 6, 15, 23, 60, False), (2, 28, 0, 3, 1, 23, 3, True), (1, 1, 0, 1, 1, 23, 1, False)]
    periods = list(corpus)
    budget = ctx.n(350000, 4000000)
    while budget > 0 and len(periods) < ctx.n(95, 1500):
        t = _gen_fullday(rng, 25000 if rng.random() < 0.9 else 70000)
        periods.append(t)
        budget -= len(ref_moys(t))
    cases = []
    for t in periods:
        ctx.count('cont:span:' + _classify(t))
        ctx.count('cont:ts:%d' % t[6])
        ctx.count('cont:leap:%s' % t[7])
        cases.append(('day', t))
        cases.append(('month', t))
        if t[6] <= 6 or rng.random() < 0.15:
            cases.append(('mph', t))
    # rejections of the constructor (hour window) and of the period
    for t in [(1, 1, 1, 12, 31, 23, 1, False), (1, 1, 0, 12, 31, 22, 1, False), (1, 1, 0, 1, 2, 23, 7, False),
              (2, 29, 0, 3, 1, 23, 1, False), (13, 1, 0, 1, 2, 23, 1, False)]:
        cases.append(('day', t))
        cases.append(('month', t))

    def cont_impl(c):
        by, t = c
        from ladybug.datacollection import HourlyContinuousCollection
        h = _header(t)
        try:
            n = len(ref_moys(t))
        except ValueError:
            n = 1
        d = getattr(HourlyContinuousCollection(h, list(range(n))), GROUP_FN[by])()
        return _show_dict_mph(d) if by == 'mph' else _show_dict_nat(d)

    compare_batch(ctx, 'cont_group', cases, lambda c: 'cont_%s %s' % (c[0], _ap_tokens(c[1])), cont_impl,
                  key=lambda c: (c[0],) + tuple(c[1]))

    # ---- discontinuous grouping
    dcases = [('day', (1, 1, 0, 12, 31, 23, 1, True), True, [0, 60, 1440, 525600, 527039 // 60 * 60]),
              ('month', (1, 1, 0, 12, 31, 23, 1, False), False, [44640, 0, 44580, 44640]),
              ('mph', (1, 1, 0, 1, 1, 23, 2, False), False, [0, 30, 60, 90, 1440]),
              ('mph', (1, 1, 0, 1, 1, 23, 1, False), False, [0, 30]),
              ('day', (1, 1, 0, 12, 31, 23, 1, False), True, [527040 - 60])]
    for _ in range(ctx.n(120, 1500)):
        t, dleap, moys, tag = _gen_disc(rng, ctx.n(1500, 4000))
        ctx.count('disc:' + tag)
        ctx.count('disc:span:' + _classify(t))
        for by in ('day', 'month', 'mph'):
            if by == 'mph' and t[6] > 12 and rng.random() < 0.8:
                continue
            dcases.append((by, t, dleap, moys))
    compare_batch(ctx, 'disc_group', dcases,
                  lambda c: 'disc_%s %s %s %s' % (c[0], _ap_tokens(c[1]), _b(c[2]), ' '.join(map(str, c[3]))),
                  _impl_group_disc, key=lambda c: (c[0], c[1], c[2], hash(tuple(c[3]))))

    # ---- DailyCollection.group_by_month
    ycases = [(True, [59, 60, 61, 366]), (False, [59, 60, 61, 365]), (False, [366]), (True, list(range(1, 367))),
              (False, list(range(1, 366))), (True, [367]), (False, [0])]
    for _ in range(ctx.n(60, 1500)):
        leap = rng.random() < 0.5
        n = 366 if leap else 365
        k = rng.choice([1, 5, 40, n])
        doys = sorted(rng.sample(range(1, n + 1), k))
        if rng.random() < 0.2:
            rng.shuffle(doys)
        if rng.random() < 0.1:
            doys.append(rng.choice([n + 1, 400]))
        ycases.append((leap, doys))
    compare_batch(ctx, 'daily_month', ycases, lambda c: 'daily_month %s %s' % (_b(c[0]), ' '.join(map(str, c[1]))),
                  lambda c: _show_dict_nat(_daily((1, 1, 0, 12, 31, 23, 1, c[0]), c[1]).group_by_month()),
                  key=lambda c: (c[0], tuple(c[1])))

    # ---- statistics per interval
    ocases = []
    for t in corpus[:4] + [(1, 1, 0, 12, 31, 23, 1, False)]:
        for iv in ('daily', 'monthly', 'monthlyperhour'):
            n = len(ref_moys(t))
            ocases.append({'coll': 'cont', 'iv': iv, 'stat': 'average', 'p': 0, 't': t, 'exact': True,
                           'vals': [float(i) for i in range(n)]})
    for _ in range(ctx.n(140, 2000)):
        iv = rng.choice(['daily', 'monthly', 'monthlyperhour'])
        stat = rng.choice(['average', 'total', 'percentile', 'percentile'])
        p, pexact = _gen_p(rng) if stat == 'percentile' else (0, True)
        if rng.random() < 0.03 and stat == 'percentile':
            p, pexact = rng.choice([-1, 100.5, 101]), True
        if rng.random() < 0.5:
            t = _gen_fullday(rng, 9000 if iv != 'monthlyperhour' else 4000)
            if iv == 'monthlyperhour' and t[6] > 6:
                t = t[:6] + (rng.choice([1, 2, 4]), t[7])
            n = len(ref_moys(t))
            kind, vals = _gen_values(rng, n)
            ocases.append({'coll': 'cont', 'iv': iv, 'stat': stat, 'p': p, 't': t, 'vals': vals,
                           'exact': _exactness(kind, stat, pexact)})
            ctx.count('opcase:cont:%s:%s' % (iv, stat))
        else:
            t, dleap, moys, tag = _gen_disc(rng, 1500)
            if iv == 'monthlyperhour' and t[6] > 12:
                iv = 'daily'
            kind, vals = _gen_values(rng, len(moys))
            ocases.append({'coll': 'disc', 'iv': iv, 'stat': stat, 'p': p, 't': t, 'dleap': dleap, 'moys': moys,
                           'vals': vals, 'exact': _exactness(kind, stat, pexact)})
            ctx.count('opcase:disc:%s:%s:%s' % (tag, iv, stat))
        ctx.count('opcase:values:' + kind)

    def op_line(c):
        head = 'op %s %s %s %s %s' % (c['iv'], c['stat'], _frac_tok(c['p']), c['coll'], _ap_tokens(c['t']))
        vt = ' '.join(_frac_tok(v) for v in c['vals'])
        if c['coll'] == 'cont':
            return head + ' ' + vt
        return '%s %s %d %s %s' % (head, _b(c['dleap']), len(c['moys']), ' '.join(map(str, c['moys'])), vt)

    def op_impl(c):
        coll = _cont(c['t'], c['vals']) if c['coll'] == 'cont' else _disc(c['t'], c['dleap'], c['moys'], c['vals'])
        r = _op_method(coll, c['iv'], c['stat'], c['p'])
        keys = [(_k3(k) if isinstance(k, tuple) else str(k)) for k in r.datetimes]
        return r.header.analysis_period.timestep, keys, list(r.values)

    _compare_ops(ctx, 'interval_op', ocases, op_line, op_impl)

    # ---- DailyCollection monthly statistics
    mcases = []
    for _ in range(ctx.n(60, 1500)):
        leap = rng.random() < 0.5
        n = 366 if leap else 365
        t = _gen_fullday(rng, 10 ** 9)
        t = t[:6] + (1, leap)
        try:
            _moy(leap, t[0], t[1]), _moy(leap, t[3], t[4])
        except ValueError:
            continue
        doys = sorted(rng.sample(range(1, n + 1), rng.choice([1, 12, 100, n])))
        stat = rng.choice(['average', 'total', 'percentile'])
        p, pexact = _gen_p(rng) if stat == 'percentile' else (0, True)
        kind, vals = _gen_values(rng, len(doys))
        mcases.append({'stat': stat, 'p': p, 't': t, 'doys': doys, 'vals': vals,
                       'exact': _exactness(kind, stat, pexact)})

    def daily_line(c):
        return 'daily_op %s %s %s %d %s %s' % (c['stat'], _frac_tok(c['p']), _ap_tokens(c['t']), len(c['doys']),
                                              ' '.join(map(str, c['doys'])), ' '.join(_frac_tok(v) for v in c['vals']))

    def daily_impl(c):
        coll = _daily(c['t'], c['doys'], c['vals'])
        r = coll.percentile_monthly(c['p']) if c['stat'] == 'percentile' else getattr(coll, c['stat'] + '_monthly')()
        return r.header.analysis_period.timestep, [str(k) for k in r.datetimes], list(r.values)

    _compare_ops(ctx, 'daily_op', mcases, daily_line, daily_impl)

    # ---- plain statistics of a collection
    scases = []
    for _ in range(ctx.n(900, 25000)):
        n = rng.choice([1, 1, 2, 3, 4, 5, 7, 8, 9, 16, 17, 24, 31, rng.randrange(1, 120)])
        kind, vals = _gen_values(rng, n)
        p, pexact = _gen_p(rng)
        if rng.random() < 0.03:
            p, pexact = rng.choice([-0.5, 100.25, 1000]), True
        cnt = rng.choice([1, n, max(1, n // 2), rng.randrange(1, n + 1), 0, n + 1, -1]) if rng.random() < 0.2 \
            else rng.randrange(1, n + 1)
        scases.append({'vals': vals, 'p': p, 'count': cnt, 'exact': kind != 'float', 'pexact': pexact and kind != 'float'})
        ctx.count('stats:values:' + kind)
        ctx.count('stats:n:%s' % ('1' if n == 1 else '2-9' if n < 10 else '10+'))

    def coll_of(c):
        from ladybug.datacollection import DailyCollection
        return DailyCollection(_header((1, 1, 0, 12, 31, 23, 1, True)), c['vals'], list(range(1, len(c['vals']) + 1)))

    def single(name, line_fn, impl_fn, exact_key):
        outs = ctx.driver().run([line_fn(c) for c in scases])
        for c, mo in zip(scases, outs):
            try:
                io = impl_fn(c)
            except Exception as e:
                io = 'err:' + err_name(e)
            ctx.compared += 1
            ctx.count('op:' + name)
            ctx.case((name, line_fn(c)[:2000]), nontrivial=not isinstance(io, str))
            if mo.startswith('ok ') and not isinstance(io, str):
                mv = [Fraction(x) for x in mo[3:].split()]
                ok = len(mv) == len(io) and all(_close(a, b, c[exact_key]) for a, b in zip(mv, io))
            else:
                ok = mo == io
            if not ok:
                ctx.disagree(name, {'vals': c['vals'][:40], 'p': c['p'], 'n': len(c['vals'])}, mo[:300], repr(io)[:300])

    vt = lambda c: ' '.join(_frac_tok(v) for v in c['vals'])   # noqa: E731
    single('percentile', lambda c: 'percentile %s %s' % (_frac_tok(c['p']), vt(c)),
           lambda c: [coll_of(c).percentile(c['p'])], 'pexact')
    single('median', lambda c: 'median ' + vt(c), lambda c: [coll_of(c).median], 'exact')
    single('average', lambda c: 'average ' + vt(c), lambda c: [coll_of(c).average], 'exact')
    single('total', lambda c: 'total ' + vt(c), lambda c: [coll_of(c).total], 'exact')
    single('minmax', lambda c: 'minmax ' + vt(c),
           lambda c: [coll_of(c).min, coll_of(c).max] if coll_of(c).bounds == (coll_of(c).min, coll_of(c).max)
           else 'bounds-differ', 'exact')

    def hl(name, meth):
        outs = ctx.driver().run(['%s %d %s' % (name, c['count'], vt(c)) for c in scases])
        for c, mo in zip(scases, outs):
            try:
                v, ix = getattr(coll_of(c), meth)(c['count'])
                io = 'ok ' + ' '.join(_frac_tok(x) for x in v) + ' | ' + ' '.join(str(i) for i in ix)
            except Exception as e:
                io = 'err:' + err_name(e)
            ctx.compared += 1
            ctx.count('op:' + name)
            ctx.case((name, c['count'], tuple(c['vals'])), nontrivial=not io.startswith('err:'))
            if ' '.join(mo.split()) != ' '.join(io.split()):
                ctx.disagree(name, {'vals': c['vals'][:40], 'count': c['count']}, mo[:300], io[:300])

    hl('highest', 'highest_values')
    hl('lowest', 'lowest_values')


# ---------------------------------------------------------------------------------------------
# property oracle: the statement of C03 evaluated on the real code, independent of the model


def _key_of(by, r):
    if by == 'day':
        return r.timetuple().tm_yday
    if by == 'month':
        return r.month
    return (r.month, r.hour, r.minute)


def _expected_groups(by, dleap, moys):
    exp = {}
    for i, m in enumerate(moys):
        exp.setdefault(_key_of(by, _ref_dt(dleap, m)), []).append(i)
    return exp


def _textbook_percentile(vals, p):
    s = sorted(Fraction(v) for v in vals)
    k = Fraction(len(s) - 1) * Fraction(p) / 100
    lo = math.floor(k)
    hi = math.ceil(k)
    return s[lo] + (k - lo) * (s[hi] - s[lo])


def _stat_ref(stat, p, vals):
    fr = [Fraction(v) for v in vals]
    if stat == 'average':
        return sum(fr) / len(fr)
    if stat == 'total':
        return sum(fr)
    return _textbook_percentile(vals, p)


def _build(inp):
    t = tuple(inp['t'])
    if inp['coll'] == 'cont':
        moys = ref_moys(t)
        vals = inp.get('vals') or list(range(len(moys)))
        return _cont(t, vals), t[7], moys, vals
    moys = inp['moys']
    vals = inp.get('vals') or list(range(len(moys)))
    return _disc(t, inp['dleap'], moys, vals), inp['dleap'], moys, vals


def _sig(inp, **kw):
    t = tuple(inp['t'])
    s = {'coll': inp['coll'], 'span': _classify(t), 'leap': bool(t[7]), 'subhourly': t[6] != 1}
    s.update(kw)
    return s


def _chrono_first(keys):
    out = []
    for k in keys:
        if k not in out:
            out.append(k)
    return out


def check_case(op, inp):
    if op == 'partition':
        by = inp['by']
        coll, dleap, moys, _ = _build(inp)
        sig = _sig(inp, by=by)
        exp = _expected_groups(by, dleap, moys)
        try:
            got = getattr(coll, GROUP_FN[by])()
        except Exception as e:
            return {'required': 'groups of every value by its own datetime', 'observed': 'raises %s: %s' %
                    (type(e).__name__, e), 'sig': dict(sig, fail='raises ' + type(e).__name__)}
        nonempty = {k: list(v) for k, v in got.items() if len(v)}
        if nonempty != exp:
            for k in sorted(set(nonempty) | set(exp), key=str):
                if nonempty.get(k) != exp.get(k):
                    a, b = exp.get(k, []), nonempty.get(k, [])
                    fail = 'too-long' if len(b) > len(a) else 'too-short' if len(b) < len(a) else 'other-values'
                    return {'required': 'group %s = ids %s' % (k, _runs(a)), 'observed': 'ids %s' % _runs(b),
                            'sig': dict(sig, fail=fail)}
        allv = sorted(x for v in got.values() for x in v)
        if allv != list(range(len(moys))):
            return {'required': 'each value exactly once', 'observed': 'multiset differs',
                    'sig': dict(sig, fail='not-a-partition')}
        return None
    if op == 'cont_vs_disc':
        t = tuple(inp['t'])
        c = _cont(t)
        d = c.to_discontinuous()
        sig = _sig(dict(inp, coll='cont'))
        for by, fn in GROUP_FN.items():
            a, b = list(getattr(c, fn)().items()), None
            try:
                b = list(getattr(d, fn)().items())
            except Exception as e:
                b = 'raises %s' % type(e).__name__
            if a != b:
                return {'required': 'continuous and discontinuous give the same groups (%s)' % by,
                        'observed': 'they differ', 'sig': dict(sig, by=by, fail='cont!=disc')}
        for iv in ('daily', 'monthly', 'monthlyperhour'):
            for stat, p in (('average', 0), ('total', 0), ('percentile', 75)):
                x, y = _op_method(c, iv, stat, p), _op_method(d, iv, stat, p)
                if x.values != y.values or x.datetimes != y.datetimes:
                    return {'required': 'same %s %s' % (stat, iv), 'observed': 'differ',
                            'sig': dict(sig, by=iv, fail='cont!=disc stats')}
        return None
    if op == 'stats_of_groups':
        iv, stat, p = inp['iv'], inp['stat'], inp['p']
        by = {'daily': 'day', 'monthly': 'month', 'monthlyperhour': 'mph'}[iv]
        coll, dleap, moys, vals = _build(inp)
        sig = _sig(inp, by=iv, stat=stat)
        exp = _expected_groups(by, dleap, moys)
        r = _op_method(coll, iv, stat, p)
        keys = list(r.datetimes)
        for k, v in zip(keys, r.values):
            if k not in exp:
                return {'required': 'only non-empty groups reported', 'observed': 'key %s' % (k,),
                        'sig': dict(sig, fail='phantom-group')}
            want = _stat_ref(stat, p, [vals[i] for i in exp[k]])
            if abs(float(want) - v) > 1e-9 * max(1.0, abs(float(want))):
                return {'required': '%s of group %s = %s' % (stat, k, float(want)), 'observed': v,
                        'sig': dict(sig, fail='wrong-statistic')}
        if inp.get('inside', True):
            first = _chrono_first(_key_of(by, _ref_dt(dleap, m)) for m in ref_moys(tuple(inp['t']))
                                  if True)
            want_keys = [k for k in first if k in exp]
            got_keys = _chrono_first(keys)
            if by == 'mph':
                # the listing is month by month (period order), times of day ascending inside a month
                def canon(ks):
                    months = _chrono_first(k[0] for k in ks)
                    return [k for mo in months for k in sorted(x for x in ks if x[0] == mo)]
                want_keys, got_keys = canon(want_keys), (got_keys if got_keys == canon(got_keys) else got_keys + ['unordered'])
            if got_keys != want_keys:
                return {'required': 'groups in period order: %s' % (want_keys[:20],), 'observed': keys[:20],
                        'sig': dict(sig, fail='keys')}
        if iv in ('daily', 'monthly') and r.header.analysis_period.timestep != 1:
            return {'required': 'timestep 1', 'observed': r.header.analysis_period.timestep,
                    'sig': dict(sig, fail='timestep')}
        return None
    if op == 'daily_month':
        leap, doys = inp['leap'], inp['doys']
        vals = inp.get('vals') or [float(i) for i in range(len(doys))]
        coll = _daily((1, 1, 0, 12, 31, 23, 1, leap), doys, vals)
        sig = {'coll': 'daily', 'leap': leap}
        exp = {}
        for i, d in enumerate(doys):
            exp.setdefault((date(_year(leap), 1, 1) + timedelta(days=d - 1)).month, []).append(i)
        try:
            got = {k: list(v) for k, v in coll.group_by_month().items() if len(v)}
        except Exception as e:
            return {'required': 'months of the days', 'observed': 'raises %s' % type(e).__name__,
                    'sig': dict(sig, fail='raises ' + type(e).__name__)}
        want = {k: [vals[i] for i in ix] for k, ix in exp.items()}
        if got != want:
            return {'required': 'each day in its month', 'observed': 'differs',
                    'sig': dict(sig, fail='wrong-month')}
        for stat, p in (('average', 0), ('total', 0), ('percentile', 30)):
            r = coll.percentile_monthly(p) if stat == 'percentile' else getattr(coll, stat + '_monthly')()
            if list(r.datetimes) != sorted(want):
                return {'required': sorted(want), 'observed': list(r.datetimes), 'sig': dict(sig, fail='keys')}
            for k, v in zip(r.datetimes, r.values):
                w = float(_stat_ref(stat, p, want[k]))
                if abs(w - v) > 1e-9 * max(1.0, abs(w)):
                    return {'required': w, 'observed': v, 'sig': dict(sig, fail='wrong-statistic', stat=stat)}
        return None
    if op == 'order_stats':
        vals, p, cnt = inp['vals'], inp['p'], inp['count']
        from ladybug.datacollection import DailyCollection
        coll = DailyCollection(_header((1, 1, 0, 12, 31, 23, 1, True)), vals, list(range(1, len(vals) + 1)))
        tol = lambda w: 1e-9 * max(1.0, abs(float(w)))   # noqa: E731
        sig = {'coll': 'any'}
        w = _textbook_percentile(vals, p)
        g = coll.percentile(p)
        if abs(float(w) - g) > tol(w):
            return {'required': 'percentile %s = %s' % (p, float(w)), 'observed': g, 'sig': dict(sig, fail='percentile')}
        if coll.percentile(0) != min(vals) or coll.percentile(100) != max(vals):
            return {'required': 'p0=min, p100=max', 'observed': (coll.percentile(0), coll.percentile(100)),
                    'sig': dict(sig, fail='percentile-ends')}
        if abs(statistics.median(vals) - coll.median) > tol(coll.median) or \
                abs(coll.percentile(50) - coll.median) > tol(coll.median):
            return {'required': 'median %s' % statistics.median(vals), 'observed': coll.median,
                    'sig': dict(sig, fail='median')}
        if not (min(vals) - tol(g) <= g <= max(vals) + tol(g)):
            return {'required': 'min <= percentile <= max', 'observed': g, 'sig': dict(sig, fail='percentile-range')}
        p2 = inp.get('p2', p)
        lo, hi = sorted((p, p2))
        if coll.percentile(lo) > coll.percentile(hi) + tol(g):
            return {'required': 'monotone in p', 'observed': (coll.percentile(lo), coll.percentile(hi)),
                    'sig': dict(sig, fail='percentile-monotone')}
        if (coll.min, coll.max) != (min(vals), max(vals)) or coll.bounds != (min(vals), max(vals)):
            return {'required': 'min/max/bounds', 'observed': coll.bounds, 'sig': dict(sig, fail='minmax')}
        fr = [Fraction(v) for v in vals]
        if abs(float(sum(fr)) - coll.total) > tol(coll.total) or \
                abs(float(sum(fr) / len(fr)) - coll.average) > tol(coll.average):
            return {'required': 'total/average', 'observed': (coll.total, coll.average), 'sig': dict(sig, fail='total-average')}
        for meth, rev in (('highest_values', True), ('lowest_values', False)):
            v, ix = getattr(coll, meth)(cnt)
            if list(v) != sorted(vals, reverse=rev)[:cnt]:
                return {'required': 'first %d of the sort' % cnt, 'observed': list(v)[:20],
                        'sig': dict(sig, fail=meth + '-values')}
            if len(ix) != cnt or len(set(ix)) != cnt or any(vals[i] != x for i, x in zip(ix, v)):
                return {'required': 'vals[idx[i]] == values[i], indices distinct', 'observed': list(ix)[:20],
                        'sig': dict(sig, fail=meth + '-indices')}
        return None
    raise ValueError('unknown op ' + op)


replay = check_case


ORACLE_CORPUS = [
    ('partition', {'coll': 'cont', 'by': 'month', 't': [1, 30, 0, 3, 2, 23, 1, False]}),
    ('partition', {'coll': 'cont', 'by': 'day', 't': [12, 26, 0, 1, 3, 23, 1, False]}),
    ('partition', {'coll': 'cont', 'by': 'month', 't': [1, 20, 0, 1, 10, 23, 1, False]}),
    ('partition', {'coll': 'cont', 'by': 'day', 't': [12, 30, 0, 1, 2, 23, 2, True]}),
    ('partition', {'coll': 'disc', 'by': 'day', 't': [12, 30, 0, 12, 31, 23, 1, True], 'dleap': True,
                   'moys': [525600, 525660, 527040 - 60]}),
    ('cont_vs_disc', {'t': [12, 30, 0, 12, 31, 23, 1, True]}),
    ('cont_vs_disc', {'t': [1, 30, 0, 3, 2, 23, 1, False]}),
    ('cont_vs_disc', {'t': [12, 26, 0, 1, 3, 23, 1, False]}),
    ('stats_of_groups', {'coll': 'cont', 'iv': 'monthly', 'stat': 'average', 'p': 0, 't': [1, 30, 0, 3, 2, 23, 1, False]}),
    ('stats_of_groups', {'coll': 'cont', 'iv': 'daily', 'stat': 'total', 'p': 0, 't': [12, 26, 0, 1, 3, 23, 1, False]}),
    ('daily_month', {'leap': True, 'doys': [59, 60, 61, 335, 336, 366]}),
    ('daily_month', {'leap': False, 'doys': [59, 60, 61, 334, 335, 365]}),
    ('order_stats', {'vals': [4.0, 1.0, 2.0, 3.0], 'p': 25, 'p2': 60, 'count': 2}),
    ('order_stats', {'vals': [2.0, 2.0, 1.0, 2.0, 1.0], 'p': 50, 'p2': 50, 'count': 5}),
]


def _oracle_cases(ctx):
    rng = ctx.rng
    big = ctx.searching or not ctx.quick
    for c in ORACLE_CORPUS:
        yield c
    # continuous collections: whole-day periods of every shape
    nper = 500 if big else 56
    for i in range(nper):
        t = _gen_fullday(rng, 12000 if i % 7 else 40000)
        for by in ('day', 'month', 'mph'):
            if by == 'mph' and t[6] > 6 and rng.random() < 0.8:
                continue
            yield 'partition', {'coll': 'cont', 'by': by, 't': list(t)}
        if i % 3 == 0 and len(ref_moys(t)) <= 12000 and t[6] <= 12:
            yield 'cont_vs_disc', {'t': list(t)}
        if t[6] <= 12:
            iv = rng.choice(['daily', 'monthly', 'monthlyperhour'])
            stat = rng.choice(['average', 'total', 'percentile'])
            p, _ = _gen_p(rng)
            _, vals = _gen_values(rng, len(ref_moys(t)))
            yield 'stats_of_groups', {'coll': 'cont', 'iv': iv, 'stat': stat, 'p': p, 't': list(t), 'vals': vals}
    # discontinuous collections
    for _ in range(600 if big else 72):
        t, dleap, moys, tag = _gen_disc(rng, 1500)
        if tag == 'other-leap':
            continue                         # header and datetimes disagree on the year: not a collection of the statement
        if tag == 'off-grid':
            bys = ('day', 'month')
        else:
            bys = ('day', 'month', 'mph')
        for by in bys:
            if by == 'mph' and t[6] > 12:
                continue
            yield 'partition', {'coll': 'disc', 'by': by, 't': list(t), 'dleap': dleap, 'moys': moys}
        if tag in ('full', 'holes'):
            iv = rng.choice(['daily', 'monthly', 'monthlyperhour'] if t[6] <= 12 else ['daily', 'monthly'])
            stat = rng.choice(['average', 'total', 'percentile'])
            p, _ = _gen_p(rng)
            _, vals = _gen_values(rng, len(moys))
            yield 'stats_of_groups', {'coll': 'disc', 'iv': iv, 'stat': stat, 'p': p, 't': list(t), 'dleap': dleap,
                                      'moys': moys, 'vals': vals}
    for _ in range(300 if big else 40):
        leap = rng.random() < 0.5
        n = 366 if leap else 365
        doys = sorted(rng.sample(range(1, n + 1), rng.choice([1, 3, 30, 200, n])))
        if rng.random() < 0.3:
            doys += [n] if n not in doys else []
        yield 'daily_month', {'leap': leap, 'doys': doys}
    for _ in range(20000 if big else 1000):
        n = rng.choice([1, 2, 3, 4, 5, 8, 9, 24, 25, rng.randrange(1, 200)])
        _, vals = _gen_values(rng, n)
        p, _ = _gen_p(rng)
        p2, _ = _gen_p(rng)
        yield 'order_stats', {'vals': vals, 'p': p, 'p2': p2, 'count': rng.randrange(1, n + 1)}


def oracle(ctx):
    run_oracle_cases(ctx, _oracle_cases(ctx), check_case)


LEVEL_TEXT = ('Machine-checked Lean 4 theorems (27) over an executable, value-polymorphic model of the grouping code: '
              'the datetime-keyed groups by day, month and month-per-hour (all 12 timesteps; key list proved '
              'duplicate-free and complete for grid date-times) hold at each key exactly the values whose own datetime '
              'has that key, in collection order, and their concatenation is a permutation of the data (nothing lost, '
              'duplicated or borrowed); a datetime without key (off-grid step, day 366 under a normal-year header) raises '
              'KeyError; the slice arithmetic of the continuous group_by_day AND group_by_month equals the keyed grouping '
              'for EVERY whole-day period (annual, partial, year-wrapping, wrapping inside one month; 12 timesteps; leap) '
              '- proved on top of the C04/C08 theorems and a calendar lemma from a finite check of the month table; '
              'average_/total_/percentile_ daily|monthly|monthly_per_hour of discontinuous and of continuous collections '
              'are, end to end, that statistic of exactly the values of each listed day/month/month-hour-minute, in '
              'listing order with empty groups skipped, and no day with data is skipped; percentile = textbook linear '
              'interpolation between order statistics with p=0 -> min, p=100 -> max, p=50 -> median, min <= percentile '
              '<= max, monotone in p; highest/lowest values = first count of the sort with distinct consistent indices '
              'and stable order of ties; daily collections are grouped by the calendar month of their day (all 365+366 '
              'days). The model is compared with the real classes on structure-directed inputs on every run; an '
              'independent oracle regroups every value by its stdlib datetime.')
LEVEL_NOTE = ('Trusted: Lean kernel; axioms propext/Classical.choice/Quot.sound only; the correspondence run '
              '(agreement on generated inputs only); the AP and Cal models (C04, C08); Python sorted()/OrderedDict '
              'modelled by List.mergeSort / association lists; float arithmetic of the statistics not proved.')
TECHNIQUE = ('Lean 4 proof (list induction over a polymorphic dictionary model, slice arithmetic with omega, '
             'linear arithmetic over Rat for order statistics) about a model tied to datacollection.py by '
             'differential correspondence')
