"""C09 — Humidity metrics describe one consistent state of moist air.

Model: lean/Ladybug/Model/Psychro.lean (generic over Transc; Float executed by drv_c09, R proved about);
theorems: lean/Ladybug/Props/C09.lean; helper lemmas: lean/Ladybug/Proofs/C09Lemmas.lean.
Tie: translator (T) — tools/extract/psychro_formulas.py regenerates Gen/PsychroFormulas.lean from the Python source on
every run and Proofs/C09Gen.lean proves every generated definition equal to the model definition (16 whole functions,
14 solver pieces, 4 user formulas); plus correspondence (C) — the Float instantiation of every function of psychrometrics.py and of the
design-day / psych-chart users is compared with the real functions (tolerance 1e-12 relative for closed
forms, 1e-9 for the iterative solvers; same libm, so in practice bit-exact).

Partial by nature (DESIGN.md section 9): everything that needs certified numerics of exp/log (solver
outputs, Magnus closeness, continuity at 0 C, monotonicity across the branch point) is a *sampled
sub-claim* evaluated by the oracle on the real code and reported under `sampled_subclaims`.
"""
import math
import struct

from harness import core

PROP = 'C09'
PROOF_MODULES = ['Ladybug.Props.C09', 'Ladybug.Proofs.C09Gen']
GREP_MODULES = ['Ladybug.Transc', 'Ladybug.RealInst', 'Ladybug.Model.Psychro', 'Ladybug.Proofs.C09Lemmas',
                'Ladybug.Gen.PsychroFormulas',
                'Ladybug.Drv.C09', 'Ladybug.DrvCore']
RULE = ('correspondence: every function of psychrometrics.py + HumidityCondition.dew_point/hourly profile + '
        'chart plot_point/data_points on states db x rh x pressure (x reference temperature), boundary-biased '
        '(both sides of 0 C to 1 ulp, rh 0/100, wet bulb around 0 C, pressure limits) plus ~10 % out-of-range '
        'inputs (negative/over-100 rh, p_w > P, T < 0 K, inf/nan); a case is non-trivial when the implementation '
        'returns a finite value; distinct = distinct (op, argument bits). oracle: the relations of the statement '
        'evaluated on the real functions only')
EXTRACTORS = 'tools/extract/psychro_formulas.py'
TRUSTED_BASE = [
    'translator tools/extract/pyexpr2lean.py + psychro_formulas.py (Python ast -> Lean for straight-line numeric '
    'code): that the emitted Lean expression denotes the Python expression (operator order, literals copied with '
    'their decimal text, `a > b` as `b < a`, min(a, b) as `if b < a then b else a`, ints as exact floats); every '
    'generated definition is proved equal to the model definition (C09_gen_eq_*), and the model is executed '
    'against the real functions in the correspondence step, so a translator error shows up as a disagreement',
    'hand-modelled, correspondence only (loops / try are outside the translated subset): the control structure of '
    'dew_point_from_db_rh (try/except + Newton while loop), wet_bulb_from_db_rh (bisection while loop), '
    'dew_point_from_db_rh_fast (try/except), wet_bulb_from_db_rh_fast (while loop with integer sign bookkeeping), '
    'HumidityCondition.dew_point / hourly_dew_point_values, PsychrometricChart.plot_point / data_points; their '
    'straight-line pieces (prefix, loop body, loop / break tests, iteration limits, final expression) ARE translated',
    'IEEE-754/libm evaluation vs the real-number semantics of the theorems is not proved; the Float '
    'instantiation of the same polymorphic definitions is compared with CPython (same libm) on every run',
    'Python exceptions of the formulas (division by t_kelvin = 0, math.log of a non-positive number, overflow) '
    'are not modelled: model and code are compared as "finite value or not"; exact singular inputs '
    '(t_kelvin == 0, p == p_w) are excluded from the correspondence stream',
    'sampled sub-claims (solver inversions, ordering dpt <= wb <= db on floats, monotonicity of svp across '
    '0 C, continuity at 0 C, Magnus 0.6 %, design-day and chart relations) are tests on generated inputs, '
    'not theorems',
    'DryBulbCondition.hourly_values (C16) and the Temperature unit conversion (C06) are taken from the real '
    'code as inputs of the design-day / chart ops',
]
ASSUMPTIONS = ['meteorological range: dry bulb -40..55 C, rh 0..100 %, pressure 60..105 kPa',
               'independent Magnus-type reference: Alduchov-Eskridge 1996 over water, over ice (WMO form)']
LEVEL_TEXT = ('Lean 4 theorems over R about one polymorphic model of psychrometrics.py, proved equal (C09_gen_eq_*, '
              'for every numeric type) to the definitions a translator regenerates from the source on every run: saturation '
              'pressure positive and strictly increasing on each branch, _d_ln_p_ws is the derivative of '
              'log(saturated_vapor_pressure) on each branch, humidity ratio <-> rh inverse up to the proved '
              '7.4e-5 constant mismatch, enthalpy <-> dry bulb / rh exact inverses, humidity ratio and enthalpy '
              'strictly increasing in humidity, dew point <= wet bulb <= dry bulb for every input with equality '
              'at rh = 100 (Newton clamp + bisection bracket), bracket width on exit, design-day cap and chart '
              'coordinate laws. The same definitions, instantiated at Float, are compared with the real code on '
              'every run. Numerical closeness claims are sampled (partial).')
LEVEL_NOTE = ('partial: solver accuracy, monotonicity of dew point / wet bulb in rh, svp monotone across 273.15 K, '
              'continuity at 0 C and Magnus closeness are sampled sub-claims; float-vs-real gap trusted')
TECHNIQUE = ('Lean 4 proof over R (HasDerivAt, field_simp/nlinarith, induction on the bisection fuel) about a '
             'generic numeric model that is proved equal (rfl) to definitions regenerated from the Python source '
             'on every run, executed at Float and compared with the code')

SOLVER_TOL = 0.1            # "0.1 is degree C tolerance" in both solvers
HR_RH_BOUND = 7.4e-5        # theorem C09_hr_rh_inverse
MAGNUS_TOL = 0.006
JUMP_TOL = 2e-4             # relative step of svp at 273.15 K allowed as "continuous" (3 % of the Magnus band)
ANTOINE_TOL = 0.15          # db_temp_from_rh_hr has no stated tolerance; 0.15 C is what it achieves above 0 C


# ---------------------------------------------------------------------------------------------
# float plumbing


def extract(ctx):
    from tools.extract import psychro_formulas
    ctx.psychro_gen = psychro_formulas.extract()


def _fbits(x):
    return '%016x' % struct.unpack('<Q', struct.pack('<d', float(x)))[0]


def _fromb(s):
    return struct.unpack('<d', struct.pack('<Q', int(s, 16)))[0]


def _finite(x):
    return isinstance(x, (int, float)) and math.isfinite(x)


def _impl_vals(fn):
    """Run the real code; None when it raises or returns a non-finite number."""
    try:
        r = fn()
    except ZeroDivisionError:
        return 'zero'
    except Exception:
        return None
    if isinstance(r, (int, float)):
        r = [r]
    r = [float(v) for v in r]
    return r if all(math.isfinite(v) for v in r) else None


def _model_vals(line):
    if line == 'nonfinite':
        return None
    if not line.startswith('ok '):
        return line                       # bad-op / nofuel: always a disagreement
    return [_fromb(t) for t in line.split()[1:]]


def _close(a, b, tol):
    return a == b or abs(a - b) <= tol * max(abs(a), abs(b)) + 1e-15


def _compare(ctx, op, cases, line_of, impl_of, tol):
    outs = ctx.driver().run([line_of(c) for c in cases])
    for c, o in zip(cases, outs):
        mv = _model_vals(o)
        iv = _impl_vals(lambda: impl_of(c))
        if iv == 'zero':
            # the code divides by exactly zero (t_kelvin == 0, rh == 0 as a divisor, ...): IEEE gives +-inf there,
            # which later operations may turn into a finite number again, so such inputs are not compared
            ctx.count('skipped_zero_division')
            continue
        ctx.compared += 1
        ctx.count('op:' + op)
        ctx.case((op, line_of(c)), nontrivial=iv is not None)
        if iv is None:
            ctx.count('nonfinite_or_raise')
        ok = (mv is None and iv is None) or (
            isinstance(mv, list) and isinstance(iv, list) and len(mv) == len(iv)
            and all(_close(a, b, tol) for a, b in zip(mv, iv)))
        if ok and isinstance(mv, list) and mv == iv:
            ctx.count('bit_exact')
        if not ok:
            ctx.disagree(op, {'args': [repr(x) for x in c] if isinstance(c, (list, tuple)) else repr(c),
                              'line': line_of(c)}, o, repr(iv))
    if cases:
        ctx.sample({'op': op, 'request': line_of(cases[0]), 'model': outs[0]})


# ---------------------------------------------------------------------------------------------
# generators (plain numbers only)

_ULP = math.ulp(273.15)
DB_EDGE = [-40.0, -39.999, -20.0, -1.0, -0.1, -1e-6, -1e-9, -1e-13, -0.0, 0.0, 1e-13, 1e-9, 1e-6, 0.01, 0.1, 1.0,
           20.0, 30.0, 54.999, 55.0]
RH_EDGE = [0.0, 1e-9, 0.01, 0.5, 1.0, 5.0, 50.0, 95.0, 99.0, 99.999, 100.0]
P_EDGE = [60000.0, 70000.0, 90000.0, 101325.0, 105000.0]
REF_EDGE = [0.0, -17.78, -273.15, 10.0]


def _db(rng):
    r = rng.random()
    if r < 0.25:
        return rng.choice(DB_EDGE)
    if r < 0.40:
        return rng.uniform(-2.0, 2.0)          # around the ice/water switch
    if r < 0.45:
        return float(rng.randrange(-40, 56))
    return rng.uniform(-40.0, 55.0)


def _rh_met(rng):
    """rh for the oracle: 0 exactly or >= 0.01 % (below ~1e-4 % the Newton dew point overshoots 0 K and
    math.log raises; such values are not meteorological and are left to the correspondence stream)."""
    r = _rh(rng)
    return r if r == 0.0 or r >= 0.01 else 0.01


def _rh(rng):
    r = rng.random()
    if r < 0.25:
        return rng.choice(RH_EDGE)
    if r < 0.35:
        return rng.uniform(95.0, 100.0)
    if r < 0.45:
        return rng.uniform(0.0, 5.0)
    return rng.uniform(0.0, 100.0)


def _p(rng):
    return rng.choice(P_EDGE) if rng.random() < 0.3 else rng.uniform(60000.0, 105000.0)


def _ref(rng):
    return rng.choice(REF_EDGE) if rng.random() < 0.7 else rng.uniform(-30.0, 30.0)


def _bad(rng):
    """One out-of-range number (never the exact singular points t_kelvin == 0)."""
    return rng.choice([-1.0, -50.0, 150.0, 1000.0, 1e6, -300.0, -1000.0, 1e300, -1e300,
                       float('inf'), float('-inf'), float('nan'), 5e-324, 0.0, 1e-300])


def _state(rng, malformed):
    db, rh, p = _db(rng), _rh(rng), _p(rng)
    if malformed:
        k = rng.randrange(3)
        if k == 0:
            db = _bad(rng)
        elif k == 1:
            rh = _bad(rng)
        else:
            p = _bad(rng)
        if db == -273.15:
            db = -273.0
    return db, rh, p


def _branch_counts(ctx, db, rh):
    ctx.count('db<0' if db < 0 else ('db==0' if db == 0 else 'db>0'))
    ctx.count('rh==0' if rh == 0 else ('rh==100' if rh == 100 else 'rh_mid'))


def correspondence(ctx):
    from ladybug import psychrometrics as ps
    rng = ctx.rng
    n = ctx.n(2500, 60000)
    states = []
    for _ in range(n):
        mal = rng.random() < 0.10
        s = _state(rng, mal)
        states.append(s)
        ctx.count('malformed' if mal else 'in_range')
        if not mal:
            _branch_counts(ctx, s[0], s[1])
    # grid of boundary states
    for db in DB_EDGE:
        for rh in RH_EDGE:
            states.append((db, rh, rng.choice(P_EDGE)))
    tol, stol = 1e-12, 1e-9

    def L(op):
        return lambda c: op + ' ' + ' '.join(_fbits(x) for x in c)

    # saturation pressure and derivative: both sides of 273.15 K / 0 C to the ulp
    tk = [273.15 + k * _ULP for k in range(-3, 4)] + [233.15, 328.15, 173.15, 473.15, 1.0, 1e-3, 5000.0, 1e4, -5.0,
                                                        float('nan'), float('inf')]
    tk += [s[0] + 273.15 for s in states]
    _compare(ctx, 'svp', [(t,) for t in tk], L('svp'), lambda c: ps.saturated_vapor_pressure(c[0]), tol)
    dbs = [s[0] for s in states] + [k * 1e-17 for k in range(-3, 4)] + [5e-324, -5e-324]
    _compare(ctx, 'dlnpws', [(d,) for d in dbs], L('dlnpws'), lambda c: ps._d_ln_p_ws(c[0]), tol)

    # closed forms
    _compare(ctx, 'hr_db_rh', states, L('hr_db_rh'), lambda c: ps.humid_ratio_from_db_rh(*c), tol)
    hr_cases, enth_cases, wb_cases, dpt_cases = [], [], [], []
    for db, rh, p in states:
        mal = rng.random() < 0.08
        hr = _bad(rng) if mal else rng.choice([0.0, 1e-6, 0.001, 0.01, 0.03, rng.uniform(0, 0.03), rng.uniform(0, 0.03)])
        ref = _ref(rng)
        hr_cases.append((db, hr, p))
        enth_cases.append((db, hr, ref))
        depress = rng.choice([0.0, 1e-9, 0.05, 0.1, rng.uniform(0, 3), rng.uniform(0, 15)])
        wb = db - depress
        if rng.random() < 0.15:
            wb = rng.choice([-0.0, 0.0, 1e-12, -1e-12, 0.05, -0.05])   # the `wb_temp >= 0` switch
        wb_cases.append((db, wb, p))
        dpt_cases.append((db, db - rng.choice([0.0, 0.1, rng.uniform(0, 30), rng.uniform(0, 5)])))
        ctx.count('wb<0' if wb < 0 else 'wb>=0')
    _compare(ctx, 'enth', enth_cases, L('enth'), lambda c: ps.enthalpy_from_db_hr(*c), tol)
    _compare(ctx, 'rh_db_hr', hr_cases, L('rh_db_hr'), lambda c: ps.rel_humid_from_db_hr(*c), tol)
    e_cases = [(db, rng.choice([0.0, rng.uniform(-10, 150), rng.uniform(0, 100)]), p, _ref(rng)) for db, _, p in states]
    _compare(ctx, 'rh_db_enth', e_cases, L('rh_db_enth'), lambda c: ps.rel_humid_from_db_enth(*c), tol)
    _compare(ctx, 'rh_db_dpt', dpt_cases, L('rh_db_dpt'), lambda c: ps.rel_humid_from_db_dpt(*c), tol)
    _compare(ctx, 'rh_db_wb', wb_cases, L('rh_db_wb'), lambda c: ps.rel_humid_from_db_wb(*c), tol)
    _compare(ctx, 'hr_db_wb', wb_cases, L('hr_db_wb'), lambda c: ps.humid_ratio_from_db_wb(*c), tol)
    eh = [(c[1], h[1], c[3]) for c, h in zip(e_cases, hr_cases)]
    _compare(ctx, 'db_enth_hr', eh, L('db_enth_hr'), lambda c: ps.db_temp_from_enth_hr(*c), tol)
    rhhr = [(s[1], h[1], s[2]) for s, h in zip(states, hr_cases)
            if 1e-12 <= h[1] and 0 < s[1] < 1e300 and 1.0 <= s[2] < 1e300]   # exact singular points: see TRUSTED_BASE
    _compare(ctx, 'db_rh_hr', rhhr, L('db_rh_hr'), lambda c: ps.db_temp_from_rh_hr(*c), tol)
    _compare(ctx, 'db_hr_wb_rh', states, L('db_hr_wb_rh'), lambda c: ps.db_temp_and_hr_from_wb_rh(*c), tol)

    # iterative solvers
    _compare(ctx, 'dpt_db_rh', [(s[0], s[1]) for s in states], L('dpt_db_rh'),
             lambda c: ps.dew_point_from_db_rh(*c), stol)
    _compare(ctx, 'wb_db_rh', states, L('wb_db_rh'), lambda c: ps.wet_bulb_from_db_rh(*c), stol)
    _compare(ctx, 'wb_db_hr', hr_cases, L('wb_db_hr'), lambda c: ps.wet_bulb_from_db_hr(*c), stol)
    _compare(ctx, 'dpt_db_hr', hr_cases, L('dpt_db_hr'), lambda c: ps.dew_point_from_db_hr(*c), stol)
    _compare(ctx, 'dpt_db_enth', e_cases, L('dpt_db_enth'), lambda c: ps.dew_point_from_db_enth(*c), stol)
    _compare(ctx, 'dpt_db_wb', wb_cases, L('dpt_db_wb'), lambda c: ps.dew_point_from_db_wb(*c), stol)
    # the "fast" formulas only on finite in-range inputs (the fast wet bulb has no iteration limit)
    fast = [s for s in states if all(map(math.isfinite, s)) and -60 <= s[0] <= 80 and 0 <= s[1] <= 100
            and 5e4 <= s[2] <= 1.1e5][:ctx.n(800, 8000)]
    _compare(ctx, 'dpt_fast', [(s[0], s[1]) for s in fast], L('dpt_fast'),
             lambda c: ps.dew_point_from_db_rh_fast(*c), tol)
    _compare(ctx, 'wb_fast', fast, L('wb_fast'), lambda c: ps.wet_bulb_from_db_rh_fast(*c), stol)

    _corr_designday(ctx)
    _corr_chart(ctx)


class _DbStub(object):
    """Stands in for DryBulbCondition: only the two attributes hourly_dew_point_values reads."""

    def __init__(self, hourly):
        self.hourly_values = list(hourly)
        self.dry_bulb_max = max(hourly)


def _dd_case(rng):
    """Design-day humidity inputs that describe a possible state (0 < rh at the maximum dry bulb), built from the
    independent Magnus formula; ~10 % lie above saturation (the profile is then capped all day)."""
    ty = rng.choice(['Dewpoint', 'Wetbulb', 'HumidityRatio', 'Enthalpy'])
    db_max = rng.choice([rng.uniform(-35, 50), rng.uniform(-2, 2), rng.uniform(20, 45)])
    rng_c = rng.choice([0.0, rng.uniform(0, 15), rng.uniform(0, 5)])
    hourly = [db_max - rng_c * rng.random() for _ in range(24)]
    hourly[rng.randrange(24)] = db_max
    p = _p(rng)
    pws = magnus(db_max)
    frac = rng.choice([rng.uniform(0.05, 1.0), rng.uniform(0.5, 1.0), 1.05]) if rng.random() < 0.9 else 1.0
    w = 0.622 * pws * frac / (p - pws * frac)
    if ty == 'Dewpoint':
        v = db_max - rng.choice([0.0, rng.uniform(0, rng_c + 1), rng.uniform(0, 25), -2.0])
    elif ty == 'Wetbulb':
        v = db_max - rng.uniform(0, 1.0) * (0.3 if db_max < -10 else (1.5 if db_max < 10 else 6.0)) * (1 - frac / 1.05)
    elif ty == 'HumidityRatio':
        v = w
    else:
        v = 1000.0 * (1.006 * db_max + w * (2501.0 + 1.86 * db_max))
    return ty, v, p, hourly


def _dd_object_case(rng, ty=None, humid=None, large=None):
    """Inputs of a real DesignDay: humidity type x humid/dry x large/small daily range x pressure.
    humid = the dew point at the maximum dry bulb lies above the night-time minimum when the range is large
    (so the profile is saturation-clamped for part of the day).  Values from the independent Magnus formula."""
    ty = ty or rng.choice(['Dewpoint', 'Wetbulb', 'HumidityRatio', 'Enthalpy'])
    humid = (rng.random() < 0.5) if humid is None else humid
    large = (rng.random() < 0.5) if large is None else large
    db_max = rng.choice([rng.uniform(20, 45), rng.uniform(-5, 20), rng.uniform(-30, -5), 32.0])
    db_range = rng.uniform(8, 16) if large else rng.choice([0.0, rng.uniform(0, 3)])
    p = _p(rng)
    # target dew-point depression below the maximum dry bulb
    dep = rng.uniform(0.5, 6.0) if humid else rng.uniform(12.0, 25.0)
    dpt = db_max - dep
    pw = magnus(dpt)
    w = 0.622 * pw / (p - pw)
    if ty == 'Dewpoint':
        v = dpt
    elif ty == 'Wetbulb':
        # wet bulb with the target vapour pressure from the psychrometer relation (Magnus, independent of the code)
        a, b = db_max - 60.0, db_max
        for _ in range(50):
            m = (a + b) / 2.0
            if magnus(m) - p * 6.6e-4 * (db_max - m) > pw:
                b = m
            else:
                a = m
        v = b
    elif ty == 'HumidityRatio':
        v = w
    else:
        v = 1000.0 * (1.006 * db_max + w * (2501.0 + 1.86 * db_max))
    return {'type': ty, 'value': v, 'p': p, 'db_max': db_max, 'db_range': db_range}


def _make_designday(inp):
    from ladybug.designday import DesignDay
    from ladybug.location import Location
    from ladybug.dt import Date
    loc = Location('c09', '-', '-', 40.0, -75.0, -5.0, 10.0)
    return DesignDay.from_design_day_properties(
        'd', 'SummerDesignDay', loc, Date(7, 21), inp['db_max'], inp['db_range'], inp['type'], inp['value'],
        inp['p'], 2.0, 180.0, 'ASHRAEClearSky', [1.0])


def _corr_designday(ctx):
    from ladybug.designday import HumidityCondition
    rng = ctx.rng
    cases = [_dd_case(rng) for _ in range(ctx.n(300, 5000))]
    for c in cases:
        ctx.count('dd:' + c[0])

    def line(c):
        ty, v, p, hourly = c
        return 'dd_hourly %s %s' % (ty, ' '.join(_fbits(x) for x in [v, p, max(hourly)] + hourly))

    def impl(c):
        ty, v, p, hourly = c
        from ladybug.psychrometrics import rel_humid_from_db_dpt
        hc = HumidityCondition(ty, v, p)
        stub = _DbStub(hourly)
        dpt = hc.hourly_dew_point_values(stub)
        rh = [rel_humid_from_db_dpt(x, y) for x, y in zip(hourly, dpt)]     # DesignDay.hourly_relative_humidity
        return [hc.dew_point(stub.dry_bulb_max)] + list(dpt) + rh

    _compare(ctx, 'dd_hourly', cases, line, impl, 1e-9)

    # the full DesignDay object (dry-bulb profile produced by the real DryBulbCondition)
    from ladybug.designday import DesignDay
    from ladybug.location import Location
    from ladybug.dt import Date
    full = []
    for _ in range(ctx.n(60, 1000)):
        ty, v, p, hourly = _dd_case(rng)
        full.append((ty, v, p, max(hourly), max(hourly) - min(hourly)))
    loc = Location('c09', '-', '-', 40.0, -75.0, -5.0, 10.0)
    built = []
    for ty, v, p, dbm, dbr in full:
        dd = DesignDay.from_design_day_properties('d', 'SummerDesignDay', loc, Date(7, 21), dbm, dbr, ty, v, p,
                                                  2.0, 180.0, 'ASHRAEClearSky', [1.0])
        built.append(((ty, v, p, list(dd.hourly_dry_bulb.values), dbm), dd))

    def line2(c):
        ty, v, p, hourly, dbm = c[0]
        return 'dd_hourly %s %s' % (ty, ' '.join(_fbits(x) for x in [v, p, dbm] + hourly))

    def impl2(c):
        dd = c[1]
        return ([dd.humidity_condition.dew_point(dd.dry_bulb_condition.dry_bulb_max)]
                + list(dd.hourly_dew_point.values) + list(dd.hourly_relative_humidity.values))

    _compare(ctx, 'dd_object', built, line2, impl2, 1e-9)


def _chart_params(rng):
    use_ip = rng.random() < 0.4
    bx, by = rng.choice([(0.0, 0.0), (100.0, 100.0), (rng.uniform(-50, 50), rng.uniform(-50, 50))])
    xd = rng.choice([1.0, 2.0, rng.uniform(0.5, 3)])
    yd = rng.choice([1500.0, 1000.0, rng.uniform(500, 3000)])
    if use_ip:
        tmin, tmax = rng.choice([(-5, 115), (20, 100), (rng.randrange(-20, 30), rng.randrange(60, 120))])
    else:
        tmin, tmax = rng.choice([(-20, 50), (-40, 55), (0, 40), (rng.randrange(-40, 0), rng.randrange(15, 56))])
    p = _p(rng)
    return use_ip, bx, by, xd, yd, tmin, tmax, p


def _make_chart(par, tvals, rhvals):
    from ladybug.psychchart import PsychrometricChart
    from ladybug.datacollection import HourlyContinuousCollection
    from ladybug.header import Header
    from ladybug.analysisperiod import AnalysisPeriod
    from ladybug.datatype.temperature import DryBulbTemperature
    from ladybug.datatype.fraction import RelativeHumidity
    from ladybug_geometry.geometry2d.pointvector import Point2D
    use_ip, bx, by, xd, yd, tmin, tmax, p = par
    ap = AnalysisPeriod(1, 1, 0, 1, 1, 23)
    t = HourlyContinuousCollection(Header(DryBulbTemperature(), 'C', ap), list(tvals))
    r = HourlyContinuousCollection(Header(RelativeHumidity(), '%', ap), list(rhvals))
    return PsychrometricChart(t, r, p, None, Point2D(bx, by), xd, yd, tmin, tmax, 0.03, use_ip)


def _chart_data(rng, par):
    use_ip, tmin, tmax = par[0], par[5], par[6]
    lo, hi = ((tmin - 32) / 1.8, (tmax - 32) / 1.8) if use_ip else (tmin, tmax)
    lo, hi = max(lo, -40.0), min(hi, 55.0)
    tv = [rng.uniform(lo, hi) for _ in range(24)]
    tv[0] = (lo + hi) / 2.0
    rv = [_rh(rng) for _ in range(24)]
    return tv, rv


def _corr_chart(ctx):
    rng = ctx.rng
    pts, dpts = [], []
    for _ in range(ctx.n(25, 300)):
        par = _chart_params(rng)
        tv, rv = _chart_data(rng, par)
        ch = _make_chart(par, tv, rv)
        use_ip, bx, by, xd, yd, tmin, tmax, p = par
        head = [bx, by, xd, yd, float(tmin), p]
        ctx.count('chart:ip' if use_ip else 'chart:si')
        for i in range(24):
            dpts.append((use_ip, head, tv[i], rv[i], ch, i))
        for _ in range(12):
            t = rng.uniform(tmin - 5, tmax + 5)
            pts.append((use_ip, head, t, _rh(rng), ch))

    def line(op):
        return lambda c: '%s %s %s' % (op, '1' if c[0] else '0', ' '.join(_fbits(x) for x in c[1] + [c[2], c[3]]))

    def impl_plot(c):
        q = c[4].plot_point(c[2], c[3])
        return [q.x, q.y]

    def impl_data(c):
        q = c[4].data_points[c[5]]
        return [q.x, q.y]

    _compare(ctx, 'plot', pts, line('plot'), impl_plot, 1e-12)
    _compare(ctx, 'datapt', dpts, line('datapt'), impl_data, 1e-12)


# ---------------------------------------------------------------------------------------------
# property oracle: the statement of C09 evaluated on the real functions, independent of the model


def magnus(t_c):
    """Independent Magnus-type saturation pressure (Pa): Alduchov & Eskridge (1996) over water,
    the WMO/Sonntag form over ice."""
    if t_c > 0:
        return 610.94 * math.exp(17.625 * t_c / (243.04 + t_c))
    return 611.21 * math.exp(22.587 * t_c / (273.86 + t_c))


def reference_svp(t_k):
    """Hyland-Wexler saturation pressure as printed in ASHRAE Fundamentals 2017 ch.1 eq. 5 and 6,
    transcribed independently of the code.  Used only by the failing-input search after a tie broke."""
    c = ((-5.6745359e3, 6.3925247, -9.677843e-3, 6.2215701e-7, 2.0747825e-9, -9.484024e-13, 4.1635019)
         if t_k <= 273.15 else
         (-5.8002206e3, 1.3914993, -4.8640239e-2, 4.1764768e-5, -1.4452093e-8, 0.0, 6.5459673))
    return math.exp(c[0] / t_k + c[1] + c[2] * t_k + c[3] * t_k ** 2 + c[4] * t_k ** 3 + c[5] * t_k ** 4
                    + c[6] * math.log(t_k))


def _fail(required, observed, **sig):
    return {'required': required, 'observed': observed, 'sig': sig}


_SUB = []      # (name, ok) pairs of the case being evaluated, flushed into ctx.subclaim by oracle()


def _sub(name, ok):
    _SUB.append((name, bool(ok)))
    return ok


def _bucket(x, edges):
    for e in edges:
        if x <= e:
            return 'le_%g' % e
    return 'gt_%g' % edges[-1]


def check_case(op, inp):
    from ladybug import psychrometrics as ps
    svp = ps.saturated_vapor_pressure

    if op == 'state':
        db, rh, p = inp['db'], inp['rh'], inp['p']
        ref = inp.get('ref', 0.0)
        side = 'ice' if db <= 0 else 'water'
        hr = ps.humid_ratio_from_db_rh(db, rh, p)
        # humidity ratio -> rh (theorem C09_hr_rh_inverse gives the bound)
        back = ps.rel_humid_from_db_hr(db, hr, p)
        if not _sub('hr_rh_inverse', rh * (1 - HR_RH_BOUND) - 1e-9 <= back <= rh * (1 + 1e-12) + 1e-12):
            return _fail('rh*(1 - 7.4e-5) <= rel_humid_from_db_hr(humid_ratio_from_db_rh(rh)) <= rh (theorem C09_hr_rh_inverse)', back,
                         clause='hr_rh_inverse', side=side)
        # enthalpy -> dry bulb and -> rh (exact inverses where enthalpy is not clamped)
        en = ps.enthalpy_from_db_hr(db, hr, ref)
        if en > 0:
            t_back = ps.db_temp_from_enth_hr(en, hr, ref)
            if not _sub('enthalpy_db_inverse', abs(t_back - db) <= 1e-9 * max(1.0, abs(db), abs(ref))):
                return _fail('db_temp_from_enth_hr(enthalpy_from_db_hr) = db', t_back, clause='enthalpy_db_inverse')
            rh_e = ps.rel_humid_from_db_enth(db, en, p, ref)
            if not _sub('enthalpy_rh_inverse', abs(rh_e - back) <= 1e-7 * max(1.0, back)):
                return _fail('rel_humid_from_db_enth(enthalpy) = %r' % back, rh_e, clause='enthalpy_rh_inverse')
        # dew point: Newton result within the stated 0.1 C of the exact inverse of rel_humid_from_db_dpt
        dpt = ps.dew_point_from_db_rh(db, rh)
        if rh == 0:
            if not _sub('dew_point_rh0', dpt == -273.15):
                return _fail('-273.15 at rh = 0', dpt, clause='dew_point_rh0')
            try:
                rb = ps.rel_humid_from_db_dpt(db, dpt)
                ok = rb == 0
            except Exception as e:
                rb, ok = 'raises ' + type(e).__name__, False
            if not _sub('dew_point_rh0_roundtrip', ok):
                return _fail('rel_humid_from_db_dpt(db, dew_point_from_db_rh(db, 0)) = 0', rb,
                             clause='dpt_roundtrip', branch='rh=0')
        else:
            if not _sub('dew_le_db', dpt <= db):
                return _fail('dew point <= dry bulb', dpt, clause='order', which='dpt<=db')
            lo = ps.rel_humid_from_db_dpt(db, dpt - SOLVER_TOL)
            hi = ps.rel_humid_from_db_dpt(db, dpt + SOLVER_TOL)
            if not _sub('dew_point_inversion', lo <= rh * (1 + 1e-12) and rh <= hi * (1 + 1e-12)):
                return _fail('rh between rel_humid_from_db_dpt(db, dpt -/+ 0.1) = [%r, %r]' % (lo, hi), rh,
                             clause='dpt_roundtrip', branch=side)
        # wet bulb: order, saturation equality, inversion through the ASHRAE relation it was solved from
        wb = ps.wet_bulb_from_db_rh(db, rh, p)
        if not _sub('order_dpt_wb_db', dpt <= wb <= db):
            return _fail('dew point <= wet bulb <= dry bulb', [dpt, wb, db], clause='order', which='dpt<=wb<=db')
        if rh == 100:
            if not _sub('saturation_equality', dpt == db and wb == db):
                return _fail('dew point = wet bulb = dry bulb at rh = 100', [dpt, wb, db], clause='saturation')
        if rh > 0:
            # humid_ratio_from_db_wb switches formula at wb = 0 (ice / water) and is increasing on each side:
            # the solver is right when a solution lies within 0.1 C of its answer on either side
            a, b = max(wb - SOLVER_TOL, dpt - SOLVER_TOL), min(wb + SOLVER_TOL, db)
            slack = 1e-9 * max(hr, 1e-6)
            ok = False
            for lo_t, hi_t in ((a, min(b, -1e-12)), (max(a, 0.0), b)):
                if lo_t <= hi_t:
                    w_lo = ps.humid_ratio_from_db_wb(db, lo_t, p)
                    w_hi = ps.humid_ratio_from_db_wb(db, hi_t, p)
                    if (w_lo <= hr + slack or lo_t <= dpt) and (hr <= w_hi + slack or hi_t >= db):
                        ok = True
            if not _sub('wet_bulb_inversion', ok):
                return _fail('a wet bulb within 0.1 C of %r reproduces the humidity ratio through humid_ratio_from_db_wb' % wb,
                             hr, clause='wb_roundtrip', via='humid_ratio_from_db_wb',
                             branch='wb<0' if wb < 0 else 'wb>=0')
        return None

    if op == 'wb_rh_roundtrip':
        # rel_humid_from_db_wb must invert wet_bulb_from_db_rh within the solver tolerance
        db, rh, p = inp['db'], inp['rh'], inp['p']
        wb = ps.wet_bulb_from_db_rh(db, rh, p)
        lo = ps.rel_humid_from_db_wb(db, wb - SOLVER_TOL, p)
        hi = ps.rel_humid_from_db_wb(db, min(wb + SOLVER_TOL, db), p)
        ok = lo <= rh <= hi or (wb + SOLVER_TOL >= db and lo <= rh)
        if not _sub('rel_humid_from_db_wb_inversion', ok):
            # how far (in wet-bulb degrees) the exact inverse of rel_humid_from_db_wb is from the solver's answer
            a, b = -150.0, db
            for _ in range(60):
                m = (a + b) / 2
                if ps.rel_humid_from_db_wb(db, m, p) > rh:
                    b = m
                else:
                    a = m
            return _fail('rh between rel_humid_from_db_wb(db, wb -/+ 0.1) = [%r, %r]' % (lo, hi), rh,
                         clause='wb_roundtrip', via='rel_humid_from_db_wb',
                         excess=_bucket(abs(wb - a), [1.2]))
        return None

    if op == 'db_from_rh_hr':
        db, rh, p = inp['db'], inp['rh'], inp['p']
        hr = ps.humid_ratio_from_db_rh(db, rh, p)
        back = ps.db_temp_from_rh_hr(rh, hr, p)
        if not _sub('antoine_inverse', abs(back - db) <= ANTOINE_TOL):
            return _fail('db_temp_from_rh_hr(rh, humid_ratio_from_db_rh(db, rh)) = db within %g C' % ANTOINE_TOL, back,
                         clause='db_from_rh_hr', branch='below_freezing' if db < 0 else 'above_freezing',
                         excess=_bucket(abs(back - db), [3.5]))
        return None

    if op == 'rises':
        db, p, r1, r2 = inp['db'], inp['p'], inp['rh1'], inp['rh2']
        ref = inp.get('ref', 0.0)
        h1, h2 = ps.humid_ratio_from_db_rh(db, r1, p), ps.humid_ratio_from_db_rh(db, r2, p)
        if not _sub('hr_rises', h1 < h2):
            return _fail('humidity ratio rises with rh', [h1, h2], clause='rises', metric='humid_ratio')
        e1, e2 = ps.enthalpy_from_db_hr(db, h1, ref), ps.enthalpy_from_db_hr(db, h2, ref)
        if not _sub('enthalpy_rises', e1 <= e2 and (e1 < e2 or e1 == 0)):
            return _fail('enthalpy rises with humidity', [e1, e2], clause='rises', metric='enthalpy')
        d1, d2 = ps.dew_point_from_db_rh(db, r1), ps.dew_point_from_db_rh(db, r2)
        if not _sub('dew_point_rises', d2 >= d1 - SOLVER_TOL and (r2 - r1 < 10 or d2 > d1)):
            return _fail('dew point rises with rh (solver tolerance 0.1)', [d1, d2], clause='rises', metric='dew_point')
        w1, w2 = ps.wet_bulb_from_db_rh(db, r1, p), ps.wet_bulb_from_db_rh(db, r2, p)
        if not _sub('wet_bulb_rises', w2 >= w1 - SOLVER_TOL):
            return _fail('wet bulb rises with rh (solver tolerance 0.1)', [w1, w2], clause='rises', metric='wet_bulb',
                         straddles_wb0=(w1 >= 0) != (w2 >= 0), drop=_bucket(w1 - w2, [1.5]))
        return None

    if op == 'svp':
        t1, t2 = inp['t1'], inp['t2']            # Celsius, t1 < t2
        a, b = svp(t1 + 273.15), svp(t2 + 273.15)
        if not _sub('svp_positive', a > 0 and b > 0):
            return _fail('saturation pressure > 0', [a, b], clause='svp_positive')
        if not _sub('svp_increasing', a < b):
            return _fail('saturation pressure increasing in temperature', [a, b], clause='svp_increasing',
                         straddles=t1 <= 0 < t2)
        for t, v in ((t1, a), (t2, b)):
            if -40 <= t <= 55:
                m = magnus(t)
                if not _sub('magnus_0.6pct', abs(v / m - 1) <= MAGNUS_TOL):
                    return _fail('within 0.6 %% of Magnus %r' % m, v, clause='magnus', side='ice' if t <= 0 else 'water')
        return None

    if op == 'svp_reference':      # only used by the failing-input search (ctx.searching)
        t = inp['t_k']
        v, r = svp(t), reference_svp(t)
        if not abs(v / r - 1) <= 1e-9:
            return _fail('ASHRAE 2017 eq. 5/6 (Hyland-Wexler) value %r within 1e-9' % r, v, clause='svp_reference',
                         side='ice' if t <= 273.15 else 'water')
        return None

    if op == 'continuity':
        lo = svp(273.15)
        hi = svp(math.nextafter(273.15, 300.0))
        j = abs(hi / lo - 1)
        if not _sub('continuous_at_freezing', j <= JUMP_TOL):
            return _fail('relative step at 273.15 K <= %g' % JUMP_TOL, j, clause='continuity')
        return None

    if op == 'derivative':
        # _d_ln_p_ws(db) is the derivative of log(saturated_vapor_pressure(db + 273.15)) on the branch
        # saturated_vapor_pressure uses at db (one-sided at the switch)
        db = inp['db']
        h = 1e-3
        f = lambda x: math.log(svp(x + 273.15))
        if db <= 0:
            num = (3 * f(db) - 4 * f(db - h) + f(db - 2 * h)) / (2 * h)
        else:
            num = (-3 * f(db) + 4 * f(db + h) - f(db + 2 * h)) / (2 * h)
        d = ps._d_ln_p_ws(db)
        if not _sub('dlnpws_is_derivative', abs(d - num) <= 1e-6 * abs(num)):
            return _fail('one-sided numerical derivative of log svp = %r' % num, d, clause='derivative',
                         side='ice' if db <= 0 else 'water', at_zero=db == 0)
        return None

    if op == 'designday':
        from ladybug.designday import HumidityCondition
        ty, v, p, hourly = inp['type'], inp['value'], inp['p'], inp['hourly']
        hc = HumidityCondition(ty, v, p)
        stub = _DbStub(hourly)
        dbm = stub.dry_bulb_max
        day = hc.dew_point(dbm)
        if day == -273.15:           # the humidity value describes no state (rh <= 0): outside the property
            return None
        dpts = hc.hourly_dew_point_values(stub)
        for dbh, dp in zip(hourly, dpts):
            if not _sub('dd_dew_le_db', dp <= dbh and (dp == day or dp == dbh)):
                return _fail('hourly dew point = min(day dew point, dry bulb)', [dbh, dp, day], clause='dd_cap', type=ty)
            rh = ps.rel_humid_from_db_dpt(dbh, dp)
            if not _sub('dd_rh_range', 0 < rh <= 100 and (rh == 100) == (dp == dbh)):
                return _fail('0 < rh <= 100, 100 exactly when capped', rh, clause='dd_rh', type=ty)
        # the day's dew point reproduces the humidity value it was derived from (at the maximum dry bulb)
        if day <= dbm and day > -273.15:
            rh0 = ps.rel_humid_from_db_dpt(dbm, day)
            if ty == 'HumidityRatio':
                got = ps.humid_ratio_from_db_rh(dbm, rh0, p)
                rh_in = ps.rel_humid_from_db_hr(dbm, v, p)
                ok = rh_in > 100 or (ps.rel_humid_from_db_dpt(dbm, day - SOLVER_TOL) <= rh_in * (1 + 1e-9)
                                     and rh_in <= ps.rel_humid_from_db_dpt(dbm, day + SOLVER_TOL) * (1 + 1e-9))
            elif ty == 'Enthalpy':
                got = rh0
                rh_in = ps.rel_humid_from_db_enth(dbm, v / 1000.0, p)
                ok = rh_in > 100 or rh_in <= 0 or (
                    ps.rel_humid_from_db_dpt(dbm, day - SOLVER_TOL) <= rh_in * (1 + 1e-9)
                    and rh_in <= ps.rel_humid_from_db_dpt(dbm, day + SOLVER_TOL) * (1 + 1e-9))
            elif ty == 'Wetbulb':
                got = rh0
                rh_in = ps.rel_humid_from_db_wb(dbm, v, p)
                ok = rh_in > 100 or rh_in <= 0 or (
                    ps.rel_humid_from_db_dpt(dbm, day - SOLVER_TOL) <= rh_in * (1 + 1e-9)
                    and rh_in <= ps.rel_humid_from_db_dpt(dbm, day + SOLVER_TOL) * (1 + 1e-9))
            else:
                got, ok = day, day == v
            if not _sub('dd_value_roundtrip', ok):
                return _fail('day dew point consistent with the %s value %r' % (ty, v), got, clause='dd_roundtrip', type=ty)
        return None

    if op == 'dd_object':
        # the humidity profile of a real DesignDay object: the relations of the statement between
        # hourly_dry_bulb, hourly_dew_point and hourly_relative_humidity
        dd = _make_designday(inp)
        ty = inp['type']
        day = dd.humidity_condition.dew_point(dd.dry_bulb_condition.dry_bulb_max)
        if day == -273.15:           # the humidity value describes no state (rh <= 0): outside the property
            return None
        dbs = list(dd.hourly_dry_bulb.values)
        dps = list(dd.hourly_dew_point.values)
        rhs = list(dd.hourly_relative_humidity.values)
        if not _sub('ddobj_lengths', len(dbs) == len(dps) == len(rhs) == 24):
            return _fail('24 hourly values each', [len(dbs), len(dps), len(rhs)], clause='ddobj_len', type=ty)
        capped = any(d < day for d in dbs)
        for h, (db, dp, rh) in enumerate(zip(dbs, dps, rhs)):
            if not _sub('ddobj_dew_le_db', dp <= db):
                return _fail('hourly dew point <= hourly dry bulb (hour %d: db %r)' % (h, db), dp,
                             clause='ddobj_dew_le_db', type=ty, capped_day=capped)
            if not _sub('ddobj_dew_is_day_or_db', dp == (day if day <= db else db)):
                return _fail('hour %d: dew point = day dew point %r where that is below the dry bulb %r, else the '
                             'dry bulb' % (h, day, db), dp, clause='ddobj_dew_profile', type=ty, capped_day=capped)
            if not _sub('ddobj_rh_range', 0 < rh <= 100 + 1e-9):
                return _fail('hour %d: 0 < rh <= 100 (db %r, dew point %r)' % (h, db, dp), rh,
                             clause='ddobj_rh_range', type=ty, capped_day=capped)
            want = ps.rel_humid_from_db_dpt(db, dp)
            if not _sub('ddobj_rh_consistent', abs(rh - want) <= 1e-9 * max(1.0, abs(want))):
                return _fail('hour %d: rh = rel_humid_from_db_dpt(hourly_dry_bulb, hourly_dew_point) = %r' % (h, want),
                             rh, clause='ddobj_rh_consistent', type=ty, capped_day=capped)
        return None

    if op == 'chart':
        par = tuple(inp['par'])
        tv, rv = inp['t'], inp['rh']
        use_ip, bx, by, xd, yd, tmin, tmax, p = par
        ch = _make_chart(par, tv, rv)
        pts = ch.data_points
        prev = None
        for i, (tc, rh) in enumerate(zip(tv, rv)):
            t_chart = tc * 9. / 5. + 32. if use_ip else tc
            q = ch.plot_point(t_chart, rh)
            d = pts[i]
            if not _sub('chart_plot_eq_data', abs(q.x - d.x) <= 1e-9 * max(1, abs(d.x)) and
                        abs(q.y - d.y) <= 1e-9 * max(1, abs(d.y))):
                return _fail('plot_point = data_points[%d] = %r' % (i, (d.x, d.y)), (q.x, q.y), clause='chart_plot', ip=use_ip)
            # coordinates invert to the state
            t_back = tmin + (d.x - bx) / xd
            hr_back = (d.y - by) / yd
            rh_back = ps.rel_humid_from_db_hr(tc, hr_back, p)
            if not _sub('chart_inverts', abs(t_back - t_chart) <= 1e-9 * max(1, abs(t_chart)) and
                        abs(rh_back - rh) <= HR_RH_BOUND * rh + 1e-7):
                return _fail('chart coordinates convert back to (t, rh) = %r' % ((t_chart, rh),), (t_back, rh_back),
                             clause='chart_inverse', ip=use_ip)
            q2 = ch.plot_point(t_chart, min(100.0, rh + 5.0))
            if rh + 5.0 <= 100.0 and not _sub('chart_y_rises', q2.y > q.y and q2.x == q.x):
                return _fail('y rises with rh, x unchanged', [(q.x, q.y), (q2.x, q2.y)], clause='chart_rises', ip=use_ip)
        return None

    raise ValueError('unknown op ' + op)


def replay(op, inp):
    del _SUB[:]
    return check_case(op, inp)


FIXED = [
    ('state', {'db': 30.0, 'rh': 50.0, 'p': 101325.0}),
    ('state', {'db': 30.0, 'rh': 100.0, 'p': 101325.0}),
    ('state', {'db': -20.0, 'rh': 100.0, 'p': 101325.0}),
    ('state', {'db': -20.0, 'rh': 50.0, 'p': 101325.0, 'ref': -17.78}),
    ('state', {'db': 0.0, 'rh': 50.0, 'p': 101325.0}),
    ('state', {'db': 0.0, 'rh': 100.0, 'p': 60000.0}),
    ('state', {'db': 1e-9, 'rh': 80.0, 'p': 101325.0}),
    ('state', {'db': -1e-9, 'rh': 80.0, 'p': 101325.0}),
    ('state', {'db': 5.0, 'rh': 35.0, 'p': 87300.0}),           # wet bulb just above 0 C
    ('state', {'db': 4.0, 'rh': 30.0, 'p': 101325.0}),           # wet bulb just below 0 C
    ('state', {'db': 55.0, 'rh': 100.0, 'p': 60000.0}),
    ('state', {'db': -40.0, 'rh': 1.0, 'p': 105000.0}),
    ('state', {'db': 20.0, 'rh': 0.0, 'p': 101325.0}),           # known finding C09-rh0-dew-point-roundtrip
    ('wb_rh_roundtrip', {'db': 40.0, 'rh': 20.0, 'p': 101325.0}),   # known finding C09-rh-from-wb-not-inverse
    ('db_from_rh_hr', {'db': -40.0, 'rh': 80.0, 'p': 90000.0}),     # known finding C09-antoine-below-freezing
    ('db_from_rh_hr', {'db': 20.0, 'rh': 50.0, 'p': 101325.0}),
    ('rises', {'db': 11.581553612703566, 'p': 77495.05896094989, 'rh1': 2.9469781905916226,
               'rh2': 3.0469781905916227}),            # known finding C09-wet-bulb-drops-at-0C
    ('continuity', {}),
    ('derivative', {'db': 0.0}),
    ('derivative', {'db': -1e-9}),
    ('derivative', {'db': 1e-9}),
    ('derivative', {'db': -40.0}),
    ('derivative', {'db': 55.0}),
    ('svp', {'t1': -1e-9, 't2': 1e-9}),
    ('svp', {'t1': 0.0, 't2': 1e-13}),
    ('svp', {'t1': -40.0, 't2': 55.0}),
    ('rises', {'db': 25.0, 'p': 101325.0, 'rh1': 0.0, 'rh2': 100.0}),
    ('rises', {'db': -10.0, 'p': 70000.0, 'rh1': 40.0, 'rh2': 41.0}),
    ('designday', {'type': 'Wetbulb', 'value': 23.0, 'p': 101325.0,
                   'hourly': [32.0 - 10.0 * abs(math.sin(i / 7.0)) for i in range(24)] + []}),
    ('designday', {'type': 'Dewpoint', 'value': 18.0, 'p': 101325.0,
                   'hourly': [15.0 + i / 2.0 for i in range(24)]}),
    # real DesignDay objects: humid day with a large range (saturation-clamped at night), all 4 humidity types
    ('dd_object', {'type': 'Wetbulb', 'value': 27.0, 'p': 101325.0, 'db_max': 32.0, 'db_range': 12.0}),
    ('dd_object', {'type': 'Dewpoint', 'value': 24.0, 'p': 101325.0, 'db_max': 28.0, 'db_range': 12.0}),
    ('dd_object', {'type': 'HumidityRatio', 'value': 0.0185, 'p': 101325.0, 'db_max': 32.0, 'db_range': 12.0}),
    ('dd_object', {'type': 'Enthalpy', 'value': 79500.0, 'p': 101325.0, 'db_max': 32.0, 'db_range': 12.0}),
    ('dd_object', {'type': 'Wetbulb', 'value': 27.0, 'p': 84000.0, 'db_max': 32.0, 'db_range': 2.0}),
    ('dd_object', {'type': 'Dewpoint', 'value': 11.0, 'p': 101325.0, 'db_max': 34.9, 'db_range': 11.3}),  # dry day
    ('dd_object', {'type': 'Dewpoint', 'value': -12.0, 'p': 70000.0, 'db_max': -8.0, 'db_range': 10.0}),  # below 0 C
]


def _oracle_cases(ctx):
    rng = ctx.rng
    for c in FIXED:
        yield c
    big = ctx.searching or not ctx.quick
    n = 40000 if big else 2500
    if ctx.searching:
        # after a broken tie: the published-coefficient reference locates changed constants exactly
        for k in range(-40, 56):
            yield 'svp_reference', {'t_k': k + 273.15}
        for k in range(-3, 4):
            yield 'svp_reference', {'t_k': 273.15 + k * _ULP}
    for _ in range(n):
        db, rh, p = _db(rng), _rh_met(rng), _p(rng)
        ctx.count('oracle:' + ('db<=0' if db <= 0 else 'db>0'))
        yield 'state', {'db': db, 'rh': rh, 'p': p, 'ref': _ref(rng)}
    for _ in range(n // 5):
        db, rh, p = _db(rng), max(_rh_met(rng), 0.5), _p(rng)
        yield 'wb_rh_roundtrip', {'db': db, 'rh': rh, 'p': p}
        yield 'db_from_rh_hr', {'db': db, 'rh': max(rh, 1.0), 'p': p}
    for _ in range(n // 2):
        db, p = _db(rng), _p(rng)
        r1, r2 = sorted((_rh_met(rng), _rh_met(rng)))
        if r1 == r2:
            continue
        if rng.random() < 0.2:
            r2 = min(100.0, max(0.01, r1 + rng.choice([1e-6, 1e-3, 0.1, 1.0])))
            if r2 <= r1:
                continue
        yield 'rises', {'db': db, 'p': p, 'rh1': r1, 'rh2': r2, 'ref': _ref(rng)}
    for _ in range(n):
        t1, t2 = sorted((_db(rng), _db(rng)))
        if rng.random() < 0.3:
            t2 = t1 + rng.choice([1e-9, 1e-6, 1e-3, 0.1])
        if t1 < t2:
            yield 'svp', {'t1': t1, 't2': t2}
    for k in range(-4000, 5501, 1 if big else 25):          # Magnus on the whole range, 0.01 C steps (thorough)
        yield 'svp', {'t1': k / 100.0, 't2': k / 100.0 + 0.005}
    for _ in range(n // 2):
        yield 'derivative', {'db': _db(rng)}
    for _ in range(n // 10):
        ty, v, p, hourly = _dd_case(rng)
        yield 'designday', {'type': ty, 'value': v, 'p': p, 'hourly': hourly}
    for _ in range(25 if big else 3):
        for ty in ('Dewpoint', 'Wetbulb', 'HumidityRatio', 'Enthalpy'):
            for humid in (True, False):
                for large in (True, False):
                    c = _dd_object_case(rng, ty, humid, large)
                    ctx.count('ddobj:%s:%s:%s' % (ty, 'humid' if humid else 'dry', 'large' if large else 'small'))
                    yield 'dd_object', c
    for _ in range(300 if big else 15):
        par = _chart_params(rng)
        tv, rv = _chart_data(rng, par)
        yield 'chart', {'par': list(par), 't': tv, 'rh': rv}


def oracle(ctx):
    seen = {}

    def run(op, inp):
        del _SUB[:]
        try:
            res = check_case(op, inp)
        finally:
            for name, ok in _SUB:
                ctx.subclaim(name, ok)
        if res:
            # keep at most 3 failing inputs per signature so that one (possibly known) defect does not
            # exhaust the failure budget of the search; every failure is still counted in the sub-claim
            k = repr(sorted(res['sig'].items()))
            seen[k] = seen.get(k, 0) + 1
            if seen[k] > 3:
                ctx.count('oracle_failures_not_listed')
                return None
        return res
    core.run_oracle_cases(ctx, _oracle_cases(ctx), run)
