"""C09 — Humidity metrics describe one consistent state of moist air.

Model: lean/Ladybug/Model/Psychro.lean (generic over Transc; Float executed by drv_c09, R proved about);
theorems: lean/Ladybug/Props/C09.lean; helper lemmas: lean/Ladybug/Proofs/C09Lemmas.lean.
Tie: translator (T) — tools/extract/psychro_formulas.py regenerates Gen/PsychroFormulas.lean from the Python source on
every run and Proofs/C09Gen.lean proves every generated definition equal to the model definition (16 whole functions,
14 solver pieces, 4 user formulas); plus correspondence (C) — the Float instantiation of every function of psychrometrics.py and of the
design-day / psych-chart users is compared with the real functions (tolerance 1e-12 relative for closed
forms, 1e-9 for the iterative solvers; same libm, so in practice bit-exact).

Round 3 (histories, refused operations, entry points, process order): Model/PsychroObj.lean is an object state
machine of the design-day humidity objects (public state = type, value, pressure, dry-bulb max, range; setters with
their refusals; reads), executed by `drv_c09 ddhist` and compared STEP BY STEP with real DesignDay /
HumidityCondition / DryBulbCondition objects built through every entry point (constructor,
from_design_day_properties, from_dict, from_idf, DDY file), incl. a twin object that differs in one field; call
histories of psychrometrics.py (partial-key repeats, failing calls, defaults, ints, dry air) and chart read
histories are compared with the pure model in this process and in 2-3 fresh processes with other orders (rare
classes first / reversed / shuffled).  The oracle states the same independently of the model: every observable
after a history equals what the statement requires of the PUBLIC state the user established (composed from the
psychrometric functions; hand-written IDF / dict forms; IDD units), a refused operation changes nothing, every
route to the dew point (rh, humidity ratio, enthalpy, wet bulb) describes the same state incl. completely dry air,
every chart vertex inverts to its state, and a slice of the stream holds in fresh processes in several orders
(`order`, replayable).  See the block comment "ROUND 3" below for the producer -> consumer list.

Round 4 (input shapes, aliasing, override gaps, caller/callee conventions, numeric edges, rare branches; see the
block comment "ROUND 4" near the end for the list of concrete classes, branches -> counted strata, and call
conventions): charts are built from every accepted collection class (hourly / sub-hourly continuous, discontinuous
with unsorted and repeated datetimes, daily, the immutable twins), from numbers given as int / text / exponent text,
through the constructor and a hand-written reversed-order dictionary, with fractional limits and other maximum
humidity ratios; every curve family is checked against the relation it draws (rh-curve cut-off vertex, enthalpy
lines = constant enthalpy with the unit / reference of the chart, wet-bulb lines on db_temp_and_hr_from_wb_rh,
humidity-ratio lines, mesh vertices on 5 % curves, 4- and 5-vertex border) and the rh curves below the cut-off
against the Lean model (`drv_c09 rhline`, Model/PsychroChart.lean); design days are read through IDF text in other
legal forms (exponent notation, CRLF, one line, padding, leading +), reversed dictionaries, tuples, the 99.0 % /
1.0 % ASHRAE rows, and every list / dict / collection they hand out is edited in place between the reads;
psychrometrics.py is called by keyword, with magnitudes 1e-12 .. 1e+16 and with one counted stratum per branch.

Round 6 (positional results: a filter / de-duplication / clamp added to a sequence whose entry i belongs to entry i
of the source data): every chart generator now draws about half of its charts with states that do NOT fit between
the chart's temperature limits (below / above / both / exactly on the limits and one ulp beyond / all but one /
only the second state) and a third with the same state repeated (counters chartdata:*); `data_points` is compared
as a WHOLE tuple with the Lean model `Chart.dataPoints` (`drv_c09 datapts`, Model/PsychroChart.lean: one entry per
state, the chart's limits play no part) in the correspondence and in the chart histories; the oracle requires one
point per state and that point i converts back to state i (clauses chart_data_points_length, chart_inverse,
charthist_read); the new read `labels` requires of the five curve families (temperature, relative humidity,
humidity ratio, enthalpy, wet bulb) that label i, label point i and line i belong together and none is left out
(chart_family_counts, chart_temperature_label, chart_rh_label, chart_hr_label, chart_label_on_line).  Theorems
C09_data_points_length / _aligned / _invert_t / _append, C09_dd_hourly_lengths.

Partial by nature (DESIGN.md section 9): everything that needs certified numerics of exp/log (solver
outputs, Magnus closeness, continuity at 0 C, monotonicity across the branch point) is a *sampled
sub-claim* evaluated by the oracle on the real code and reported under `sampled_subclaims`.
"""
import math
import struct

from harness import core

PROP = 'C09'
PROOF_MODULES = ['Ladybug.Props.C09', 'Ladybug.Proofs.C09Gen']
GREP_MODULES = ['Ladybug.Transc', 'Ladybug.RealInst', 'Ladybug.Model.Psychro', 'Ladybug.Model.PsychroObj',
                'Ladybug.Model.PsychroChart',
                'Ladybug.Proofs.C09Lemmas', 'Ladybug.Proofs.C09Obj',
                'Ladybug.Gen.PsychroFormulas',
                'Ladybug.Drv.C09', 'Ladybug.DrvCore']
RULE = ('correspondence: every function of psychrometrics.py + HumidityCondition.dew_point/hourly profile + '
        'chart plot_point/data_points on states db x rh x pressure (x reference temperature), boundary-biased '
        '(both sides of 0 C to 1 ulp, rh 0/100, wet bulb around 0 C, pressure limits) plus ~10 % out-of-range '
        'inputs (negative/over-100 rh, p_w > P, T < 0 K, inf/nan); a case is non-trivial when the implementation '
        'returns a finite value; distinct = distinct (op, argument bits). oracle: the relations of the statement '
        'evaluated on the real functions only. Round 3: operation histories on ONE design day (5-20 operations: reads '
        'in random order and repeated, the 5 setters, replaced condition objects, operations the asserts refuse, '
        'duplicates that are mutated, serial forms; entry point x humidity type x twin object; zero/int/saturated '
        'values), read histories on one chart (SI/IP, 24 values / scalar inputs / single value, refused '
        'constructions and calls in between), call histories of psychrometrics.py (one component changed between '
        'consecutive calls, repeated, defaults omitted, ints, dry air, calls that fail inside), strata: dry bulb '
        'above with dew point below 0 C, dry air through every route; the same cases in fresh processes in 2-4 orders. '
        'Round 4: chart x collection class (8 kinds incl. immutable twins, sub-hourly, unsorted discontinuous) x '
        'container x scalar given as int / text / exponent text x entry (constructor, reversed dictionary) x maximum '
        'humidity ratio x fractional limits; design day x text form of the IDF / dictionary order / tuple; returned '
        'containers edited in place between reads; keyword calls; magnitudes 1e-12..1e+16; one counted stratum per '
        'branch of the anchored functions (branch:* counters). Round 6: chart data x position relative to the chart '
        '(all on the chart / some below / some above / both sides of the temperature limits, values exactly on a limit '
        'and 1e-9 / one ulp beyond, all but one state off the chart) x repeated states; the whole data_points tuple '
        'against the model; the label / label point / line families read together (chartdata:* counters)')
EXTRACTORS = 'tools/extract/psychro_formulas.py'
TRUSTED_BASE = [
    'translator tools/extract/pyexpr2lean.py + psychro_formulas.py (Python ast -> Lean for straight-line numeric '
    'code): that the emitted Lean expression denotes the Python expression (operator order, literals copied with '
    'their decimal text, `a > b` as `b < a`, min(a, b) as `if b < a then b else a`, ints as exact floats); every '
    'generated definition is proved equal to the model definition (C09_gen_eq_*), and the model is executed '
    'against the real functions in the correspondence step, so a translator error shows up as a disagreement',
    'hand-modelled, correspondence only (loops / try are outside the translated subset): the control structure of '
    'dew_point_from_db_rh (try/except + Newton while loop), wet_bulb_from_db_rh (bisection while loop), '
    'dew_point_from_db_rh_fast (try/except), wet_bulb_from_db_rh_fast (while loop with integer sign bookkeeping), '
    'HumidityCondition.dew_point / hourly_dew_point_values, PsychrometricChart.plot_point / data_points; their '
    'straight-line pieces (prefix, loop body, loop / break tests, iteration limits, final expression) ARE translated',
    'IEEE-754/libm evaluation vs the real-number semantics of the theorems is not proved; the Float '
    'instantiation of the same polymorphic definitions is compared with CPython (same libm) on every run',
    'Python exceptions of the formulas (division by t_kelvin = 0, math.log of a non-positive number, overflow) '
    'are not modelled: model and code are compared as "finite value or not"; exact singular inputs '
    '(t_kelvin == 0, p == p_w) are excluded from the correspondence stream',
    'sampled sub-claims (solver inversions, ordering dpt <= wb <= db on floats, monotonicity of svp across '
    '0 C, continuity at 0 C, Magnus 0.6 %, design-day and chart relations) are tests on generated inputs, '
    'not theorems',
    'DryBulbCondition.hourly_values (C16) and the Temperature unit conversion (C06) are taken from the real '
    'code as inputs of the round-1 design-day / chart ops (the round-3 histories recompute the hourly dry bulb from '
    'the ASHRAE multipliers, copied into the harness and into Model/PsychroObj.lean)',
    'object histories: the Lean state machine has no hidden state by construction (that is the specification); that '
    'the real objects behave like it is compared on generated histories (not proved about the Python classes); '
    'the validation rules of the setters (which arguments are refused) are transcribed by hand from designday.py',
    'chart curves: rh lines below the cut-off are modelled (Model/PsychroChart.lean, compared through `rhline`); '
    'saturation line, temperature lines, border, the cut-off vertex, enthalpy / wet-bulb / humidity-ratio lines and '
    'mesh vertices are checked by the oracle against the relation they draw (composed from the psychrometric '
    'functions; the clipping of the lines against the border is drawn geometry and only compared with a fresh '
    'chart); label points only against a fresh chart and a repeated read',
    'the lists returned by enthalpy_lines / wb_lines / hr_lines / temperature_lines are not edited in place by the '
    'histories (enthalpy_lines and wb_lines hand out the chart\'s internal list on the unchanged tree)',
    'skymodel.calc_horizontal_infrared (consumer of the hourly dew point) is compared with a fresh object only',
]
ASSUMPTIONS = ['meteorological range: dry bulb -40..55 C, rh 0..100 %, pressure 60..105 kPa',
               'independent Magnus-type reference: Alduchov-Eskridge 1996 over water, over ice (WMO form)']
LEVEL_TEXT = ('Lean 4 theorems over R about one polymorphic model of psychrometrics.py, proved equal (C09_gen_eq_*, '
              'for every numeric type) to the definitions a translator regenerates from the source on every run: saturation '
              'pressure positive and strictly increasing on each branch, _d_ln_p_ws is the derivative of '
              'log(saturated_vapor_pressure) on each branch, humidity ratio <-> rh inverse up to the proved '
              '7.4e-5 constant mismatch, enthalpy <-> dry bulb / rh exact inverses, humidity ratio and enthalpy '
              'strictly increasing in humidity, dew point <= wet bulb <= dry bulb for every input with equality '
              'at rh = 100 (Newton clamp + bisection bracket), bracket width on exit, design-day cap and chart '
              'coordinate laws. The same definitions, instantiated at Float, are compared with the real code on '
              'every run. Numerical closeness claims are sampled (partial). Round 3: an object state machine of the '
              'design-day humidity objects (setters, refusals, reads) with theorems for every numeric type: every '
              'observation after any history equals that of a fresh object of the established public state, refused '
              'operations preserve every observation, reads are pure and order-independent; dry air has dew point '
              '-273.15 through every route; chart vertices invert to their state; the real objects are compared with '
              'the state machine step by step on generated histories, in several process orders. Round 4: both '
              'points an enthalpy line is drawn through are states of the labelled enthalpy (and, with the proposed '
              'repair, so is the upper end read back through the chart axes on SI and IP charts; the unrepaired code '
              'is refuted on a witness), the upper end of a wet-bulb line is the saturation state, every vertex of a '
              'relative-humidity curve below the cut-off is the plotted point of a state of that humidity, for any '
              'list of temperatures (prefix-stable).')
LEVEL_NOTE = ('partial: solver accuracy, monotonicity of dew point / wet bulb in rh, svp monotone across 273.15 K, '
              'continuity at 0 C and Magnus closeness are sampled sub-claims; float-vs-real gap trusted')
TECHNIQUE = ('Lean 4 proof over R (HasDerivAt, field_simp/nlinarith, induction on the bisection fuel) about a '
             'generic numeric model that is proved equal (rfl) to definitions regenerated from the Python source '
             'on every run, executed at Float and compared with the code')

SOLVER_TOL = 0.1            # "0.1 is degree C tolerance" in both solvers
HR_RH_BOUND = 7.4e-5        # theorem C09_hr_rh_inverse
MAGNUS_TOL = 0.006
JUMP_TOL = 2e-4             # relative step of svp at 273.15 K allowed as "continuous" (3 % of the Magnus band)
ANTOINE_TOL = 0.15          # db_temp_from_rh_hr has no stated tolerance; 0.15 C is what it achieves above 0 C


# ---------------------------------------------------------------------------------------------
# float plumbing


def extract(ctx):
    from tools.extract import psychro_formulas
    ctx.psychro_gen = psychro_formulas.extract()


def _fbits(x):
    return '%016x' % struct.unpack('<Q', struct.pack('<d', float(x)))[0]


def _fromb(s):
    return struct.unpack('<d', struct.pack('<Q', int(s, 16)))[0]


def _finite(x):
    return isinstance(x, (int, float)) and math.isfinite(x)


def _impl_vals(fn):
    """Run the real code; None when it raises or returns a non-finite number."""
    try:
        r = fn()
    except ZeroDivisionError:
        return 'zero'
    except Exception:
        return None
    if isinstance(r, (int, float)):
        r = [r]
    r = [float(v) for v in r]
    return r if all(math.isfinite(v) for v in r) else None


def _model_vals(line):
    if line == 'nonfinite':
        return None
    if not line.startswith('ok '):
        return line                       # bad-op / nofuel: always a disagreement
    return [_fromb(t) for t in line.split()[1:]]


def _close(a, b, tol):
    return a == b or abs(a - b) <= tol * max(abs(a), abs(b)) + 1e-15


def _compare(ctx, op, cases, line_of, impl_of, tol):
    outs = ctx.driver().run([line_of(c) for c in cases])
    for c, o in zip(cases, outs):
        mv = _model_vals(o)
        iv = _impl_vals(lambda: impl_of(c))
        if iv == 'zero':
            # the code divides by exactly zero (t_kelvin == 0, rh == 0 as a divisor, ...): IEEE gives +-inf there,
            # which later operations may turn into a finite number again, so such inputs are not compared
            ctx.count('skipped_zero_division')
            continue
        ctx.compared += 1
        ctx.count('op:' + op)
        ctx.case((op, line_of(c)), nontrivial=iv is not None)
        if iv is None:
            ctx.count('nonfinite_or_raise')
        ok = (mv is None and iv is None) or (
            isinstance(mv, list) and isinstance(iv, list) and len(mv) == len(iv)
            and all(_close(a, b, tol) for a, b in zip(mv, iv)))
        if ok and isinstance(mv, list) and mv == iv:
            ctx.count('bit_exact')
        if not ok:
            ctx.disagree(op, {'args': [repr(x) for x in c] if isinstance(c, (list, tuple)) else repr(c),
                              'line': line_of(c)}, o, repr(iv))
    if cases:
        ctx.sample({'op': op, 'request': line_of(cases[0]), 'model': outs[0]})


# ---------------------------------------------------------------------------------------------
# generators (plain numbers only)

_ULP = math.ulp(273.15)
DB_EDGE = [-40.0, -39.999, -20.0, -1.0, -0.1, -1e-6, -1e-9, -1e-13, -0.0, 0.0, 1e-13, 1e-9, 1e-6, 0.01, 0.1, 1.0,
           20.0, 30.0, 54.999, 55.0]
RH_EDGE = [0.0, 1e-9, 0.01, 0.5, 1.0, 5.0, 50.0, 95.0, 99.0, 99.999, 100.0]
P_EDGE = [60000.0, 70000.0, 90000.0, 101325.0, 105000.0]
REF_EDGE = [0.0, -17.78, -273.15, 10.0]


def _db(rng):
    r = rng.random()
    if r < 0.25:
        return rng.choice(DB_EDGE)
    if r < 0.40:
        return rng.uniform(-2.0, 2.0)          # around the ice/water switch
    if r < 0.45:
        return float(rng.randrange(-40, 56))
    return rng.uniform(-40.0, 55.0)


def _rh_met(rng):
    """rh for the oracle: 0 exactly or >= 0.01 % (below ~1e-4 % the Newton dew point overshoots 0 K and
    math.log raises; such values are not meteorological and are left to the correspondence stream)."""
    r = _rh(rng)
    return r if r == 0.0 or r >= 0.01 else 0.01


def _rh(rng):
    r = rng.random()
    if r < 0.25:
        return rng.choice(RH_EDGE)
    if r < 0.35:
        return rng.uniform(95.0, 100.0)
    if r < 0.45:
        return rng.uniform(0.0, 5.0)
    return rng.uniform(0.0, 100.0)


def _p(rng):
    return rng.choice(P_EDGE) if rng.random() < 0.3 else rng.uniform(60000.0, 105000.0)


def _ref(rng):
    return rng.choice(REF_EDGE) if rng.random() < 0.7 else rng.uniform(-30.0, 30.0)


def _bad(rng):
    """One out-of-range number (never the exact singular points t_kelvin == 0)."""
    return rng.choice([-1.0, -50.0, 150.0, 1000.0, 1e6, -300.0, -1000.0, 1e300, -1e300,
                       float('inf'), float('-inf'), float('nan'), 5e-324, 0.0, 1e-300])


def _state(rng, malformed):
    db, rh, p = _db(rng), _rh(rng), _p(rng)
    if malformed:
        k = rng.randrange(3)
        if k == 0:
            db = _bad(rng)
        elif k == 1:
            rh = _bad(rng)
        else:
            p = _bad(rng)
        if db == -273.15:
            db = -273.0
    return db, rh, p


def _branch_counts(ctx, db, rh):
    ctx.count('db<0' if db < 0 else ('db==0' if db == 0 else 'db>0'))
    ctx.count('rh==0' if rh == 0 else ('rh==100' if rh == 100 else 'rh_mid'))


def correspondence(ctx):
    from ladybug import psychrometrics as ps
    rng = ctx.rng
    n = ctx.n(2500, 60000)
    states = []
    for _ in range(n):
        mal = rng.random() < 0.10
        s = _state(rng, mal)
        states.append(s)
        ctx.count('malformed' if mal else 'in_range')
        if not mal:
            _branch_counts(ctx, s[0], s[1])
    # grid of boundary states
    for db in DB_EDGE:
        for rh in RH_EDGE:
            states.append((db, rh, rng.choice(P_EDGE)))
    tol, stol = 1e-12, 1e-9

    def L(op):
        return lambda c: op + ' ' + ' '.join(_fbits(x) for x in c)

    # saturation pressure and derivative: both sides of 273.15 K / 0 C to the ulp
    tk = [273.15 + k * _ULP for k in range(-3, 4)] + [233.15, 328.15, 173.15, 473.15, 1.0, 1e-3, 5000.0, 1e4, -5.0,
                                                        float('nan'), float('inf')]
    tk += [s[0] + 273.15 for s in states]
    _compare(ctx, 'svp', [(t,) for t in tk], L('svp'), lambda c: ps.saturated_vapor_pressure(c[0]), tol)
    dbs = [s[0] for s in states] + [k * 1e-17 for k in range(-3, 4)] + [5e-324, -5e-324]
    _compare(ctx, 'dlnpws', [(d,) for d in dbs], L('dlnpws'), lambda c: ps._d_ln_p_ws(c[0]), tol)

    # closed forms
    _compare(ctx, 'hr_db_rh', states, L('hr_db_rh'), lambda c: ps.humid_ratio_from_db_rh(*c), tol)
    hr_cases, enth_cases, wb_cases, dpt_cases = [], [], [], []
    for db, rh, p in states:
        mal = rng.random() < 0.08
        hr = _bad(rng) if mal else rng.choice([0.0, 1e-6, 0.001, 0.01, 0.03, rng.uniform(0, 0.03), rng.uniform(0, 0.03)])
        ref = _ref(rng)
        hr_cases.append((db, hr, p))
        enth_cases.append((db, hr, ref))
        depress = rng.choice([0.0, 1e-9, 0.05, 0.1, rng.uniform(0, 3), rng.uniform(0, 15)])
        wb = db - depress
        if rng.random() < 0.15:
            wb = rng.choice([-0.0, 0.0, 1e-12, -1e-12, 0.05, -0.05])   # the `wb_temp >= 0` switch
        wb_cases.append((db, wb, p))
        dpt_cases.append((db, db - rng.choice([0.0, 0.1, rng.uniform(0, 30), rng.uniform(0, 5)])))
        ctx.count('wb<0' if wb < 0 else 'wb>=0')
    _compare(ctx, 'enth', enth_cases, L('enth'), lambda c: ps.enthalpy_from_db_hr(*c), tol)
    _compare(ctx, 'rh_db_hr', hr_cases, L('rh_db_hr'), lambda c: ps.rel_humid_from_db_hr(*c), tol)
    e_cases = [(db, rng.choice([0.0, rng.uniform(-10, 150), rng.uniform(0, 100)]), p, _ref(rng)) for db, _, p in states]
    _compare(ctx, 'rh_db_enth', e_cases, L('rh_db_enth'), lambda c: ps.rel_humid_from_db_enth(*c), tol)
    _compare(ctx, 'rh_db_dpt', dpt_cases, L('rh_db_dpt'), lambda c: ps.rel_humid_from_db_dpt(*c), tol)
    _compare(ctx, 'rh_db_wb', wb_cases, L('rh_db_wb'), lambda c: ps.rel_humid_from_db_wb(*c), tol)
    _compare(ctx, 'hr_db_wb', wb_cases, L('hr_db_wb'), lambda c: ps.humid_ratio_from_db_wb(*c), tol)
    eh = [(c[1], h[1], c[3]) for c, h in zip(e_cases, hr_cases)]
    _compare(ctx, 'db_enth_hr', eh, L('db_enth_hr'), lambda c: ps.db_temp_from_enth_hr(*c), tol)
    rhhr = [(s[1], h[1], s[2]) for s, h in zip(states, hr_cases)
            if 1e-12 <= h[1] and 0 < s[1] < 1e300 and 1.0 <= s[2] < 1e300]   # exact singular points: see TRUSTED_BASE
    _compare(ctx, 'db_rh_hr', rhhr, L('db_rh_hr'), lambda c: ps.db_temp_from_rh_hr(*c), tol)
    _compare(ctx, 'db_hr_wb_rh', states, L('db_hr_wb_rh'), lambda c: ps.db_temp_and_hr_from_wb_rh(*c), tol)

    # iterative solvers
    _compare(ctx, 'dpt_db_rh', [(s[0], s[1]) for s in states], L('dpt_db_rh'),
             lambda c: ps.dew_point_from_db_rh(*c), stol)
    _compare(ctx, 'wb_db_rh', states, L('wb_db_rh'), lambda c: ps.wet_bulb_from_db_rh(*c), stol)
    _compare(ctx, 'wb_db_hr', hr_cases, L('wb_db_hr'), lambda c: ps.wet_bulb_from_db_hr(*c), stol)
    _compare(ctx, 'dpt_db_hr', hr_cases, L('dpt_db_hr'), lambda c: ps.dew_point_from_db_hr(*c), stol)
    _compare(ctx, 'dpt_db_enth', e_cases, L('dpt_db_enth'), lambda c: ps.dew_point_from_db_enth(*c), stol)
    _compare(ctx, 'dpt_db_wb', wb_cases, L('dpt_db_wb'), lambda c: ps.dew_point_from_db_wb(*c), stol)
    # the "fast" formulas only on finite in-range inputs (the fast wet bulb has no iteration limit)
    fast = [s for s in states if all(map(math.isfinite, s)) and -60 <= s[0] <= 80 and 0 <= s[1] <= 100
            and 5e4 <= s[2] <= 1.1e5][:ctx.n(800, 8000)]
    _compare(ctx, 'dpt_fast', [(s[0], s[1]) for s in fast], L('dpt_fast'),
             lambda c: ps.dew_point_from_db_rh_fast(*c), tol)
    _compare(ctx, 'wb_fast', fast, L('wb_fast'), lambda c: ps.wet_bulb_from_db_rh_fast(*c), stol)

    _corr_designday(ctx)
    _corr_chart(ctx)
    _corr_round3(ctx)
    _corr_round4(ctx)


class _DbStub(object):
    """Stands in for DryBulbCondition: only the two attributes hourly_dew_point_values reads."""

    def __init__(self, hourly, as_tuple=False):
        self.hourly_values = tuple(hourly) if as_tuple else list(hourly)
        self.dry_bulb_max = max(hourly)


def _dd_case(rng):
    """Design-day humidity inputs that describe a possible state (0 < rh at the maximum dry bulb), built from the
    independent Magnus formula; ~10 % lie above saturation (the profile is then capped all day)."""
    ty = rng.choice(['Dewpoint', 'Wetbulb', 'HumidityRatio', 'Enthalpy'])
    db_max = rng.choice([rng.uniform(-35, 50), rng.uniform(-2, 2), rng.uniform(20, 45)])
    rng_c = rng.choice([0.0, rng.uniform(0, 15), rng.uniform(0, 5)])
    hourly = [db_max - rng_c * rng.random() for _ in range(24)]
    hourly[rng.randrange(24)] = db_max
    p = _p(rng)
    pws = magnus(db_max)
    frac = rng.choice([rng.uniform(0.05, 1.0), rng.uniform(0.5, 1.0), 1.05]) if rng.random() < 0.9 else 1.0
    w = 0.622 * pws * frac / (p - pws * frac)
    if ty == 'Dewpoint':
        v = db_max - rng.choice([0.0, rng.uniform(0, rng_c + 1), rng.uniform(0, 25), -2.0])
    elif ty == 'Wetbulb':
        v = db_max - rng.uniform(0, 1.0) * (0.3 if db_max < -10 else (1.5 if db_max < 10 else 6.0)) * (1 - frac / 1.05)
    elif ty == 'HumidityRatio':
        v = w
    else:
        v = 1000.0 * (1.006 * db_max + w * (2501.0 + 1.86 * db_max))
    return ty, v, p, hourly


def _dd_object_case(rng, ty=None, humid=None, large=None):
    """Inputs of a real DesignDay: humidity type x humid/dry x large/small daily range x pressure.
    humid = the dew point at the maximum dry bulb lies above the night-time minimum when the range is large
    (so the profile is saturation-clamped for part of the day).  Values from the independent Magnus formula."""
    ty = ty or rng.choice(['Dewpoint', 'Wetbulb', 'HumidityRatio', 'Enthalpy'])
    humid = (rng.random() < 0.5) if humid is None else humid
    large = (rng.random() < 0.5) if large is None else large
    db_max = rng.choice([rng.uniform(20, 45), rng.uniform(-5, 20), rng.uniform(-30, -5), 32.0])
    db_range = rng.uniform(8, 16) if large else rng.choice([0.0, rng.uniform(0, 3)])
    p = _p(rng)
    # target dew-point depression below the maximum dry bulb
    dep = rng.uniform(0.5, 6.0) if humid else rng.uniform(12.0, 25.0)
    dpt = db_max - dep
    pw = magnus(dpt)
    w = 0.622 * pw / (p - pw)
    if ty == 'Dewpoint':
        v = dpt
    elif ty == 'Wetbulb':
        # wet bulb with the target vapour pressure from the psychrometer relation (Magnus, independent of the code)
        a, b = db_max - 60.0, db_max
        for _ in range(50):
            m = (a + b) / 2.0
            if magnus(m) - p * 6.6e-4 * (db_max - m) > pw:
                b = m
            else:
                a = m
        v = b
    elif ty == 'HumidityRatio':
        v = w
    else:
        v = 1000.0 * (1.006 * db_max + w * (2501.0 + 1.86 * db_max))
    return {'type': ty, 'value': v, 'p': p, 'db_max': db_max, 'db_range': db_range}


def _make_designday(inp):
    from ladybug.designday import DesignDay
    from ladybug.location import Location
    from ladybug.dt import Date
    loc = Location('c09', '-', '-', 40.0, -75.0, -5.0, 10.0)
    return DesignDay.from_design_day_properties(
        'd', 'SummerDesignDay', loc, Date(7, 21), inp['db_max'], inp['db_range'], inp['type'], inp['value'],
        inp['p'], 2.0, 180.0, 'ASHRAEClearSky', [1.0])


def _corr_designday(ctx):
    from ladybug.designday import HumidityCondition
    rng = ctx.rng
    cases = [_dd_case(rng) for _ in range(ctx.n(300, 5000))]
    for c in cases:
        ctx.count('dd:' + c[0])

    def line(c):
        ty, v, p, hourly = c
        return 'dd_hourly %s %s' % (ty, ' '.join(_fbits(x) for x in [v, p, max(hourly)] + hourly))

    def impl(c):
        ty, v, p, hourly = c
        from ladybug.psychrometrics import rel_humid_from_db_dpt
        hc = HumidityCondition(ty, v, p)
        stub = _DbStub(hourly)
        dpt = hc.hourly_dew_point_values(stub)
        rh = [rel_humid_from_db_dpt(x, y) for x, y in zip(hourly, dpt)]     # DesignDay.hourly_relative_humidity
        return [hc.dew_point(stub.dry_bulb_max)] + list(dpt) + rh

    _compare(ctx, 'dd_hourly', cases, line, impl, 1e-9)

    # the full DesignDay object (dry-bulb profile produced by the real DryBulbCondition)
    from ladybug.designday import DesignDay
    from ladybug.location import Location
    from ladybug.dt import Date
    full = []
    for _ in range(ctx.n(60, 1000)):
        ty, v, p, hourly = _dd_case(rng)
        full.append((ty, v, p, max(hourly), max(hourly) - min(hourly)))
    loc = Location('c09', '-', '-', 40.0, -75.0, -5.0, 10.0)
    built = []
    for ty, v, p, dbm, dbr in full:
        dd = DesignDay.from_design_day_properties('d', 'SummerDesignDay', loc, Date(7, 21), dbm, dbr, ty, v, p,
                                                  2.0, 180.0, 'ASHRAEClearSky', [1.0])
        built.append(((ty, v, p, list(dd.hourly_dry_bulb.values), dbm), dd))

    def line2(c):
        ty, v, p, hourly, dbm = c[0]
        return 'dd_hourly %s %s' % (ty, ' '.join(_fbits(x) for x in [v, p, dbm] + hourly))

    def impl2(c):
        dd = c[1]
        return ([dd.humidity_condition.dew_point(dd.dry_bulb_condition.dry_bulb_max)]
                + list(dd.hourly_dew_point.values) + list(dd.hourly_relative_humidity.values))

    _compare(ctx, 'dd_object', built, line2, impl2, 1e-9)


def _chart_params(rng):
    use_ip = rng.random() < 0.4
    bx, by = rng.choice([(0.0, 0.0), (100.0, 100.0), (rng.uniform(-50, 50), rng.uniform(-50, 50))])
    xd = rng.choice([1.0, 2.0, rng.uniform(0.5, 3)])
    yd = rng.choice([1500.0, 1000.0, rng.uniform(500, 3000)])
    if use_ip:
        tmin, tmax = rng.choice([(-5, 115), (20, 100), (rng.randrange(-20, 30), rng.randrange(60, 120))])
    else:
        tmin, tmax = rng.choice([(-20, 50), (-40, 55), (0, 40), (rng.randrange(-40, 0), rng.randrange(15, 56))])
    p = _p(rng)
    return use_ip, bx, by, xd, yd, tmin, tmax, p


def _make_chart(par, tvals, rhvals, hrmax=0.03):
    from ladybug.psychchart import PsychrometricChart
    from ladybug.datacollection import HourlyContinuousCollection
    from ladybug.header import Header
    from ladybug.analysisperiod import AnalysisPeriod
    from ladybug.datatype.temperature import DryBulbTemperature
    from ladybug.datatype.fraction import RelativeHumidity
    from ladybug_geometry.geometry2d.pointvector import Point2D
    use_ip, bx, by, xd, yd, tmin, tmax, p = par
    ap = AnalysisPeriod(1, 1, 0, 1, 1, 23)
    t = HourlyContinuousCollection(Header(DryBulbTemperature(), 'C', ap), list(tvals))
    r = HourlyContinuousCollection(Header(RelativeHumidity(), '%', ap), list(rhvals))
    return PsychrometricChart(t, r, p, None, Point2D(bx, by), xd, yd, tmin, tmax, hrmax, use_ip)


def _chart_data(rng, par):
    """24 states for a chart.  Round 6: about half of the charts get states that do NOT fit between the chart's
    temperature limits (the chart accepts them: the coloured mesh leaves them out, every positional result -
    data_points - keeps one entry per state).  Index 0 stays on the chart (the single-value shapes use it and the
    constructor refuses a chart without any state on it)."""
    use_ip, tmin, tmax = par[0], par[5], par[6]
    lo, hi = ((tmin - 32) / 1.8, (tmax - 32) / 1.8) if use_ip else (tmin, tmax)
    lo0, hi0 = lo, hi
    lo, hi = max(lo, -40.0), min(hi, 55.0)
    tv = [rng.uniform(lo, hi) for _ in range(24)]
    tv[0] = (lo + hi) / 2.0
    rv = [_rh(rng) for _ in range(24)]
    kind = rng.choice(['none', 'none', 'none', 'below', 'above', 'both', 'edge', 'most', 'second'])
    below = lambda: rng.choice([lo0 - 1e-9, lo0 - 0.5, rng.uniform(max(lo0 - 30.0, -70.0), lo0 - 1e-6)])
    above = lambda: rng.choice([hi0 + 1e-9, hi0 + 0.5, rng.uniform(hi0 + 1e-6, min(hi0 + 25.0, 75.0))])
    if kind in ('below', 'above', 'both'):
        for i in rng.sample(range(1, 24), rng.randrange(1, 12)):
            tv[i] = below() if kind == 'below' or (kind == 'both' and rng.random() < 0.5) else above()
    elif kind == 'edge':
        # exactly on the limits (on the chart) next to values just beyond them
        for i, v in zip(rng.sample(range(1, 24), 6), [lo0, hi0, lo0 - 1e-9, hi0 + 1e-9, math.nextafter(lo0, -1e9),
                                                       math.nextafter(hi0, 1e9)]):
            tv[i] = v
    elif kind == 'most':
        keep = rng.randrange(1, 24)
        for i in range(1, 24):
            if i != keep:
                tv[i] = below() if rng.random() < 0.5 else above()
    elif kind == 'second':
        tv[1] = below() if rng.random() < 0.5 else above()
    if rng.random() < 0.3:
        # the same state several times (next to each other and apart): every occurrence keeps its own entry
        i = rng.randrange(0, 24)
        for j in set([(i + 1) % 24] + rng.sample(range(1, 24), 2)) - {0}:
            tv[j], rv[j] = tv[i], rv[i]
    return tv, rv


def _chart_offchart(par, tv):
    """Counter name for the data of a chart: do all states lie between the chart's temperature limits?"""
    use_ip, tmin, tmax = par[0], par[5], par[6]
    tc = [t * 9. / 5. + 32. if use_ip else t for t in tv]
    b, a = sum(1 for t in tc if t < tmin), sum(1 for t in tc if t > tmax)
    return 'chartdata:' + ('all_on_chart' if not (a or b) else
                           'below_and_above' if (a and b) else 'some_below' if b else 'some_above')


def _chart_repeats(tv, rv):
    """Counter name: does the same state occur more than once among several different states?"""
    st = list(zip(tv, rv))
    return 'chartdata:' + ('repeated_states' if 1 < len(set(st)) < len(st) else 'no_repeated_state')


def _corr_chart(ctx):
    rng = ctx.rng
    pts, dpts, whole = [], [], []
    for _ in range(ctx.n(25, 300)):
        par = _chart_params(rng)
        tv, rv = _chart_data(rng, par)
        ch = _make_chart(par, tv, rv)
        use_ip, bx, by, xd, yd, tmin, tmax, p = par
        head = [bx, by, xd, yd, float(tmin), p]
        ctx.count('chart:ip' if use_ip else 'chart:si')
        ctx.count(_chart_offchart(par, tv))
        ctx.count(_chart_repeats(tv, rv))
        whole.append((use_ip, head, tv, rv, ch))
        for i in range(24):
            dpts.append((use_ip, head, tv[i], rv[i], ch, i))
        for _ in range(12):
            t = rng.uniform(tmin - 5, tmax + 5)
            pts.append((use_ip, head, t, _rh(rng), ch))

    def line(op):
        return lambda c: '%s %s %s' % (op, '1' if c[0] else '0', ' '.join(_fbits(x) for x in c[1] + [c[2], c[3]]))

    def impl_plot(c):
        q = c[4].plot_point(c[2], c[3])
        return [q.x, q.y]

    def impl_data(c):
        q = c[4].data_points[c[5]]
        return [q.x, q.y]

    _compare(ctx, 'plot', pts, line('plot'), impl_plot, 1e-12)
    _compare(ctx, 'datapt', dpts, line('datapt'), impl_data, 1e-12)
    # the whole tuple against Chart.dataPoints (one entry per state, in the order of the data, on the chart or not)
    _compare(ctx, 'datapts', whole,
             lambda c: 'datapts %s %s' % ('1' if c[0] else '0', ' '.join(_fbits(x) for x in c[1] + c[2] + c[3])),
             lambda c: _flat_pts(c[4].data_points), 1e-12)


# ---------------------------------------------------------------------------------------------
# property oracle: the statement of C09 evaluated on the real functions, independent of the model


def magnus(t_c):
    """Independent Magnus-type saturation pressure (Pa): Alduchov & Eskridge (1996) over water,
    the WMO/Sonntag form over ice."""
    if t_c > 0:
        return 610.94 * math.exp(17.625 * t_c / (243.04 + t_c))
    return 611.21 * math.exp(22.587 * t_c / (273.86 + t_c))


def reference_svp(t_k):
    """Hyland-Wexler saturation pressure as printed in ASHRAE Fundamentals 2017 ch.1 eq. 5 and 6,
    transcribed independently of the code.  Used only by the failing-input search after a tie broke."""
    c = ((-5.6745359e3, 6.3925247, -9.677843e-3, 6.2215701e-7, 2.0747825e-9, -9.484024e-13, 4.1635019)
         if t_k <= 273.15 else
         (-5.8002206e3, 1.3914993, -4.8640239e-2, 4.1764768e-5, -1.4452093e-8, 0.0, 6.5459673))
    return math.exp(c[0] / t_k + c[1] + c[2] * t_k + c[3] * t_k ** 2 + c[4] * t_k ** 3 + c[5] * t_k ** 4
                    + c[6] * math.log(t_k))


def _fail(required, observed, **sig):
    return {'required': required, 'observed': observed, 'sig': sig}


_SUB = []      # (name, ok) pairs of the case being evaluated, flushed into ctx.subclaim by oracle()


def _sub(name, ok):
    _SUB.append((name, bool(ok)))
    return ok


_CNT = []      # counted strata / branches of the case being evaluated, flushed into ctx.count by oracle()


def _cnt(key):
    _CNT.append(key)


def _bucket(x, edges):
    for e in edges:
        if x <= e:
            return 'le_%g' % e
    return 'gt_%g' % edges[-1]


def check_case(op, inp):
    from ladybug import psychrometrics as ps
    svp = ps.saturated_vapor_pressure

    if op == 'state':
        db, rh, p = inp['db'], inp['rh'], inp['p']
        ref = inp.get('ref', 0.0)
        side = 'ice' if db <= 0 else 'water'
        hr = ps.humid_ratio_from_db_rh(db, rh, p)
        # humidity ratio -> rh (theorem C09_hr_rh_inverse gives the bound)
        back = ps.rel_humid_from_db_hr(db, hr, p)
        if not _sub('hr_rh_inverse', rh * (1 - HR_RH_BOUND) - 1e-9 <= back <= rh * (1 + 1e-12) + 1e-12):
            return _fail('rh*(1 - 7.4e-5) <= rel_humid_from_db_hr(humid_ratio_from_db_rh(rh)) <= rh (theorem C09_hr_rh_inverse)', back,
                         clause='hr_rh_inverse', side=side)
        # enthalpy -> dry bulb and -> rh (exact inverses where enthalpy is not clamped)
        en = ps.enthalpy_from_db_hr(db, hr, ref)
        if en > 0:
            t_back = ps.db_temp_from_enth_hr(en, hr, ref)
            if not _sub('enthalpy_db_inverse', abs(t_back - db) <= 1e-9 * max(1.0, abs(db), abs(ref))):
                return _fail('db_temp_from_enth_hr(enthalpy_from_db_hr) = db', t_back, clause='enthalpy_db_inverse')
            rh_e = ps.rel_humid_from_db_enth(db, en, p, ref)
            if not _sub('enthalpy_rh_inverse', abs(rh_e - back) <= 1e-7 * max(1.0, back)):
                return _fail('rel_humid_from_db_enth(enthalpy) = %r' % back, rh_e, clause='enthalpy_rh_inverse')
        # dew point: Newton result within the stated 0.1 C of the exact inverse of rel_humid_from_db_dpt
        dpt = ps.dew_point_from_db_rh(db, rh)
        if rh == 0:
            if not _sub('dew_point_rh0', dpt == -273.15):
                return _fail('-273.15 at rh = 0', dpt, clause='dew_point_rh0')
            try:
                rb = ps.rel_humid_from_db_dpt(db, dpt)
                ok = rb == 0
            except Exception as e:
                rb, ok = 'raises ' + type(e).__name__, False
            if not _sub('dew_point_rh0_roundtrip', ok):
                return _fail('rel_humid_from_db_dpt(db, dew_point_from_db_rh(db, 0)) = 0', rb,
                             clause='dpt_roundtrip', branch='rh=0')
        else:
            if not _sub('dew_le_db', dpt <= db):
                return _fail('dew point <= dry bulb', dpt, clause='order', which='dpt<=db')
            lo = ps.rel_humid_from_db_dpt(db, dpt - SOLVER_TOL)
            hi = ps.rel_humid_from_db_dpt(db, dpt + SOLVER_TOL)
            if not _sub('dew_point_inversion', lo <= rh * (1 + 1e-12) and rh <= hi * (1 + 1e-12)):
                return _fail('rh between rel_humid_from_db_dpt(db, dpt -/+ 0.1) = [%r, %r]' % (lo, hi), rh,
                             clause='dpt_roundtrip', branch=side)
        # wet bulb: order, saturation equality, inversion through the ASHRAE relation it was solved from
        wb = ps.wet_bulb_from_db_rh(db, rh, p)
        if not _sub('order_dpt_wb_db', dpt <= wb <= db):
            return _fail('dew point <= wet bulb <= dry bulb', [dpt, wb, db], clause='order', which='dpt<=wb<=db')
        if rh == 100:
            if not _sub('saturation_equality', dpt == db and wb == db):
                return _fail('dew point = wet bulb = dry bulb at rh = 100', [dpt, wb, db], clause='saturation')
        if rh > 0:
            # humid_ratio_from_db_wb switches formula at wb = 0 (ice / water) and is increasing on each side:
            # the solver is right when a solution lies within 0.1 C of its answer on either side
            a, b = max(wb - SOLVER_TOL, dpt - SOLVER_TOL), min(wb + SOLVER_TOL, db)
            slack = 1e-9 * max(hr, 1e-6)
            ok = False
            for lo_t, hi_t in ((a, min(b, -1e-12)), (max(a, 0.0), b)):
                if lo_t <= hi_t:
                    w_lo = ps.humid_ratio_from_db_wb(db, lo_t, p)
                    w_hi = ps.humid_ratio_from_db_wb(db, hi_t, p)
                    if (w_lo <= hr + slack or lo_t <= dpt) and (hr <= w_hi + slack or hi_t >= db):
                        ok = True
            if not _sub('wet_bulb_inversion', ok):
                return _fail('a wet bulb within 0.1 C of %r reproduces the humidity ratio through humid_ratio_from_db_wb' % wb,
                             hr, clause='wb_roundtrip', via='humid_ratio_from_db_wb',
                             branch='wb<0' if wb < 0 else 'wb>=0')
        return None

    if op == 'wb_rh_roundtrip':
        # rel_humid_from_db_wb must invert wet_bulb_from_db_rh within the solver tolerance
        db, rh, p = inp['db'], inp['rh'], inp['p']
        wb = ps.wet_bulb_from_db_rh(db, rh, p)
        lo = ps.rel_humid_from_db_wb(db, wb - SOLVER_TOL, p)
        hi = ps.rel_humid_from_db_wb(db, min(wb + SOLVER_TOL, db), p)
        ok = lo <= rh <= hi or (wb + SOLVER_TOL >= db and lo <= rh)
        if not _sub('rel_humid_from_db_wb_inversion', ok):
            # how far (in wet-bulb degrees) the exact inverse of rel_humid_from_db_wb is from the solver's answer
            a, b = -150.0, db
            for _ in range(60):
                m = (a + b) / 2
                if ps.rel_humid_from_db_wb(db, m, p) > rh:
                    b = m
                else:
                    a = m
            return _fail('rh between rel_humid_from_db_wb(db, wb -/+ 0.1) = [%r, %r]' % (lo, hi), rh,
                         clause='wb_roundtrip', via='rel_humid_from_db_wb',
                         excess=_bucket(abs(wb - a), [1.2]))
        return None

    if op == 'db_from_rh_hr':
        db, rh, p = inp['db'], inp['rh'], inp['p']
        hr = ps.humid_ratio_from_db_rh(db, rh, p)
        back = ps.db_temp_from_rh_hr(rh, hr, p)
        if not _sub('antoine_inverse', abs(back - db) <= ANTOINE_TOL):
            return _fail('db_temp_from_rh_hr(rh, humid_ratio_from_db_rh(db, rh)) = db within %g C' % ANTOINE_TOL, back,
                         clause='db_from_rh_hr', branch='below_freezing' if db < 0 else 'above_freezing',
                         excess=_bucket(abs(back - db), [3.5]))
        return None

    if op == 'rises':
        db, p, r1, r2 = inp['db'], inp['p'], inp['rh1'], inp['rh2']
        ref = inp.get('ref', 0.0)
        h1, h2 = ps.humid_ratio_from_db_rh(db, r1, p), ps.humid_ratio_from_db_rh(db, r2, p)
        if not _sub('hr_rises', h1 < h2):
            return _fail('humidity ratio rises with rh', [h1, h2], clause='rises', metric='humid_ratio')
        e1, e2 = ps.enthalpy_from_db_hr(db, h1, ref), ps.enthalpy_from_db_hr(db, h2, ref)
        if not _sub('enthalpy_rises', e1 <= e2 and (e1 < e2 or e1 == 0)):
            return _fail('enthalpy rises with humidity', [e1, e2], clause='rises', metric='enthalpy')
        d1, d2 = ps.dew_point_from_db_rh(db, r1), ps.dew_point_from_db_rh(db, r2)
        if not _sub('dew_point_rises', d2 >= d1 - SOLVER_TOL and (r2 - r1 < 10 or d2 > d1)):
            return _fail('dew point rises with rh (solver tolerance 0.1)', [d1, d2], clause='rises', metric='dew_point')
        w1, w2 = ps.wet_bulb_from_db_rh(db, r1, p), ps.wet_bulb_from_db_rh(db, r2, p)
        if not _sub('wet_bulb_rises', w2 >= w1 - SOLVER_TOL):
            return _fail('wet bulb rises with rh (solver tolerance 0.1)', [w1, w2], clause='rises', metric='wet_bulb',
                         straddles_wb0=(w1 >= 0) != (w2 >= 0), drop=_bucket(w1 - w2, [1.5]))
        return None

    if op == 'svp':
        t1, t2 = inp['t1'], inp['t2']            # Celsius, t1 < t2
        a, b = svp(t1 + 273.15), svp(t2 + 273.15)
        if not _sub('svp_positive', a > 0 and b > 0):
            return _fail('saturation pressure > 0', [a, b], clause='svp_positive')
        if not _sub('svp_increasing', a < b):
            return _fail('saturation pressure increasing in temperature', [a, b], clause='svp_increasing',
                         straddles=t1 <= 0 < t2)
        for t, v in ((t1, a), (t2, b)):
            if -40 <= t <= 55:
                m = magnus(t)
                if not _sub('magnus_0.6pct', abs(v / m - 1) <= MAGNUS_TOL):
                    return _fail('within 0.6 %% of Magnus %r' % m, v, clause='magnus', side='ice' if t <= 0 else 'water')
        return None

    if op == 'svp_reference':      # only used by the failing-input search (ctx.searching)
        t = inp['t_k']
        v, r = svp(t), reference_svp(t)
        if not abs(v / r - 1) <= 1e-9:
            return _fail('ASHRAE 2017 eq. 5/6 (Hyland-Wexler) value %r within 1e-9' % r, v, clause='svp_reference',
                         side='ice' if t <= 273.15 else 'water')
        return None

    if op == 'continuity':
        lo = svp(273.15)
        hi = svp(math.nextafter(273.15, 300.0))
        j = abs(hi / lo - 1)
        if not _sub('continuous_at_freezing', j <= JUMP_TOL):
            return _fail('relative step at 273.15 K <= %g' % JUMP_TOL, j, clause='continuity')
        return None

    if op == 'derivative':
        # _d_ln_p_ws(db) is the derivative of log(saturated_vapor_pressure(db + 273.15)) on the branch
        # saturated_vapor_pressure uses at db (one-sided at the switch)
        db = inp['db']
        h = 1e-3
        f = lambda x: math.log(svp(x + 273.15))
        if db <= 0:
            num = (3 * f(db) - 4 * f(db - h) + f(db - 2 * h)) / (2 * h)
        else:
            num = (-3 * f(db) + 4 * f(db + h) - f(db + 2 * h)) / (2 * h)
        d = ps._d_ln_p_ws(db)
        if not _sub('dlnpws_is_derivative', abs(d - num) <= 1e-6 * abs(num)):
            return _fail('one-sided numerical derivative of log svp = %r' % num, d, clause='derivative',
                         side='ice' if db <= 0 else 'water', at_zero=db == 0)
        return None

    if op == 'designday':
        from ladybug.designday import HumidityCondition
        ty, v, p, hourly = inp['type'], inp['value'], inp['p'], inp['hourly']
        hc = HumidityCondition(ty, v, p)
        stub = _DbStub(hourly, inp.get('stub') == 'tuple')
        dbm = stub.dry_bulb_max
        day = hc.dew_point(dbm)
        if day == -273.15:           # the humidity value describes no state (rh <= 0): outside the property
            return None
        dpts = hc.hourly_dew_point_values(stub)
        if not _sub('dd_hourly_length', len(dpts) == len(hourly)):
            return _fail('one dew point per hourly dry bulb (%d)' % len(hourly), len(dpts), clause='dd_len', type=ty)
        _cnt('branch:dd_hour_capped' if any(d < day for d in hourly) else 'branch:dd_all_hours_uncapped')
        for dbh, dp in zip(hourly, dpts):
            if not _sub('dd_dew_le_db', dp <= dbh and (dp == day or dp == dbh)):
                return _fail('hourly dew point = min(day dew point, dry bulb)', [dbh, dp, day], clause='dd_cap', type=ty)
            rh = ps.rel_humid_from_db_dpt(dbh, dp)
            if not _sub('dd_rh_range', 0 < rh <= 100 and (rh == 100) == (dp == dbh)):
                return _fail('0 < rh <= 100, 100 exactly when capped', rh, clause='dd_rh', type=ty)
        # the day's dew point reproduces the humidity value it was derived from (at the maximum dry bulb)
        if day <= dbm and day > -273.15:
            rh0 = ps.rel_humid_from_db_dpt(dbm, day)
            if ty == 'HumidityRatio':
                got = ps.humid_ratio_from_db_rh(dbm, rh0, p)
                rh_in = ps.rel_humid_from_db_hr(dbm, v, p)
                ok = rh_in > 100 or (ps.rel_humid_from_db_dpt(dbm, day - SOLVER_TOL) <= rh_in * (1 + 1e-9)
                                     and rh_in <= ps.rel_humid_from_db_dpt(dbm, day + SOLVER_TOL) * (1 + 1e-9))
            elif ty == 'Enthalpy':
                got = rh0
                rh_in = ps.rel_humid_from_db_enth(dbm, v / 1000.0, p)
                ok = rh_in > 100 or rh_in <= 0 or (
                    ps.rel_humid_from_db_dpt(dbm, day - SOLVER_TOL) <= rh_in * (1 + 1e-9)
                    and rh_in <= ps.rel_humid_from_db_dpt(dbm, day + SOLVER_TOL) * (1 + 1e-9))
            elif ty == 'Wetbulb':
                got = rh0
                rh_in = ps.rel_humid_from_db_wb(dbm, v, p)
                ok = rh_in > 100 or rh_in <= 0 or (
                    ps.rel_humid_from_db_dpt(dbm, day - SOLVER_TOL) <= rh_in * (1 + 1e-9)
                    and rh_in <= ps.rel_humid_from_db_dpt(dbm, day + SOLVER_TOL) * (1 + 1e-9))
            else:
                got, ok = day, day == v
            if not _sub('dd_value_roundtrip', ok):
                return _fail('day dew point consistent with the %s value %r' % (ty, v), got, clause='dd_roundtrip', type=ty)
        return None

    if op == 'dd_object':
        # the humidity profile of a real DesignDay object: the relations of the statement between
        # hourly_dry_bulb, hourly_dew_point and hourly_relative_humidity
        dd = _make_designday(inp)
        ty = inp['type']
        day = dd.humidity_condition.dew_point(dd.dry_bulb_condition.dry_bulb_max)
        if day == -273.15:           # the humidity value describes no state (rh <= 0): outside the property
            return None
        dbs = list(dd.hourly_dry_bulb.values)
        dps = list(dd.hourly_dew_point.values)
        rhs = list(dd.hourly_relative_humidity.values)
        if not _sub('ddobj_lengths', len(dbs) == len(dps) == len(rhs) == 24):
            return _fail('24 hourly values each', [len(dbs), len(dps), len(rhs)], clause='ddobj_len', type=ty)
        capped = any(d < day for d in dbs)
        for h, (db, dp, rh) in enumerate(zip(dbs, dps, rhs)):
            if not _sub('ddobj_dew_le_db', dp <= db):
                return _fail('hourly dew point <= hourly dry bulb (hour %d: db %r)' % (h, db), dp,
                             clause='ddobj_dew_le_db', type=ty, capped_day=capped)
            if not _sub('ddobj_dew_is_day_or_db', dp == (day if day <= db else db)):
                return _fail('hour %d: dew point = day dew point %r where that is below the dry bulb %r, else the '
                             'dry bulb' % (h, day, db), dp, clause='ddobj_dew_profile', type=ty, capped_day=capped)
            if not _sub('ddobj_rh_range', 0 < rh <= 100 + 1e-9):
                return _fail('hour %d: 0 < rh <= 100 (db %r, dew point %r)' % (h, db, dp), rh,
                             clause='ddobj_rh_range', type=ty, capped_day=capped)
            want = ps.rel_humid_from_db_dpt(db, dp)
            if not _sub('ddobj_rh_consistent', abs(rh - want) <= 1e-9 * max(1.0, abs(want))):
                return _fail('hour %d: rh = rel_humid_from_db_dpt(hourly_dry_bulb, hourly_dew_point) = %r' % (h, want),
                             rh, clause='ddobj_rh_consistent', type=ty, capped_day=capped)
        return None

    if op == 'chart':
        par = tuple(inp['par'])
        tv, rv = inp['t'], inp['rh']
        use_ip, bx, by, xd, yd, tmin, tmax, p = par
        ch = _make_chart(par, tv, rv)
        pts = ch.data_points
        prev = None
        _cnt(_chart_offchart(par, tv))
        _cnt(_chart_repeats(tv, rv))
        # positional: one point per state of the data, on the chart or not (only the coloured mesh leaves states out)
        if not _sub('chart_one_point_per_state', len(pts) == len(tv)):
            return _fail('data_points has one entry per state of the data: %d' % len(tv), len(pts),
                         clause='chart_data_points_length', ip=use_ip, data=_chart_offchart(par, tv))
        for i, (tc, rh) in enumerate(zip(tv, rv)):
            t_chart = tc * 9. / 5. + 32. if use_ip else tc
            q = ch.plot_point(t_chart, rh)
            d = pts[i]
            if not _sub('chart_plot_eq_data', abs(q.x - d.x) <= 1e-9 * max(1, abs(d.x)) and
                        abs(q.y - d.y) <= 1e-9 * max(1, abs(d.y))):
                return _fail('plot_point = data_points[%d] = %r' % (i, (d.x, d.y)), (q.x, q.y), clause='chart_plot', ip=use_ip)
            # coordinates invert to the state
            t_back = tmin + (d.x - bx) / xd
            hr_back = (d.y - by) / yd
            rh_back = ps.rel_humid_from_db_hr(tc, hr_back, p)
            if not _sub('chart_inverts', abs(t_back - t_chart) <= 1e-9 * max(1, abs(t_chart)) and
                        abs(rh_back - rh) <= HR_RH_BOUND * rh + 1e-7):
                return _fail('chart coordinates convert back to (t, rh) = %r' % ((t_chart, rh),), (t_back, rh_back),
                             clause='chart_inverse', ip=use_ip)
            q2 = ch.plot_point(t_chart, min(100.0, rh + 5.0))
            if rh + 5.0 <= 100.0 and not _sub('chart_y_rises', q2.y > q.y and q2.x == q.x):
                return _fail('y rises with rh, x unchanged', [(q.x, q.y), (q2.x, q2.y)], clause='chart_rises', ip=use_ip)
        return None

    if op in _R3_OPS:
        return _R3_OPS[op](inp)
    raise ValueError('unknown op ' + op)


def replay(op, inp):
    del _SUB[:]
    del _CNT[:]
    return check_case(op, inp)


FIXED = [
    ('state', {'db': 30.0, 'rh': 50.0, 'p': 101325.0}),
    ('state', {'db': 30.0, 'rh': 100.0, 'p': 101325.0}),
    ('state', {'db': -20.0, 'rh': 100.0, 'p': 101325.0}),
    ('state', {'db': -20.0, 'rh': 50.0, 'p': 101325.0, 'ref': -17.78}),
    ('state', {'db': 0.0, 'rh': 50.0, 'p': 101325.0}),
    ('state', {'db': 0.0, 'rh': 100.0, 'p': 60000.0}),
    ('state', {'db': 1e-9, 'rh': 80.0, 'p': 101325.0}),
    ('state', {'db': -1e-9, 'rh': 80.0, 'p': 101325.0}),
    ('state', {'db': 5.0, 'rh': 35.0, 'p': 87300.0}),           # wet bulb just above 0 C
    ('state', {'db': 4.0, 'rh': 30.0, 'p': 101325.0}),           # wet bulb just below 0 C
    ('state', {'db': 55.0, 'rh': 100.0, 'p': 60000.0}),
    ('state', {'db': -40.0, 'rh': 1.0, 'p': 105000.0}),
    ('state', {'db': 20.0, 'rh': 0.0, 'p': 101325.0}),           # known finding C09-rh0-dew-point-roundtrip
    ('wb_rh_roundtrip', {'db': 40.0, 'rh': 20.0, 'p': 101325.0}),   # known finding C09-rh-from-wb-not-inverse
    ('db_from_rh_hr', {'db': -40.0, 'rh': 80.0, 'p': 90000.0}),     # known finding C09-antoine-below-freezing
    ('db_from_rh_hr', {'db': 20.0, 'rh': 50.0, 'p': 101325.0}),
    ('rises', {'db': 11.581553612703566, 'p': 77495.05896094989, 'rh1': 2.9469781905916226,
               'rh2': 3.0469781905916227}),            # known finding C09-wet-bulb-drops-at-0C
    ('continuity', {}),
    ('derivative', {'db': 0.0}),
    ('derivative', {'db': -1e-9}),
    ('derivative', {'db': 1e-9}),
    ('derivative', {'db': -40.0}),
    ('derivative', {'db': 55.0}),
    ('svp', {'t1': -1e-9, 't2': 1e-9}),
    ('svp', {'t1': 0.0, 't2': 1e-13}),
    ('svp', {'t1': -40.0, 't2': 55.0}),
    ('rises', {'db': 25.0, 'p': 101325.0, 'rh1': 0.0, 'rh2': 100.0}),
    ('rises', {'db': -10.0, 'p': 70000.0, 'rh1': 40.0, 'rh2': 41.0}),
    ('designday', {'type': 'Wetbulb', 'value': 23.0, 'p': 101325.0,
                   'hourly': [32.0 - 10.0 * abs(math.sin(i / 7.0)) for i in range(24)] + []}),
    ('designday', {'type': 'Dewpoint', 'value': 18.0, 'p': 101325.0,
                   'hourly': [15.0 + i / 2.0 for i in range(24)]}),
    # real DesignDay objects: humid day with a large range (saturation-clamped at night), all 4 humidity types
    ('dd_object', {'type': 'Wetbulb', 'value': 27.0, 'p': 101325.0, 'db_max': 32.0, 'db_range': 12.0}),
    ('dd_object', {'type': 'Dewpoint', 'value': 24.0, 'p': 101325.0, 'db_max': 28.0, 'db_range': 12.0}),
    ('dd_object', {'type': 'HumidityRatio', 'value': 0.0185, 'p': 101325.0, 'db_max': 32.0, 'db_range': 12.0}),
    ('dd_object', {'type': 'Enthalpy', 'value': 79500.0, 'p': 101325.0, 'db_max': 32.0, 'db_range': 12.0}),
    ('dd_object', {'type': 'Wetbulb', 'value': 27.0, 'p': 84000.0, 'db_max': 32.0, 'db_range': 2.0}),
    ('dd_object', {'type': 'Dewpoint', 'value': 11.0, 'p': 101325.0, 'db_max': 34.9, 'db_range': 11.3}),  # dry day
    ('dd_object', {'type': 'Dewpoint', 'value': -12.0, 'p': 70000.0, 'db_max': -8.0, 'db_range': 10.0}),  # below 0 C
]


def _oracle_cases(ctx):
    rng = ctx.rng
    for c in FIXED:
        yield c
    big = ctx.searching or not ctx.quick
    n = 40000 if big else 2500
    if ctx.searching:
        # after a broken tie: the published-coefficient reference locates changed constants exactly
        for k in range(-40, 56):
            yield 'svp_reference', {'t_k': k + 273.15}
        for k in range(-3, 4):
            yield 'svp_reference', {'t_k': 273.15 + k * _ULP}
    for _ in range(n):
        db, rh, p = _db(rng), _rh_met(rng), _p(rng)
        ctx.count('oracle:' + ('db<=0' if db <= 0 else 'db>0'))
        yield 'state', {'db': db, 'rh': rh, 'p': p, 'ref': _ref(rng)}
    for _ in range(n // 5):
        db, rh, p = _db(rng), max(_rh_met(rng), 0.5), _p(rng)
        yield 'wb_rh_roundtrip', {'db': db, 'rh': rh, 'p': p}
        yield 'db_from_rh_hr', {'db': db, 'rh': max(rh, 1.0), 'p': p}
    for _ in range(n // 2):
        db, p = _db(rng), _p(rng)
        r1, r2 = sorted((_rh_met(rng), _rh_met(rng)))
        if r1 == r2:
            continue
        if rng.random() < 0.2:
            r2 = min(100.0, max(0.01, r1 + rng.choice([1e-6, 1e-3, 0.1, 1.0])))
            if r2 <= r1:
                continue
        yield 'rises', {'db': db, 'p': p, 'rh1': r1, 'rh2': r2, 'ref': _ref(rng)}
    for _ in range(n):
        t1, t2 = sorted((_db(rng), _db(rng)))
        if rng.random() < 0.3:
            t2 = t1 + rng.choice([1e-9, 1e-6, 1e-3, 0.1])
        if t1 < t2:
            yield 'svp', {'t1': t1, 't2': t2}
    for k in range(-4000, 5501, 1 if big else 25):          # Magnus on the whole range, 0.01 C steps (thorough)
        yield 'svp', {'t1': k / 100.0, 't2': k / 100.0 + 0.005}
    for _ in range(n // 2):
        yield 'derivative', {'db': _db(rng)}
    for _ in range(n // 10):
        ty, v, p, hourly = _dd_case(rng)
        yield 'designday', {'type': ty, 'value': v, 'p': p, 'hourly': hourly, 'stub': rng.choice(['list', 'tuple'])}
    for _ in range(25 if big else 3):
        for ty in ('Dewpoint', 'Wetbulb', 'HumidityRatio', 'Enthalpy'):
            for humid in (True, False):
                for large in (True, False):
                    c = _dd_object_case(rng, ty, humid, large)
                    ctx.count('ddobj:%s:%s:%s' % (ty, 'humid' if humid else 'dry', 'large' if large else 'small'))
                    yield 'dd_object', c
    for _ in range(300 if big else 15):
        par = _chart_params(rng)
        tv, rv = _chart_data(rng, par)
        yield 'chart', {'par': list(par), 't': tv, 'rh': rv}
    for c in _oracle_cases_r3(ctx, big):
        yield c


def oracle(ctx):
    seen = {}

    def run(op, inp):
        del _SUB[:]
        del _CNT[:]
        try:
            res = check_case(op, inp)
        finally:
            for name, ok in _SUB:
                ctx.subclaim(name, ok)
            for k in _CNT:
                ctx.count(k)
        if res:
            # keep at most 3 failing inputs per signature so that one (possibly known) defect does not
            # exhaust the failure budget of the search; every failure is still counted in the sub-claim
            k = repr(sorted(res['sig'].items()))
            seen[k] = seen.get(k, 0) + 1
            if seen[k] > 3:
                ctx.count('oracle_failures_not_listed')
                return None
        return res
    core.run_oracle_cases(ctx, _oracle_cases(ctx), run)


# =============================================================================================
# ROUND 3: histories on one object / in one process, refused operations, entry points (consumers of one
# producer), rare input classes, process-order independence.
#
# Producers and their consumers (every consumer is exercised below; kind (a) changes are caught by the
# consumer that was NOT touched):
#   saturated_vapor_pressure / _d_ln_p_ws   <- every function of psychrometrics.py (call histories `calls`,
#       `state`, `routes`, `svp`, `derivative`), HumidityCondition.dew_point, chart coordinates
#   dew_point_from_db_rh (Newton, "no vapour -> -273.15")  <- dew_point_from_db_hr / _enth / _wb (`routes`),
#       wet_bulb_from_db_rh (lower bracket), HumidityCondition.dew_point for Wetbulb/HumidityRatio/Enthalpy
#   wet_bulb_from_db_rh  <- wet_bulb_from_db_hr (`routes`)
#   humid_ratio_from_db_rh  <- wet_bulb_from_db_rh, db_temp_and_hr_from_wb_rh, PsychrometricChart.plot_point,
#       data_points, relative_humidity_polyline (rh_lines, saturation_line), temperature_lines, chart_border,
#       colored_mesh vertices (`chart_history`)
#   HumidityCondition (type, value, pressure) / DryBulbCondition (max, range)  <- entry points DesignDay(...),
#       from_design_day_properties, from_dict, from_idf, DDY.from_ddy_file, from_ashrae_dict_heating/cooling;
#       serial forms to_dict, to_idf, duplicate; derived quantities dew_point(db), hourly_dew_point_values,
#       hourly_dew_point, hourly_relative_humidity, hourly_barometric_pressure, hourly_horizontal_infrared
#       (`dd_history`, `dd_entry`)
#   PsychrometricChart(...)  <- from_dict(to_dict()), lazily filled slots _data_points, _chart_border,
#       _enth_lines, _wb_lines, _colored_mesh (`chart_history`)
# psychrometrics.py itself is stateless (pure functions): its histories are call sequences in one process
# (partial-key repeats, failing calls first) and the same cases in fresh processes in different orders.

import json as _json
import os as _os
import subprocess as _subprocess
import sys as _sys

_MULT = (0.82, 0.88, 0.92, 0.95, 0.98, 1, 0.98, 0.91, 0.74, 0.55, 0.38, 0.23, 0.13, 0.05, 0, 0, 0.06, 0.14,
         0.24, 0.39, 0.5, 0.59, 0.68, 0.75)          # ASHRAE default daily range multipliers (E+ DefaultMultipliers)
DD_TYPES = ('Wetbulb', 'Dewpoint', 'HumidityRatio', 'Enthalpy')
DD_FIELDS = ('type', 'value', 'p', 'db_max', 'db_range')
DD_ENTRIES = ('ctor', 'props', 'dict', 'idf', 'ddy')
_BADARG = {'bad:str': 'x', 'bad:none': None, 'bad:list': [1.0]}
_ROOT = _os.path.normpath(_os.path.join(_os.path.dirname(_os.path.abspath(__file__)), '..', '..'))


def _is_bad(arg):
    return isinstance(arg, str) and arg.startswith('bad:')


def _pyarg(arg):
    return _BADARG[arg] if _is_bad(arg) else arg


def _hum_value(rng, ty, db_max, p, humid=None):
    """A humidity value of the given type that describes a possible state at db_max (independent Magnus formula)."""
    humid = (rng.random() < 0.5) if humid is None else humid
    dep = rng.uniform(0.5, 6.0) if humid else rng.uniform(12.0, 25.0)
    if rng.random() < 0.08:
        dep = rng.choice([0.0, 0.0, -2.0])       # exactly saturated at the maximum dry bulb / above saturation
    dpt = db_max - dep
    pw = magnus(dpt)
    w = 0.622 * pw / (p - pw) if p > pw else 0.01
    if ty == 'Dewpoint':
        return dpt
    if ty == 'Wetbulb':
        a, b = db_max - 60.0, db_max
        for _ in range(50):
            m = (a + b) / 2.0
            if magnus(m) - p * 6.6e-4 * (db_max - m) > pw:
                b = m
            else:
                a = m
        return b
    if ty == 'HumidityRatio':
        return w
    return 1000.0 * (1.006 * db_max + w * (2501.0 + 1.86 * db_max))


def _dd_apply(st, name, arg):
    """The public state the user has established after one operation (plain Python, mirrors the validation
    rules that can be read in designday.py): returns (state, 'set' | 'refused' | 'read')."""
    if name in DD_FIELDS:
        if _is_bad(arg):
            return st, 'refused'
        if name == 'type' and arg not in DD_TYPES:
            return st, 'refused'
        if name == 'db_range' and not arg >= 0:
            return st, 'refused'
        st = dict(st)
        st[name] = arg
        return st, 'set'
    if name == 'swap_hc':
        st = dict(st)
        st.update({'type': arg['type'], 'value': arg['value'], 'p': arg['p']})
        return st, 'set'
    if name == 'swap_dbc':
        if not arg['db_range'] >= 0:
            return st, 'refused'
        st = dict(st)
        st.update({'db_max': arg['db_max'], 'db_range': arg['db_range']})
        return st, 'set'
    if name in ('bad_hc', 'bad_dbc'):
        return st, 'refused'
    return st, 'read'


def _idf_restyle(text, style):
    """The same IDF object in another legal text form (kind i): numbers in exponent notation happen in
    _idf_text; here line ends, comments and padding."""
    if style == 'crlf':
        return text.replace('\n', '\r\n')
    if style == 'oneline':          # no comments, everything on one line
        body = [ln.split('!')[0].strip() for ln in text.split('\n')]
        return ''.join(b for b in body if b) + '\n'
    if style == 'pad':
        return '\n\n   ' + text.replace(',    !-', '  ,\t!-') + '\n\n'
    return text


def _idf_text(st, name='d', style=None):
    """A SizingPeriod:DesignDay object written by hand in the field order of the EnergyPlus IDD
    (Wetbulb/Dewpoint in field 10 [C], humidity ratio in field 12 [kg/kg], enthalpy in field 13 [J/kg])."""
    ty, v = st['type'], st['value']
    repr = (lambda x: '%.16E' % x) if style == 'exp' else (lambda x: '+' + __builtins_repr(x) if style == 'pad' and x > 0
                                                          else __builtins_repr(x))
    f10 = repr(v) if ty in ('Wetbulb', 'Dewpoint') else ''
    f12 = repr(v) if ty == 'HumidityRatio' else ''
    f13 = repr(v) if ty == 'Enthalpy' else ''
    rows = [(name, 'Name'), (7, 'Month'), (21, 'Day of Month'), ('SummerDesignDay', 'Day Type'),
            (repr(st['db_max']), 'Maximum Dry-Bulb Temperature {C}'),
            (repr(st['db_range']), 'Daily Dry-Bulb Temperature Range {deltaC}'),
            ('DefaultMultipliers', 'Dry-Bulb Temperature Range Modifier Type'),
            ('', 'Dry-Bulb Temperature Range Modifier Day Schedule Name'),
            (ty, 'Humidity Condition Type'), (f10, 'Wetbulb or DewPoint at Maximum Dry-Bulb {C}'),
            ('', 'Humidity Condition Day Schedule Name'),
            (f12, 'Humidity Ratio at Maximum Dry-Bulb {kgWater/kgDryAir}'),
            (f13, 'Enthalpy at Maximum Dry-Bulb {J/kg}'), ('', 'Daily Wet-Bulb Temperature Range {deltaC}'),
            (repr(st['p']), 'Barometric Pressure {Pa}'), (2.0, 'Wind Speed {m/s}'), (180.0, 'Wind Direction {deg}'),
            ('No', 'Rain Indicator'), ('No', 'Snow Indicator'), ('No', 'Daylight Saving Time Indicator'),
            ('ASHRAEClearSky', 'Solar Model Indicator'), ('', 'Beam Solar Day Schedule Name'),
            ('', 'Diffuse Solar Day Schedule Name'), ('', 'taub'), ('', 'taud'), (1.0, 'Sky Clearness')]
    out = ['SizingPeriod:DesignDay,\n']
    for i, (val, com) in enumerate(rows):
        out.append('  %s%s    !- %s\n' % (val, ';' if i == len(rows) - 1 else ',', com))
    return _idf_restyle(''.join(out), style)


__builtins_repr = repr


def _idf_parse(text):
    """Independent reading of a SizingPeriod:DesignDay text -> [type index, value, pressure, db_max, db_range]."""
    body = []
    for ln in text.split('\n'):
        ln = ln.split('!')[0].strip()
        if ln:
            body.append(ln)
    fields = [x.strip() for x in ''.join(body).rstrip(';').split(',')]
    ty = fields[9]
    raw = {'Wetbulb': fields[10], 'Dewpoint': fields[10], 'HumidityRatio': fields[12], 'Enthalpy': fields[13]}[ty]
    return [float(DD_TYPES.index(ty)), float(raw), float(fields[15]), float(fields[5]), float(fields[6])]


def _dd_location():
    from ladybug.location import Location
    return Location('c09', '-', '-', 40.0, -75.0, -5.0, 10.0)


def _dd_build(entry, st, style=None):
    """One real DesignDay with the stated humidity / dry-bulb inputs, through one of the public entry points
    (style: another legal form of the same input - text form of the IDF, key order of the dictionary, tuple for list)."""
    from ladybug.designday import (DesignDay, DryBulbCondition, HumidityCondition, WindCondition, ASHRAEClearSky)
    from ladybug.dt import Date
    loc = _dd_location()
    if entry == 'ctor':
        return DesignDay('d', 'SummerDesignDay', loc, DryBulbCondition(st['db_max'], st['db_range']),
                         HumidityCondition(st['type'], st['value'], st['p']), WindCondition(2.0, 180.0),
                         ASHRAEClearSky(Date(7, 21), 1.0))
    if entry == 'props':
        return DesignDay.from_design_day_properties(
            'd', 'SummerDesignDay', loc, Date(7, 21), st['db_max'], st['db_range'], st['type'], st['value'],
            st['p'], 2.0, 180.0, 'ASHRAEClearSky', (1.0,) if style else [1.0])
    if entry == 'dict':
        return DesignDay.from_dict((_rev_dict if style else dict)({
            'type': 'DesignDay', 'name': 'd', 'day_type': 'SummerDesignDay',
            'location': {'type': 'Location', 'city': 'c09', 'latitude': 40.0, 'longitude': -75.0,
                         'time_zone': -5.0, 'elevation': 10.0},
            'dry_bulb_condition': {'type': 'DryBulbCondition', 'dry_bulb_max': st['db_max'],
                                   'dry_bulb_range': st['db_range']},
            'humidity_condition': {'type': 'HumidityCondition', 'humidity_type': st['type'],
                                   'humidity_value': st['value'], 'barometric_pressure': st['p']},
            'wind_condition': {'type': 'WindCondition', 'wind_speed': 2.0, 'wind_direction': 180.0},
            'sky_condition': {'type': 'ASHRAEClearSky', 'date': [7, 21], 'clearness': 1.0}}))
    if entry == 'idf':
        return DesignDay.from_idf(_idf_text(st, 'd', style), loc)
    if entry == 'ddy':
        import shutil
        import tempfile
        from ladybug.ddy import DDY
        d = tempfile.mkdtemp(prefix='c09_')
        try:
            path = _os.path.join(d, 'x.ddy')
            with open(path, 'w') as f:
                f.write('Site:Location,\n  c09,    !- Name\n  40.0,    !- Latitude\n  -75.0,    !- Longitude\n'
                        '  -5.0,    !- Time Zone\n  10.0;    !- Elevation\n\n')
                f.write(_idf_text(st, 'd', None if style == 'oneline' else style))
                f.write('\n')
            return DDY.from_ddy_file(path).design_days[0]
        finally:
            shutil.rmtree(d, ignore_errors=True)
    raise ValueError(entry)


def _rev_dict(d):
    """The same dictionary with every level in reverse insertion order."""
    return dict((k, _rev_dict(v) if isinstance(v, dict) else v) for k, v in reversed(list(d.items())))


def _dd_profiles(dd):
    return list(dd.hourly_dew_point.values) + list(dd.hourly_relative_humidity.values)


def _dd_read(dd, name, arg):
    hc, dbc = dd.humidity_condition, dd.dry_bulb_condition
    if name == 'dew':
        return [hc.dew_point(dbc.dry_bulb_max)]
    if name == 'dew_at':
        return [hc.dew_point(arg)]
    if name == 'hdb':
        return list(dd.hourly_dry_bulb.values)
    if name == 'hdew':
        return list(dd.hourly_dew_point.values)
    if name == 'hdpv':
        return list(hc.hourly_dew_point_values(dbc))
    if name == 'hrh':
        return list(dd.hourly_relative_humidity.values)
    if name == 'hp':
        return list(dd.hourly_barometric_pressure.values)
    if name == 'hir':
        return list(dd.hourly_horizontal_infrared.values)
    if name == 'dict':
        d = dd.to_dict()
        h, b = d['humidity_condition'], d['dry_bulb_condition']
        return [float(DD_TYPES.index(h['humidity_type'])), h['humidity_value'], h['barometric_pressure'],
                b['dry_bulb_max'], b['dry_bulb_range']]
    if name == 'idf':
        return _idf_parse(dd.to_idf())
    if name == 'dup':
        return _dd_profiles(dd.duplicate())
    if name == 'dup_set':
        # change every humidity input of a DUPLICATE: the original's later reads must not notice
        d2 = dd.duplicate()
        d2.humidity_condition.barometric_pressure = arg['p']
        d2.humidity_condition.humidity_value = arg['value']
        d2.dry_bulb_condition.dry_bulb_max = arg['db_max']
        d2.dry_bulb_condition.dry_bulb_range = arg['db_range']
        try:
            d2.hourly_relative_humidity
        except Exception:
            pass                       # the duplicate's new inputs need not describe a state
        return []
    if name == 'edit_hdpv':            # the list handed out is the caller's: editing it must not change later answers
        l = hc.hourly_dew_point_values(dbc)
        if isinstance(l, list):
            l.reverse()
            l[:] = [x + 50.0 for x in l][:7]
        return []
    if name == 'edit_hdb':
        l = dbc.hourly_values
        if isinstance(l, list):
            l[:] = [-99.0] * 3
        return []
    if name == 'edit_hp':
        l = hc.hourly_pressure
        if isinstance(l, list):
            l[:] = [1.0] * 24
        return []
    if name == 'edit_dict':
        for d in (dd.to_dict(), {'humidity_condition': hc.to_dict(), 'dry_bulb_condition': dbc.to_dict()}):
            d['humidity_condition']['barometric_pressure'] = 5.0
            d['humidity_condition']['humidity_value'] = -99
            d['humidity_condition']['humidity_type'] = 'Dewpoint'
            d['dry_bulb_condition'].clear()
        return []
    if name == 'edit_coll':
        for c in (dd.hourly_dew_point, dd.hourly_relative_humidity, dd.hourly_dry_bulb, dd.hourly_barometric_pressure):
            c.values = [0.5] * 24
            c[3] = 77.0
            c.header.metadata['city'] = 'edited'
        return []
    if name == 'keep':                 # keep a result, ask again, edit the second answer: the first is unchanged
        a = hc.hourly_dew_point_values(dbc)
        b = hc.hourly_dew_point_values(dbc)
        if isinstance(b, list):
            b[:] = [0.0]
        c = dd.hourly_dew_point
        dd.hourly_dew_point.values = [1.0] * 24
        return list(a) if list(a) == list(c.values) else list(a) + [float('nan')]
    if name == 'redict':
        return _dd_profiles(type(dd).from_dict(dd.to_dict()))
    if name == 'reidf':
        return _dd_profiles(type(dd).from_idf(dd.to_idf(), dd.location))
    raise ValueError('unknown read ' + name)


def _dd_do(dd, name, arg):
    """Execute one operation on the real object: ('set',) | ('refused', exc) | ('vals', [..]) | ('raises', exc)
    | ('zero',) (ZeroDivisionError: the documented -273.15 dew point fed to saturated_vapor_pressure)."""
    from ladybug.designday import DryBulbCondition, HumidityCondition
    if name in DD_FIELDS or name in ('swap_hc', 'swap_dbc', 'bad_hc', 'bad_dbc'):
        try:
            if name == 'type':
                dd.humidity_condition.humidity_type = _pyarg(arg)
            elif name == 'value':
                dd.humidity_condition.humidity_value = _pyarg(arg)
            elif name == 'p':
                dd.humidity_condition.barometric_pressure = _pyarg(arg)
            elif name == 'db_max':
                dd.dry_bulb_condition.dry_bulb_max = _pyarg(arg)
            elif name == 'db_range':
                dd.dry_bulb_condition.dry_bulb_range = _pyarg(arg)
            elif name == 'swap_hc':
                dd.humidity_condition = HumidityCondition(arg['type'], arg['value'], arg['p'])
            elif name == 'swap_dbc':
                dd.dry_bulb_condition = DryBulbCondition(arg['db_max'], arg['db_range'])
            elif name == 'bad_hc':
                dd.humidity_condition = _pyarg(arg)
            elif name == 'bad_dbc':
                dd.dry_bulb_condition = _pyarg(arg)
        except Exception as e:
            return ('refused', type(e).__name__)
        return ('set',)
    try:
        r = [float(v) for v in _dd_read(dd, name, arg)]
    except ZeroDivisionError:
        return ('zero',)
    except Exception as e:
        return ('raises', type(e).__name__)
    if not all(math.isfinite(v) for v in r):
        return ('raises', 'nonfinite')
    return ('vals', r)


def _dd_run(inp):
    """Run a whole history on real objects (object 0 and, when present, its twin as object 1).
    Returns the list of outcomes and the public states tracked alongside."""
    sts = [dict(inp['init'])]
    if inp.get('twin'):
        t = dict(inp['init'])
        t.update(inp['twin'])
        sts.append(t)
    objs = [_dd_build(inp['entry'], s, inp.get('style')) for s in sts]
    out = []
    for k, name, arg in inp['ops']:
        res = _dd_do(objs[k], name, arg)
        before = sts[k]
        sts[k], verdict = _dd_apply(sts[k], name, arg)
        out.append({'obj': k, 'name': name, 'arg': arg, 'res': res, 'verdict': verdict, 'before': before,
                    'state': sts[k]})
    return out


def _dd_tokens(name, arg):
    """Model tokens of one operation (drv_c09 `ddhist`); None = not modelled (oracle only)."""
    def opt(tag, a):
        return '%s:%s' % (tag, '?' if _is_bad(a) else _fbits(a))
    if name == 'type':
        return ['T:' + (arg if arg in DD_TYPES else '?')]
    if name == 'value':
        return [opt('V', arg)]
    if name == 'p':
        return [opt('P', arg)]
    if name == 'db_max':
        return [opt('M', arg)]
    if name == 'db_range':
        return [opt('R', arg)]
    if name == 'swap_hc':
        return ['T:' + arg['type'], opt('V', arg['value']), opt('P', arg['p'])]
    if name == 'swap_dbc':
        if not arg['db_range'] >= 0:
            return [opt('R', arg['db_range'])]
        return [opt('M', arg['db_max']), opt('R', arg['db_range'])]
    if name == 'bad_hc':
        return ['T:?']
    if name == 'bad_dbc':
        return ['R:?']
    return {'dew': ['d'], 'dew_at': ['a:' + _fbits(arg)] if name == 'dew_at' else None, 'hdb': ['b'], 'hdew': ['h'],
            'hdpv': ['h'], 'keep': ['h'], 'hrh': ['r'], 'hp': ['p'], 'dup': ['h', 'r'], 'redict': ['h', 'r'],
            'reidf': ['h', 'r']}.get(name)


def _dd_model_lines(inp):
    """One `ddhist` line per object and, per operation, the slice of answers that belongs to it."""
    sts = [dict(inp['init'])]
    if inp.get('twin'):
        t = dict(inp['init'])
        t.update(inp['twin'])
        sts.append(t)
    toks = [[] for _ in sts]
    where = []
    for k, name, arg in inp['ops']:
        t = _dd_tokens(name, arg)
        if t is None:
            where.append(None)
        else:
            where.append((k, len(toks[k]), len(t)))
            toks[k].extend(t)
    lines = ['ddhist %s %s %s' % (s['type'], ' '.join(_fbits(s[f]) for f in DD_FIELDS[1:]), ' '.join(tk))
             for s, tk in zip(sts, toks)]
    return lines, where


def _dd_model_answer(parts):
    """Combine the model's answers of one operation: 'set' | 'refused' | 'nonfinite' | [floats]."""
    if any(p == 'refused' for p in parts):
        return 'refused'
    if all(p == 'set' for p in parts):
        return 'set'
    if any(p == 'nonfinite' for p in parts):
        return 'nonfinite'
    vals = []
    for p in parts:
        vals.extend(_fromb(t) for t in p.split()[1:])
    return vals


def _dd_compare_model(ctx, tag, inp, records):
    """Step-by-step comparison of a history executed on real objects with the Lean state machine."""
    lines, where = _dd_model_lines(inp)
    outs = ctx.driver().run(lines)
    answers = []
    for o in outs:
        if not o.startswith('ok'):
            ctx.disagree(tag, {'history': inp, 'line': lines[0][:200]}, o, 'model rejected the history')
            return
        answers.append([x.strip() for x in o[2:].split('|')])
    for i, (rec, w) in enumerate(zip(records, where)):
        if w is None:
            continue
        res = rec['res']
        if res[0] == 'zero':
            ctx.count('skipped_zero_division')
            continue
        k, a, n = w
        m = _dd_model_answer(answers[k][a:a + n])
        ctx.compared += 1
        ctx.count('op:' + tag + ':' + rec['name'])
        if res[0] == 'set':
            ok = m == 'set'
        elif res[0] == 'refused':
            ok = m == 'refused'
        elif res[0] == 'raises':
            ok = m == 'nonfinite'
        else:
            ok = isinstance(m, list) and len(m) == len(res[1]) and all(_close(x, y, 1e-9) for x, y in zip(m, res[1]))
            if ok and m == res[1]:
                ctx.count('bit_exact')
        ctx.case((tag, lines[k], i), nontrivial=res[0] in ('vals', 'set', 'refused'))
        if not ok:
            ctx.disagree(tag, {'history': inp, 'step': i, 'op': [rec['obj'], rec['name'], rec['arg']]},
                         repr(m)[:300], repr(res)[:300])
            return


def _dd_history_case(rng, ctx=None, entry=None, rare=None):
    """One generated history on one design day (and sometimes a twin object that differs in one field)."""
    ty = rng.choice(DD_TYPES)
    db_max = rng.choice([rng.uniform(20, 45), rng.uniform(-5, 20), rng.uniform(-30, -5), 32.0, 0.0, 8.0, 32])
    db_range = rng.choice([0.0, 0, rng.uniform(0, 3), rng.uniform(8, 16), 12.0])
    p = rng.choice([_p(rng), 101325, 101325.0])
    st = {'type': ty, 'value': _hum_value(rng, ty, db_max, p), 'p': p, 'db_max': db_max, 'db_range': db_range}
    if rare == 'zero' or (rare is None and rng.random() < 0.08):
        # falsy humidity values that are perfectly good states: dew point / wet bulb of exactly 0 C
        st.update({'type': rng.choice(['Dewpoint', 'Wetbulb']), 'value': rng.choice([0.0, 0]),
                   'db_max': rng.choice([0.5, 3.0, 8.0])})
        ty = st['type']
    entry = entry or rng.choice(DD_ENTRIES)
    inp = {'entry': entry, 'init': st, 'twin': None, 'ops': []}
    if rng.random() < 0.5:
        inp['style'] = rng.choice(['exp', 'crlf', 'oneline', 'pad', 'exp'])     # another legal form of the same input
    if rng.random() < 0.35:
        f = rng.choice(['value', 'p', 'db_max', 'db_range', 'type'])
        if f == 'type':
            t2 = rng.choice([t for t in DD_TYPES if t != ty])
            inp['twin'] = {'type': t2, 'value': _hum_value(rng, t2, db_max, p)}
        elif f == 'value':
            inp['twin'] = {'value': _hum_value(rng, ty, db_max, p)}
        elif f == 'p':
            inp['twin'] = {'p': _p(rng)}
        elif f == 'db_max':
            inp['twin'] = {'db_max': db_max + rng.choice([-6.0, -1.0, 2.5, 7.0])}
        else:
            inp['twin'] = {'db_range': rng.choice([0.0, 4.0, 14.0])}
    sts = [dict(st)]
    if inp['twin']:
        t = dict(st)
        t.update(inp['twin'])
        sts.append(t)
    reads = ['dew', 'hdew', 'hrh', 'hdpv', 'hp', 'hdb', 'dew_at', 'hir', 'dict', 'idf', 'dup', 'redict', 'reidf',
             'dup_set', 'edit_hdpv', 'edit_hdb', 'edit_hp', 'edit_dict', 'edit_coll', 'keep']
    wts = [3, 4, 4, 3, 1, 1, 2, 1, 1, 1, 1, 1, 1, 1, 1, 1, 0.5, 0.7, 0.7, 1]
    n = rng.randrange(5, 13)
    ops = []
    for i in range(n):
        k = rng.randrange(len(sts))
        cur = sts[k]
        r = rng.random()
        if i == 0 or r < 0.50:
            name = rng.choices(reads, wts)[0]
            arg = None
            if name == 'dew_at':
                arg = rng.choice([cur['db_max'], cur['db_max'] - rng.uniform(0, 10), cur['db_max'] + 3.0, 0.0])
            if name == 'dup_set':
                arg = {'p': _p(rng), 'value': _hum_value(rng, cur['type'], cur['db_max'], cur['p'] or 101325.0),
                       'db_max': cur['db_max'] + 4.0, 'db_range': 7.0}
            if rng.random() < 0.25 and ops and ops[-1][0] == k and ops[-1][1] in reads:
                name, arg = ops[-1][1], ops[-1][2]                 # the same question twice
        elif r < 0.62:
            # an operation the code refuses (read from the asserts of designday.py)
            name = rng.choice(['type', 'value', 'p', 'db_max', 'db_range', 'db_range', 'bad_hc', 'bad_dbc', 'swap_dbc'])
            if name == 'type':
                arg = rng.choice(['RelativeHumidity', 'wetbulb', '', 'bad:none'])
            elif name == 'db_range' and rng.random() < 0.6:
                arg = rng.choice([-1.0, -1e-9, float('nan'), -5])
            elif name == 'swap_dbc':
                arg = {'db_max': cur['db_max'] + 5.0, 'db_range': -2.0}
            else:
                arg = rng.choice(['bad:str', 'bad:none', 'bad:list'])
        else:
            name = rng.choice(['type', 'value', 'value', 'p', 'p', 'db_max', 'db_range', 'swap_hc', 'swap_dbc'])
            if name == 'type':
                arg = rng.choice([t for t in DD_TYPES if t != cur['type']])
            elif name == 'value':
                arg = _hum_value(rng, cur['type'], cur['db_max'], cur['p'])
                if rng.random() < 0.1:
                    arg = rng.choice([0.0, 0])
            elif name == 'p':
                arg = rng.choice([_p(rng), 60000, 105000.0, 0.0]) if rng.random() < 0.97 else 0
            elif name == 'db_max':
                arg = cur['db_max'] + rng.choice([-8.0, -3.0, -0.5, 0.5, 3.0, 8.0])
                if rng.random() < 0.1:
                    arg = rng.choice([0.0, 0, 1])
            elif name == 'db_range':
                arg = rng.choice([0.0, 0, rng.uniform(0, 3), rng.uniform(8, 16)])
            elif name == 'swap_hc':
                t2 = rng.choice(DD_TYPES)
                p2 = _p(rng)
                arg = {'type': t2, 'value': _hum_value(rng, t2, cur['db_max'], p2), 'p': p2}
            else:
                m2 = cur['db_max'] + rng.choice([-4.0, 4.0])
                arg = {'db_max': m2, 'db_range': rng.choice([0.0, 3.0, 12.0])}
        ops.append([k, name, arg])
        sts[k], verdict = _dd_apply(cur, name, arg)
        # a value of another physical dimension (J/kg read as degrees C) is no state at all: the value follows
        # at once, except between the two temperature-valued types
        if verdict == 'set' and name == 'type' and (
                rng.random() < 0.5 or not {cur['type'], arg} <= {'Wetbulb', 'Dewpoint'}):
            v = _hum_value(rng, arg, sts[k]['db_max'], sts[k]['p'] or 101325.0)
            ops.append([k, 'value', v])
            sts[k], _ = _dd_apply(sts[k], 'value', v)
        if (verdict != 'read' or name.startswith('edit_')) and rng.random() < 0.7:
            ops.append([k, rng.choice(['hdew', 'hrh', 'dew', 'hdpv']), None])
    inp['ops'] = ops
    if ctx is not None:
        ctx.count('ddhist:entry:' + entry)
        ctx.count('ddhist:style:' + str(inp.get('style')))
        ctx.count('ddhist:type:' + st['type'])
        if inp['twin']:
            ctx.count('ddhist:twin')
        for k, name, arg in ops:
            v = _dd_apply({}, name, arg)[1] if name in DD_FIELDS else ('read' if name in reads else 'setobj')
            ctx.count('ddhist:' + ('refused' if (v == 'refused' or name.startswith('bad_')) else v))
    return inp


# -- oracle of the design-day layer: what the statement requires of the profile for a public state ----------

def _dd_expected(st, name, arg):
    """The observable a design day must show for the public state `st`, composed from the property statement and
    the psychrometric functions only (no design-day object involved): the day's dew point is the dew point of the
    state (db_max, stated humidity, pressure), every hour's dew point is min(day dew point, that hour's dry bulb),
    relative humidity is that of (dry bulb, dew point).  Returns ('vals', [...]) | ('raises', name) | None."""
    from ladybug import psychrometrics as ps

    def day(db):
        ty, v, p = st['type'], st['value'], st['p']
        if ty == 'Dewpoint':
            return v
        if ty == 'Wetbulb':
            return ps.dew_point_from_db_wb(db, v, p)
        if ty == 'HumidityRatio':
            return ps.dew_point_from_db_hr(db, v, p)
        return ps.dew_point_from_db_enth(db, v / 1000.0, p)        # IDD / docs: enthalpy in J/kg, functions in kJ/kg

    def hourly_db():
        return [st['db_max'] - st['db_range'] * x for x in _MULT]

    def profiles():
        d = day(st['db_max'])
        dbs = hourly_db()
        dps = [d if db >= d else db for db in dbs]
        return dps, [ps.rel_humid_from_db_dpt(a, b) for a, b in zip(dbs, dps)]

    try:
        if name == 'dew':
            r = [day(st['db_max'])]
        elif name == 'dew_at':
            r = [day(arg)]
        elif name == 'hdb':
            r = hourly_db()
        elif name in ('hdew', 'hdpv', 'keep'):
            d = day(st['db_max'])
            r = [d if db >= d else db for db in hourly_db()]
        elif name == 'hrh':
            r = profiles()[1]
        elif name == 'hp':
            r = [st['p']] * 24
        elif name in ('dict', 'idf'):
            r = [float(DD_TYPES.index(st['type'])), st['value'], st['p'], st['db_max'], st['db_range']]
        elif name in ('dup', 'redict', 'reidf'):
            a, b = profiles()
            r = a + b
        elif name == 'dup_set' or name.startswith('edit_'):
            r = []
        else:
            return None
        r = [float(v) for v in r]
    except ZeroDivisionError:
        return ('zero',)
    except Exception as e:
        return ('raises', type(e).__name__)
    if not all(math.isfinite(v) for v in r):
        return ('raises', 'nonfinite')
    return ('vals', r)


def _same_outcome(a, b, tol=1e-9):
    if a[0] != b[0]:
        return False
    if a[0] == 'vals':
        return len(a[1]) == len(b[1]) and all(_close(x, y, tol) for x, y in zip(a[1], b[1]))
    if a[0] in ('raises', 'refused'):
        return True            # the class of the exception is not part of the property
    return True


def _short(res):
    if res[0] == 'vals':
        return ['vals'] + [round(v, 6) for v in res[1][:6]] + (['...%d values' % len(res[1])] if len(res[1]) > 6 else [])
    return list(res)


def _check_dd_history(inp):
    recs = _dd_run(inp)
    last_change = ['fresh', 'fresh']
    for i, rec in enumerate(recs):
        k, name, arg, res, verdict = rec['obj'], rec['name'], rec['arg'], rec['res'], rec['verdict']
        st = rec['state']
        if verdict == 'set':
            _sub('ddhist_setter_accepted', res[0] == 'set')
            if res[0] != 'set':
                return _fail('step %d: %s = %r is a valid assignment' % (i, name, arg), _short(res),
                             clause='ddhist_setter', name=name, entry=inp['entry'])
            last_change[k] = 'set:' + name
            continue
        if verdict == 'refused':
            if res[0] != 'refused':
                # the code accepted what its documented validation rejects: the object's state is now outside
                # what the property speaks about, the rest of the history says nothing
                return None
            last_change[k] = 'refused:' + name
            continue
        if name.startswith('edit_'):
            continue                     # the caller edits what was handed out: only the later reads matter
        want = _dd_expected(st, name, arg)
        if want is None:
            # derived quantity without a closed statement here (infrared): a fresh object of the same public state
            try:
                want = _dd_do(_dd_build('ctor', st), name, arg)
            except Exception as e:
                want = ('raises', type(e).__name__)
        if want[0] == 'zero' or res[0] == 'zero':
            if _sub('ddhist_read', want[0] == res[0] or res[0] == 'raises' or want[0] == 'raises'):
                continue
        ok = _same_outcome(want, res)
        _sub('ddhist_read', ok)
        if not ok:
            return _fail('step %d: %s of object %d for the established state %r = %r'
                         % (i, name, k, st, _short(want)), _short(res), clause='ddhist_read', read=name,
                         after=last_change[k], entry=inp['entry'], type=st['type'])
        # the statement's relations on the profile, for states of moist air
        if name in ('hdew', 'hdpv', 'hrh') and res[0] == 'vals':
            dbs = [st['db_max'] - st['db_range'] * x for x in _MULT]
            bad = None
            if name == 'hrh':
                bad = [h for h, v in enumerate(res[1]) if not 0 < v <= 100 + 1e-9]
            else:
                bad = [h for h, (d, b) in enumerate(zip(res[1], dbs)) if not d <= b]
            _sub('ddhist_profile_relation', not bad)
            if bad:
                return _fail('step %d: %s within the physical range at every hour (dew point <= dry bulb, '
                             '0 < rh <= 100)' % (i, name), _short(res), clause='ddhist_relation', read=name,
                             after=last_change[k], entry=inp['entry'], type=st['type'])
    return None


def _check_dd_entry(inp):
    """The same stated design day through every public entry point: the day dew point reproduces the stated
    humidity (Wetbulb [C], Dewpoint [C], HumidityRatio [kg/kg], Enthalpy [J/kg] at the maximum dry bulb) and every
    entry point gives the same profile and the same serial forms."""
    from ladybug import psychrometrics as ps
    st = inp['state']
    ty, v, p, dbm = st['type'], st['value'], st['p'], st['db_max']
    # the state the inputs describe, from the psychrometric functions
    if ty == 'Dewpoint':
        rh_in = ps.rel_humid_from_db_dpt(dbm, v)
    elif ty == 'Wetbulb':
        rh_in = ps.rel_humid_from_db_wb(dbm, v, p)
    elif ty == 'HumidityRatio':
        rh_in = ps.rel_humid_from_db_hr(dbm, v, p)
    else:
        rh_in = ps.rel_humid_from_db_enth(dbm, v / 1000.0, p)
    for entry in inp.get('entries', DD_ENTRIES):
        try:
            dd = _dd_build(entry, st, inp.get('style'))
        except Exception as e:
            _sub('ddentry_builds', False)
            return _fail('entry point %s builds the design day' % entry, 'raises %s: %s' % (type(e).__name__, e),
                         clause='ddentry_builds', entry=entry, type=ty)
        for name in ('dew', 'hdew', 'hrh', 'hp', 'dict', 'idf'):
            want = _dd_expected(st, name, None)
            got = _dd_do(dd, name, None)
            if want[0] == 'zero' and got[0] in ('zero', 'raises'):
                continue
            ok = _same_outcome(want, got)
            _sub('ddentry_read', ok)
            if not ok:
                return _fail('%s of the design day built through %s = %r' % (name, entry, _short(want)), _short(got),
                             clause='ddentry_read', read=name, entry=entry, type=ty)
        got = _dd_do(dd, 'dew', None)
        if got[0] == 'vals' and 0.01 <= rh_in <= 100 and got[1][0] <= dbm:
            day = got[1][0]
            lo = ps.rel_humid_from_db_dpt(dbm, day - SOLVER_TOL)
            hi = ps.rel_humid_from_db_dpt(dbm, min(day + SOLVER_TOL, dbm))
            ok = lo <= rh_in * (1 + 1e-9) and (rh_in <= hi * (1 + 1e-9) or day + SOLVER_TOL >= dbm)
            _sub('ddentry_value_roundtrip', ok)
            if not ok:
                return _fail('day dew point of the %s day (entry %s) within 0.1 C of the dew point of the stated state '
                             '(rh %r at %r C)' % (ty, entry, rh_in, dbm), day, clause='ddentry_roundtrip', entry=entry,
                             type=ty)
    return None


def _check_dd_ashrae(inp):
    """from_ashrae_dict_heating / _cooling: Wetbulb days from an ASHRAE HOF row (pressure optional)."""
    from ladybug.designday import DesignDay
    loc = _dd_location()
    db, wb, dbr, p = inp['db'], inp['wb'], inp['dbr'], inp.get('p')
    heat = {'Month': '1', 'DB996': repr(db), 'DB990': repr(db + 1.5), 'WS_DB996': '3.1', 'WD_DB996': '270'}
    cool = {'Month': '7', 'DBR': repr(dbr), 'DB004': repr(db), 'WB_DB004': repr(wb), 'DB010': repr(db - 1.0),
            'WB_DB010': repr(wb - 0.5), 'WS_DB004': '3.9', 'WD_DB004': '230'}
    alt = bool(inp.get('alt'))           # the 99.0 % / 1.0 % variants (use_990, use_010) of the same rows
    if alt:
        heat, cool = _rev_dict(heat), _rev_dict(cool)
    _cnt('ddashrae:%s:%s' % ('alt' if alt else 'default', 'p_default' if p is None else 'p_given'))
    for kind in ('heating', 'cooling'):
        if kind == 'heating':
            dd = DesignDay.from_ashrae_dict_heating(heat, loc, alt, p)
            d1 = db + 1.5 if alt else db
            st = {'type': 'Wetbulb', 'value': d1, 'p': 101325 if p is None else p, 'db_max': d1, 'db_range': 0}
        else:
            dd = DesignDay.from_ashrae_dict_cooling(cool, loc, alt, p)
            st = {'type': 'Wetbulb', 'value': wb - 0.5 if alt else wb, 'p': 101325 if p is None else p,
                  'db_max': db - 1.0 if alt else db, 'db_range': dbr}
        for name in ('dew', 'hdew', 'hrh', 'hp', 'dict'):
            want, got = _dd_expected(st, name, None), _dd_do(dd, name, None)
            ok = _same_outcome(want, got) or (want[0] == 'zero' and got[0] in ('zero', 'raises'))
            _sub('ddashrae_read', ok)
            if not ok:
                return _fail('%s of the %s design day from the ASHRAE row = %r' % (name, kind, _short(want)),
                             _short(got), clause='ddashrae_read', read=name, kind=kind,
                             pressure='default' if p is None else 'given', alt=alt)
    return None


# -- psychrometric chart: histories of reads on one (immutable, lazily filled) object -------------------------

CHART_READS = ('data_points', 'plot', 'rh_lines', 'sat', 'tlines', 'hr_lines', 'border', 'enth', 'wb', 'mesh', 'redict',
               'labels')


def _flat_pts(pts):
    out = []
    for q in pts:
        out.extend([q.x, q.y])
    return out


def _chart_read(ch, name, arg):
    if name == 'data_points':
        return _flat_pts(ch.data_points)
    if name == 'plot':
        q = ch.plot_point(arg[0], arg[1])
        return [q.x, q.y]
    if name == 'rh_lines':
        out = []
        for pl in ch.rh_lines:
            out.append(float(len(pl.vertices)))
            out.extend(_flat_pts(pl.vertices))
        return out
    if name == 'sat':
        return _flat_pts(ch.saturation_line.vertices)
    if name == 'tlines':
        return [c for s in ch.temperature_lines for c in (s.p1.x, s.p1.y, s.p2.x, s.p2.y)]
    if name == 'hr_lines':
        return [c for s in ch.hr_lines for c in (s.p1.x, s.p1.y, s.p2.x, s.p2.y)] + [float(x) for x in ch.hr_labels]
    if name == 'border':
        return _flat_pts(ch.chart_border.vertices)
    if name == 'enth':
        return [c for s in ch.enthalpy_lines for c in (s.p1.x, s.p1.y, s.p2.x, s.p2.y)] + \
            [float(x.split()[0]) for x in ch.enthalpy_labels] + _flat_pts(ch.enthalpy_label_points)
    if name == 'wb':
        return [c for s in ch.wb_lines for c in (s.p1.x, s.p1.y, s.p2.x, s.p2.y)] + \
            [float(x.split()[0]) for x in ch.wb_labels] + _flat_pts(ch.wb_label_points)
    if name == 'mesh':
        return _flat_pts(ch.colored_mesh.vertices)
    if name == 'labels':
        # round 6: the positional families label i <-> label point i <-> line i of the five kinds of curves:
        # 15 counts, then per family the label numbers, the label points and what identifies the line
        tl, tp, ts = ch.temperature_labels, ch.temperature_label_points, ch.temperature_lines
        rl, rp, rs = ch.rh_labels, ch.rh_label_points, ch.rh_lines
        hl, hp, hs = ch.hr_labels, ch.hr_label_points, ch.hr_lines
        el, ep, es = ch.enthalpy_labels, ch.enthalpy_label_points, ch.enthalpy_lines
        wl, wp, ws = ch.wb_labels, ch.wb_label_points, ch.wb_lines
        out = [float(len(x)) for x in (tl, tp, ts, rl, rp, rs, hl, hp, hs, el, ep, es, wl, wp, ws)]
        out += [float(x) for x in tl] + [q.x for q in tp] + [sg.p1.x for sg in ts]
        out += [float(x.rstrip('%')) for x in rl] + _flat_pts(rp) + _flat_pts([pl.vertices[0] for pl in rs])
        out += [float(x) for x in hl] + [q.y for q in hp] + [sg.p1.y for sg in hs]
        for lab, pts, segs in ((el, ep, es), (wl, wp, ws)):
            out += [float(x.split()[0]) for x in lab] + _flat_pts(pts) + \
                [c for sg in segs for c in (sg.p1.x, sg.p1.y, sg.p2.x, sg.p2.y)]
        return out
    if name == 'redict':
        c2 = type(ch).from_dict(ch.to_dict())
        return _flat_pts(c2.data_points) + _flat_pts(c2.saturation_line.vertices)
    if name == 'bad_plot':                # refused: not a number
        ch.plot_point(None, 50.0)
        return []
    if name == 'bad_polyline':
        ch.relative_humidity_polyline('x')
        return []
    if name == 'bad_mesh':                # refused: a collection that is not aligned with the chart's data
        from ladybug.datacollection import HourlyContinuousCollection
        from ladybug.header import Header
        from ladybug.analysisperiod import AnalysisPeriod
        from ladybug.datatype.temperature import Temperature
        ch.data_mesh(HourlyContinuousCollection(Header(Temperature(), 'C', AnalysisPeriod(1, 1, 0, 1, 1, 2)),
                                                [1.0, 2.0, 3.0]))
        return []
    raise ValueError(name)


def _chart_do(ch, name, arg):
    try:
        r = [float(v) for v in _chart_read(ch, name, arg)]
    except Exception as e:
        return ('raises', type(e).__name__)
    if not all(math.isfinite(v) for v in r):
        return ('raises', 'nonfinite')
    return ('vals', r)


def _chart_refused(kind, par, tv, rv):
    """A chart construction the code refuses (validation read in psychchart.py __init__)."""
    use_ip, bx, by, xd, yd, tmin, tmax, p = par
    if kind == 'narrow':
        return _make_chart((use_ip, bx, by, xd, yd, tmin, tmin + 9, p), tv, rv)
    if kind == 'pressure':
        return _make_chart((use_ip, bx, by, xd, yd, tmin, tmax, 0.0), tv, rv)
    if kind == 'xdim':
        return _make_chart((use_ip, bx, by, -1.0, yd, tmin, tmax, p), tv, rv)
    if kind == 'lengths':
        return _make_chart(par, tv, rv[:-1] + [])
    if kind == 'offchart':
        return _make_chart(par, [tmax + 500.0] * len(tv) if not use_ip else [1000.0] * len(tv), rv)
    raise ValueError(kind)


def _chart_expected(par, tv, rv, name, arg, hrmax=0.03):
    """Chart coordinates from the statement: x = base.x + x_dim * (t - t_min) in the chart's unit,
    y = base.y + y_dim * humidity ratio of the state (humid_ratio_from_db_rh)."""
    from ladybug import psychrometrics as ps
    use_ip, bx, by, xd, yd, tmin, tmax, p = par
    if name == 'data_points':
        out = []
        for tc, rh in zip(tv, rv):
            t = tc * 9. / 5. + 32. if use_ip else tc
            out.extend([bx + xd * (t - tmin), by + yd * ps.humid_ratio_from_db_rh(tc, rh, p)])
        return out
    if name == 'plot':
        t, rh = arg
        tc = (t - 32.) * 5. / 9. if use_ip else t
        return [bx + xd * (t - tmin), by + yd * ps.humid_ratio_from_db_rh(tc, rh, p)]
    if name in ('tlines', 'border'):
        # vertical lines every 5 degrees (and at the maximum) from the base line up to saturation or the top
        ts = list(range(int(tmin), int(tmax), 5)) + [int(tmax)]
        top = []
        for t in ts:
            tc = (t - 32.) * 5. / 9. if use_ip else t
            top.append(min(ps.humid_ratio_from_db_rh(tc, 100, p), hrmax))
        if name == 'tlines':
            out = []
            for t, h in zip(ts, top):
                x = bx + xd * (t - tmin)
                out.extend([x, by, x, by + yd * h])
            return out
        x_max = bx + (tmax - tmin) * xd
        out = [bx, by + yd * top[0], bx, by, x_max, by, x_max, by + yd * top[-1]]
        return out
    return None


def _chart_history_case(rng, ctx=None):
    par = _chart_params(rng)
    tv, rv = _chart_data(rng, par)
    shape = rng.choice(['24', '24', '24', 'scalar_t', 'scalar_rh', 'one'])
    use_ip, tmin, tmax = par[0], par[5], par[6]
    reads = []
    n = rng.randrange(5, 12)
    for i in range(n):
        name = rng.choice(CHART_READS[:2] * 3 + CHART_READS)
        arg = None
        if name == 'plot':
            tk = rng.choice(tv)                      # a temperature that is also among the chart's data
            arg = [rng.choice([float(tmin), float(tmax), rng.uniform(tmin, tmax), 32.0 if use_ip else 0.0,
                               tk * 9. / 5. + 32. if use_ip else tk, tk * 9. / 5. + 32. if use_ip else tk]),
                   rng.choice([_rh(rng), 0.0, 100.0, 100, 50, rng.choice(rv)])]
        if reads and rng.random() < 0.25:
            name, arg = reads[-1][0], reads[-1][1]
        if rng.random() < 0.12:
            name, arg = rng.choice(['bad_plot', 'bad_polyline', 'bad_mesh']), None
        reads.append([name, arg])
    refused = rng.choice([None, None, 'narrow', 'pressure', 'xdim', 'lengths', 'offchart'])
    if shape != '24' and refused == 'lengths':
        refused = 'narrow'
    if ctx is not None:
        ctx.count('charthist:' + ('ip' if use_ip else 'si'))
        ctx.count('charthist:shape:' + shape)
        ctx.count('charthist:refused_first:' + str(refused))
    inp = {'par': list(par), 't': tv, 'rh': rv, 'shape': shape, 'reads': reads, 'refused_first': refused}
    if rng.random() < 0.65:
        _chart_r4_shape(rng, inp, ctx)
    return inp


def _chart_inputs(inp):
    """(t values, rh values, constructor inputs) of a chart history: 24 hourly values, one scalar + a collection,
    or one-value-long input."""
    tv, rv, shape = list(inp['t']), list(inp['rh']), inp.get('shape', '24')
    rep = {'sub2': 2, 'sub4': 4}.get(inp.get('coll', 'hourly'), 1)
    if rep > 1 and shape != 'one':
        tv, rv = tv * rep, rv * rep            # a sub-hourly collection: 48 / 96 values
    if shape == 'scalar_t':
        tv = [tv[0]] * len(tv)
    elif shape == 'scalar_rh':
        rv = [rv[0]] * len(rv)
    elif shape == 'one':
        tv, rv = tv[:1], rv[:1]
    return tv, rv


def _chart_make(inp):
    if any(k in inp for k in _CHART_R4_KEYS):
        return _chart_make_r4(inp)
    from ladybug.psychchart import PsychrometricChart
    from ladybug_geometry.geometry2d.pointvector import Point2D
    par = tuple(inp['par'])
    tv, rv = _chart_inputs(inp)
    shape = inp.get('shape', '24')
    if shape == '24':
        return _make_chart(par, tv, rv)
    use_ip, bx, by, xd, yd, tmin, tmax, p = par
    if shape == 'one':                       # both inputs plain numbers
        return PsychrometricChart(tv[0], rv[0], p, None, Point2D(bx, by), xd, yd, tmin, tmax, 0.03, use_ip)
    full = _make_chart(par, tv, rv)
    t_in = tv[0] if shape == 'scalar_t' else full.temperature
    r_in = rv[0] if shape == 'scalar_rh' else full.relative_humidity
    return PsychrometricChart(t_in, r_in, p, None, Point2D(bx, by), xd, yd, tmin, tmax, 0.03, use_ip)


def _chart_run(inp):
    par = tuple(inp['par'])
    tv, rv = _chart_inputs(inp)
    if inp.get('refused_first'):
        try:
            _chart_refused(inp['refused_first'], par, list(inp['t']), list(inp['rh']))
            first = 'accepted'
        except Exception as e:
            first = type(e).__name__
    else:
        first = None
    try:
        ch = _chart_make(inp)
    except Exception as e:
        if not any(k in inp for k in _CHART_R4_KEYS):
            raise
        return ('unbuildable', type(e).__name__ + ': ' + str(e)[:120]), []
    return first, [(name, arg, _chart_do(ch, name, arg)) for name, arg in inp['reads']]


def _check_chart_history(inp):
    from ladybug import psychrometrics as ps
    par = tuple(inp['par'])
    use_ip, bx, by, xd, yd, tmin, tmax, p = par
    hrmax = inp.get('hrmax', 0.03)
    tv, rv = _chart_inputs(inp)
    first, recs = _chart_run(inp)
    if isinstance(first, tuple):
        # the chart of this shape could not be built: the same limits with plain hourly data must fail too
        # (a chart whose curves leave the top after two vertices is refused by the geometry library)
        plain = dict((k, v) for k, v in inp.items() if k not in ('coll', 'container', 'scalar_form', 'entry', 'num_form'))
        plain['shape'] = '24'
        second = _chart_run(plain)[0]
        _cnt('charthist:unbuildable')
        if not _sub('charthist_builds', isinstance(second, tuple)):
            return _fail('the chart is built from these inputs as it is from plain hourly collections', first[1],
                         clause='charthist_builds', shape=inp.get('shape', '24'), coll=inp.get('coll', 'hourly'),
                         entry=inp.get('entry', 'ctor'))
        return None
    shape_sig = inp.get('shape', '24') + ('' if inp.get('coll', 'hourly') == 'hourly' else ':' + inp['coll'])
    seen = {}
    _cnt('branch:chart_ip' if use_ip else 'branch:chart_si')
    _cnt(_chart_offchart(par, tv))
    _cnt(_chart_repeats(tv, rv))
    _cnt('branch:chart_single_temperature' if inp.get('shape', '24') in ('scalar_t', 'one') else 'branch:chart_many_t')

    def state(x, y):
        """chart coordinates -> (dry bulb in C, humidity ratio)"""
        t = tmin + (x - bx) / xd
        return ((t - 32.) * 5. / 9. if use_ip else t), (y - by) / yd

    def t_at(rh_line, hr):
        """dry bulb (C) at which the curve of rh_line has the humidity ratio hr (bisection on the real function)"""
        a, b = -80.0, 99.0
        for _ in range(70):
            m = (a + b) / 2.0
            if ps.humid_ratio_from_db_rh(m, rh_line, p) > hr:
                b = m
            else:
                a = m
        return a

    for i, (name, arg, res) in enumerate(recs):
        key = _json.dumps([name, arg])
        if name.startswith('bad_'):
            continue                     # a refused call: only its effect on the later reads matters
        want_vals = _chart_expected(par, tv, rv, name, arg, hrmax)
        if want_vals is not None:
            want = ('vals', [float(v) for v in want_vals])
            if name == 'border' and res[0] == 'vals' and len(res[1]) == len(want[1]) + 2:
                # the fifth vertex (end of the saturation line at the top of the chart) is drawn geometry
                res = ('vals', res[1][:len(want[1])])
                _cnt('branch:border_5_vertices')
            elif name == 'border':
                _cnt('branch:border_4_vertices')
        else:
            want = _chart_do(_chart_make(inp), name, arg)        # first read of a fresh chart
        ok = _same_outcome(want, res)
        _sub('charthist_read', ok)
        if not ok:
            return _fail('read %d (%s %r) of the chart = %r' % (i, name, arg, _short(want)), _short(res),
                         clause='charthist_read', read=name, ip=use_ip, shape=shape_sig,
                         repeated=key in seen)
        if key in seen and not _sub('charthist_repeat', _same_outcome(seen[key], res, 0.0)):
            return _fail('read %d (%s) equals the earlier read of the same question' % (i, name), _short(res),
                         clause='charthist_repeat', read=name, ip=use_ip)
        seen[key] = res
        if res[0] != 'vals':
            continue
        vals = res[1]
        # curves of constant relative humidity: every vertex below the top of the chart is a state of that rh;
        # the cut-off vertex at the top is the state (rh, maximum humidity ratio)
        if name in ('rh_lines', 'sat'):
            lines = []
            if name == 'sat':
                lines.append((100.0, vals))
            else:
                j, k = 0, 0
                while j < len(vals):
                    m = int(vals[j])
                    lines.append((10.0 * (k + 1), vals[j + 1:j + 1 + 2 * m]))
                    j += 1 + 2 * m
                    k += 1
            top = by + hrmax * yd
            for rh_line, xy in lines:
                cut = False
                for a in range(0, len(xy), 2):
                    x, y = xy[a], xy[a + 1]
                    tc, hr = state(x, y)
                    if y >= top - 1e-9 * max(1.0, abs(top), abs(yd)):
                        cut = True
                        want_t = t_at(rh_line, hrmax)
                        tol = ANTOINE_TOL if want_t > 0 else 3.5     # db_temp_from_rh_hr: open finding below 0 C
                        if not _sub('chart_rh_curve_cutoff', abs(tc - want_t) <= tol and a == len(xy) - 2):
                            return _fail('the last vertex (%r, %r) of the %g %% curve is the state of that relative '
                                         'humidity with the maximum humidity ratio %r: dry bulb %r C (within %g C)'
                                         % (x, y, rh_line, hrmax, want_t, tol), tc, clause='chart_rh_cutoff',
                                         read=name, ip=use_ip)
                        continue
                    back = ps.rel_humid_from_db_hr(tc, hr, p)
                    if not _sub('chart_rh_curve', abs(back - rh_line) <= HR_RH_BOUND * rh_line + 1e-6):
                        return _fail('vertex (%r, %r) of the %g %% curve is a state of that relative humidity' %
                                     (x, y, rh_line), back, clause='chart_rh_curve', read=name, ip=use_ip)
                _cnt('branch:rhline_cutoff' if cut else 'branch:rhline_no_cutoff')
        # lines of constant enthalpy: both end points are states of the labelled enthalpy (kJ/kg with reference
        # 0 C; Btu/lb with reference 0 F on IP charts); the drawn line is straight, the exact curve bends by
        # 1.86 * w * t <= 1300 * max_humidity_ratio^2 kJ/kg (1.2 at 0.03) between its ends
        if name == 'enth':
            n = len(vals) // 7
            ref = -160. / 9. if use_ip else 0.0
            for k in range(n):
                lab = vals[4 * n + k] * (2.326 if use_ip else 1.0)
                for x, y in ((vals[4 * k], vals[4 * k + 1]), (vals[4 * k + 2], vals[4 * k + 3])):
                    tc, hr = state(x, y)
                    e = 1.006 * (tc - ref) + hr * (2501. + 1.86 * (tc - ref))
                    if not _sub('chart_enthalpy_line', abs(e - lab) <= 1300. * max(hrmax, 0.03) ** 2 + 0.1):
                        return _fail('end point (%r, %r) of the enthalpy line labelled %r is a state of that enthalpy '
                                     '(%r kJ/kg above the reference %r C, within the bend of the exact curve)' % (x, y, vals[4 * n + k], lab, ref),
                                     e, clause='chart_enth_line', ip=use_ip, hrmax_default=hrmax == 0.03)
            _cnt('branch:enth_lines_%s' % ('some' if n else 'none'))
        # lines of constant wet bulb: straight lines of db_temp_and_hr_from_wb_rh through the saturation state
        if name == 'wb':
            n = len(vals) // 7
            for k in range(n):
                lab = vals[4 * n + k]
                wc = (lab - 32.) * 5. / 9. if use_ip else lab
                for x, y in ((vals[4 * k], vals[4 * k + 1]), (vals[4 * k + 2], vals[4 * k + 3])):
                    tc, hr = state(x, y)
                    want_t = ps.db_temp_and_hr_from_wb_rh(wc, ps.rel_humid_from_db_hr(wc, hr, p), p)[0]
                    if not _sub('chart_wet_bulb_line', abs(tc - want_t) <= 0.02):
                        return _fail('end point (%r, %r) of the wet-bulb line labelled %r: the dry bulb of its humidity '
                                     'ratio %r on that line is %r C (db_temp_and_hr_from_wb_rh)' % (x, y, lab, hr, want_t),
                                     tc, clause='chart_wb_line', ip=use_ip)
        # lines of constant humidity ratio: horizontal at y(label), from the right border to the saturation curve
        if name == 'hr_lines':
            n = len(vals) // 5
            for k in range(n):
                lab = vals[4 * n + k]
                y_want = by + yd * lab
                x1, y1, x2, y2 = vals[4 * k:4 * k + 4]
                ok = abs(y1 - y_want) <= 1e-9 * max(1, abs(y_want)) and abs(y2 - y_want) <= 1e-9 * max(1, abs(y_want))
                if ok and x2 > bx + 1e-9 * max(1.0, abs(bx)):
                    want_t = t_at(100.0, lab)
                    ok = abs(state(x2, y2)[0] - want_t) <= (ANTOINE_TOL if want_t > 0 else 3.5)
                if not _sub('chart_hr_line', ok):
                    return _fail('humidity-ratio line %r runs at y = %r from the saturation curve' % (lab, y_want),
                                 [x1, y1, x2, y2], clause='chart_hr_line', ip=use_ip)
        # round 6, positional families: label i, label point i and line i belong together, none is left out
        if name == 'labels':
            n = [int(v) for v in vals[:15]]
            pos = [15]

            def take(k):
                part = vals[pos[0]:pos[0] + k]
                pos[0] += k
                return part
            fam = ('temperature', 'relative humidity', 'humidity ratio', 'enthalpy', 'wet bulb')
            for f in range(5):
                if not _sub('chart_family_counts', n[3 * f] == n[3 * f + 1] == n[3 * f + 2]):
                    return _fail('as many %s labels as label points as lines' % fam[f], n[3 * f:3 * f + 3],
                                 clause='chart_family_counts', family=fam[f], ip=use_ip)
            t_lab, t_px, t_lx = take(n[0]), take(n[1]), take(n[2])
            for k in range(n[0]):
                back = tmin + (t_lx[k] - bx) / xd
                if not _sub('chart_temperature_label', abs(back - t_lab[k]) <= 1e-9 * max(1.0, abs(back)) and
                            abs(t_px[k] - t_lx[k]) <= 1e-9 * max(1.0, abs(t_lx[k]))):
                    return _fail('temperature line %d (x = %r, label point x = %r) stands at its label %r' %
                                 (k, t_lx[k], t_px[k], t_lab[k]), back, clause='chart_temperature_label', ip=use_ip)
            r_lab, r_pts, r_first = take(n[3]), take(2 * n[4]), take(2 * n[5])
            for k in range(n[3]):
                tc, hr = state(r_first[2 * k], r_first[2 * k + 1])
                back = ps.rel_humid_from_db_hr(tc, hr, p)
                if not _sub('chart_rh_label', r_lab[k] == 10.0 * (k + 1) and
                            abs(back - r_lab[k]) <= HR_RH_BOUND * r_lab[k] + 1e-6):
                    return _fail('curve %d starts in a state of the relative humidity of its label %r' % (k, r_lab[k]),
                                 back, clause='chart_rh_label', ip=use_ip)
            h_lab, h_py, h_ly = take(n[6]), take(n[7]), take(n[8])
            for k in range(n[6]):
                back = (h_ly[k] - by) / yd
                if not _sub('chart_hr_label', abs(back - h_lab[k]) <= 1e-9 + 1e-9 * abs(by / yd) and
                            abs(h_py[k] - h_ly[k]) <= 1e-9 * max(1.0, abs(h_ly[k]))):
                    return _fail('humidity-ratio line %d (y = %r, label point y = %r) runs at its label %r' %
                                 (k, h_ly[k], h_py[k], h_lab[k]), back, clause='chart_hr_label', ip=use_ip)
            for f in (3, 4):
                lab, pts, segs = take(n[3 * f]), take(2 * n[3 * f + 1]), take(4 * n[3 * f + 2])
                for k in range(n[3 * f]):
                    x1, y1, x2, y2 = segs[4 * k:4 * k + 4]
                    qx, qy = pts[2 * k], pts[2 * k + 1]
                    vx, vy, wx, wy = x2 - x1, y2 - y1, qx - x1, qy - y1
                    cross = abs(vx * wy - vy * wx)
                    if not _sub('chart_label_on_line', cross <= 1e-7 * max(1e-300, math.hypot(vx, vy) * math.hypot(wx, wy))):
                        return _fail('the label point %d of the %s lines lies on the extension of line %d' %
                                     (k, fam[f], k), [qx, qy, x1, y1, x2, y2], clause='chart_label_on_line',
                                     family=fam[f], ip=use_ip)
        # mesh of hours: every vertex lies on the base line or on a curve of 5, 10, ... 100 % relative humidity
        if name == 'mesh':
            for a in range(0, len(vals), 2):
                x, y = vals[a], vals[a + 1]
                if abs(y - by) <= 1e-12 * max(1.0, abs(by)):
                    continue
                tc, hr = state(x, y)
                back = ps.rel_humid_from_db_hr(tc, hr, p)
                near = 5.0 * round(back / 5.0)
                if not _sub('chart_mesh_vertex', 5.0 <= near <= 100.0 and abs(back - near) <= HR_RH_BOUND * near + 1e-6):
                    return _fail('mesh vertex (%r, %r) is a state with a relative humidity of 5, 10 ... 100 %%' % (x, y),
                                 back, clause='chart_mesh_vertex', ip=use_ip)
    return None


# -- psychrometrics.py: call histories in one process ----------------------------------------------------------

#        name          python function                 model op       number of positional args / defaults
_FN = {
    'svp': ('saturated_vapor_pressure', 1, ()),
    'dlnpws': ('_d_ln_p_ws', 1, ()),
    'hr_db_rh': ('humid_ratio_from_db_rh', 3, (101325.0,)),
    'enth': ('enthalpy_from_db_hr', 3, (0.0,)),
    'rh_db_hr': ('rel_humid_from_db_hr', 3, (101325.0,)),
    'rh_db_enth': ('rel_humid_from_db_enth', 4, (101325.0, 0.0)),
    'rh_db_dpt': ('rel_humid_from_db_dpt', 2, ()),
    'rh_db_wb': ('rel_humid_from_db_wb', 3, (101325.0,)),
    'hr_db_wb': ('humid_ratio_from_db_wb', 3, (101325.0,)),
    'db_enth_hr': ('db_temp_from_enth_hr', 3, (0.0,)),
    'db_rh_hr': ('db_temp_from_rh_hr', 3, (101325.0,)),
    'db_hr_wb_rh': ('db_temp_and_hr_from_wb_rh', 3, (101325.0,)),
    'dpt_db_rh': ('dew_point_from_db_rh', 2, ()),
    'wb_db_rh': ('wet_bulb_from_db_rh', 3, (101325.0,)),
    'wb_db_hr': ('wet_bulb_from_db_hr', 3, (101325.0,)),
    'dpt_db_hr': ('dew_point_from_db_hr', 3, (101325.0,)),
    'dpt_db_enth': ('dew_point_from_db_enth', 4, (101325.0, 0.0)),
    'dpt_db_wb': ('dew_point_from_db_wb', 3, (101325.0,)),
    'dpt_fast': ('dew_point_from_db_rh_fast', 2, ()),
    'wb_fast': ('wet_bulb_from_db_rh_fast', 3, (101325.0,)),
}
_KW = {     # documented parameter names (docstrings of psychrometrics.py)
    'svp': ('t_kelvin',), 'dlnpws': ('db_temp',), 'hr_db_rh': ('db_temp', 'rel_humid', 'b_press'),
    'enth': ('db_temp', 'humid_ratio', 'reference_temp'), 'rh_db_hr': ('db_temp', 'humid_ratio', 'b_press'),
    'rh_db_enth': ('db_temp', 'enthalpy', 'b_press', 'reference_temp'), 'rh_db_dpt': ('db_temp', 'dew_pt'),
    'rh_db_wb': ('db_temp', 'wet_bulb', 'b_press'), 'hr_db_wb': ('db_temp', 'wb_temp', 'b_press'),
    'db_enth_hr': ('enthalpy', 'humid_ratio', 'reference_temp'), 'db_rh_hr': ('rel_humid', 'humid_ratio', 'b_press'),
    'db_hr_wb_rh': ('wb_temp', 'rel_humid', 'b_press'), 'dpt_db_rh': ('db_temp', 'rel_humid'),
    'wb_db_rh': ('db_temp', 'rel_humid', 'b_press'), 'wb_db_hr': ('db_temp', 'humid_ratio', 'b_press'),
    'dpt_db_hr': ('db_temp', 'humid_ratio', 'b_press'), 'dpt_db_enth': ('db_temp', 'enthalpy', 'b_press', 'reference_temp'),
    'dpt_db_wb': ('db_temp', 'wet_bulb', 'b_press'), 'dpt_fast': ('db_temp', 'rel_humid'),
    'wb_fast': ('db_temp', 'rel_humid', 'b_press'),
}
_SOLVERS = ('dpt_db_rh', 'wb_db_rh', 'wb_db_hr', 'dpt_db_hr', 'dpt_db_enth', 'dpt_db_wb', 'wb_fast')


def _call_args(fn, s):
    """Positional arguments of one call from the running state `s` of a call history."""
    return {
        'svp': [s['db'] + 273.15], 'dlnpws': [s['db']], 'hr_db_rh': [s['db'], s['rh'], s['p']],
        'enth': [s['db'], s['hr'], s['ref']], 'rh_db_hr': [s['db'], s['hr'], s['p']],
        'rh_db_enth': [s['db'], s['enth'], s['p'], s['ref']], 'rh_db_dpt': [s['db'], s['dpt']],
        'rh_db_wb': [s['db'], s['wb'], s['p']], 'hr_db_wb': [s['db'], s['wb'], s['p']],
        'db_enth_hr': [s['enth'], s['hr'], s['ref']], 'db_rh_hr': [s['rh'], s['hr'], s['p']],
        'db_hr_wb_rh': [s['wb'], s['rh'], s['p']], 'dpt_db_rh': [s['db'], s['rh']],
        'wb_db_rh': [s['db'], s['rh'], s['p']], 'wb_db_hr': [s['db'], s['hr'], s['p']],
        'dpt_db_hr': [s['db'], s['hr'], s['p']], 'dpt_db_enth': [s['db'], s['enth'], s['p'], s['ref']],
        'dpt_db_wb': [s['db'], s['wb'], s['p']], 'dpt_fast': [s['db'], s['rh']], 'wb_fast': [s['db'], s['rh'], s['p']],
    }[fn]


def _call_history(rng, n, ctx=None):
    """A sequence of calls of psychrometrics.py in which consecutive calls share all but one component of the
    state (a memo keyed on part of the arguments answers the second call wrongly), with repeated questions,
    omitted optional arguments (defaults), int arguments, completely dry states and calls that fail inside
    (negative rh: math.log raises and is swallowed) placed before ordinary ones."""
    s = {'db': _db(rng), 'rh': _rh(rng), 'p': _p(rng), 'ref': 0.0}

    def derive():
        pw = magnus(s['db']) * max(s['rh'], 0.0) / 100.0
        s['hr'] = 0.622 * pw / (s['p'] - pw)
        s['enth'] = 1.006 * (s['db'] - s['ref']) + s['hr'] * (2501.0 + 1.86 * (s['db'] - s['ref']))
        s['wb'] = s['db'] - rng.choice([0.0, 0.3, 2.0, rng.uniform(0, 8)]) * (1 - min(s['rh'], 100.0) / 100.0)
        s['dpt'] = s['db'] - rng.choice([0.0, 0.2, rng.uniform(0, 20)])
    derive()
    out = []
    names = sorted(_FN)
    for i in range(n):
        r = rng.random()
        tag = 'plain'
        if r < 0.30:
            s[rng.choice(['db', 'rh', 'p', 'ref'])] = None
            if s['db'] is None:
                s['db'] = _db(rng)
            if s['rh'] is None:
                s['rh'] = _rh(rng)
            if s['p'] is None:
                s['p'] = _p(rng)
            if s['ref'] is None:
                s['ref'] = _ref(rng)
            derive()
            tag = 'one_component_changed'
        elif r < 0.40:
            s.update({'db': _db(rng), 'rh': _rh(rng), 'p': _p(rng)})
            derive()
            tag = 'new_state'
        elif r < 0.47:
            k = rng.choice(['hr', 'enth', 'wb', 'dpt'])
            s[k] = s[k] + rng.choice([-0.5, 0.5]) * (0.001 if k == 'hr' else 1.0)
            tag = 'one_component_changed'
        fn = rng.choice(names)
        args = _call_args(fn, s)
        q = rng.random()
        if q < 0.05:
            # completely dry air through each route / exact zeros
            z = dict(s, rh=0.0, hr=0.0, enth=(1.006 * s['db'] if s['ref'] == 0.0 else s['enth']))
            if fn == 'db_rh_hr':
                z = s
            args = _call_args(fn, z)
            tag = 'dry_air'
        elif q < 0.09 and fn not in ('db_rh_hr', 'wb_fast'):
            z = dict(s, rh=rng.choice([-5.0, -1e-9, -100.0]), hr=-1e-4)
            args = _call_args(fn, z)
            tag = 'fails_inside'
        elif q < 0.13:
            args = [float(round(a)) if abs(a) > 1 else a for a in args]
            args = [int(a) if (abs(a) > 1 and rng.random() < 0.7) else a for a in args]
            tag = 'int_arguments'
        nargs, defaults = _FN[fn][1], _FN[fn][2]
        if defaults and rng.random() < 0.12:
            drop = rng.randrange(1, len(defaults) + 1)
            args = args[:nargs - drop]
            tag = 'defaults'
        if fn == 'wb_fast' and not (-60 <= args[0] <= 80 and 0 <= args[1] <= 100 and
                                    (len(args) < 3 or 5e4 <= args[2] <= 1.1e5)):
            continue                      # the fast wet bulb has no iteration limit: in-range inputs only
        if fn == 'svp' and args[0] == 0 or (fn in ('db_rh_hr',) and (args[0] <= 0 or args[1] < 1e-12)):
            continue
        out.append({'fn': fn, 'args': args})
        if rng.random() < 0.10:
            out[-1]['kw'] = True          # the same call with the documented keywords, in reverse order
            if ctx is not None:
                ctx.count('calls:keywords')
        if ctx is not None:
            ctx.count('calls:' + tag)
        if rng.random() < 0.1:
            out.append({'fn': fn, 'args': list(args)})
            if ctx is not None:
                ctx.count('calls:repeated')
    return out


def _call_line(c):
    fn, args = c['fn'], list(c['args'])
    nargs, defaults = _FN[fn][1], _FN[fn][2]
    missing = nargs - len(args)
    if missing:
        args = args + list(defaults[len(defaults) - missing:])
    return fn + ' ' + ' '.join(_fbits(a) for a in args)


def _call_raw(c):
    from ladybug import psychrometrics as ps
    f = getattr(ps, _FN[c['fn']][0])
    if c.get('kw'):
        kw = dict(reversed(list(zip(_KW[c['fn']], c['args']))))
        return _impl_vals(lambda: f(**kw))
    return _impl_vals(lambda: f(*c['args']))


def _compare_calls(ctx, tag, calls, raws):
    outs = ctx.driver().run([_call_line(c) for c in calls])
    for i, (c, o, iv) in enumerate(zip(calls, outs, raws)):
        if iv == 'zero':
            ctx.count('skipped_zero_division')
            continue
        mv = _model_vals(o)
        tol = 1e-9 if c['fn'] in _SOLVERS else 1e-12
        ctx.compared += 1
        ctx.count('op:' + tag)
        ctx.case((tag, _call_line(c), len(c['args'])), nontrivial=iv is not None)
        ok = (mv is None and iv is None) or (
            isinstance(mv, list) and isinstance(iv, list) and len(mv) == len(iv)
            and all(_close(a, b, tol) for a, b in zip(mv, iv)))
        if ok and isinstance(mv, list) and mv == iv:
            ctx.count('bit_exact')
        if not ok:
            ctx.disagree(tag, {'call': c, 'position': i, 'previous_calls': calls[max(0, i - 3):i]}, o, repr(iv))
            return False
    return True


# -- fresh processes -------------------------------------------------------------------------------------------

def _fresh_run(cases, mode):
    """Evaluate `cases` in order in a fresh Python process (same module, same checkout).  mode 'raw': the raw
    observations (call values / history records); mode 'oracle': check_case on each, stop at the first failure."""
    env = dict(_os.environ)
    code = ('import sys; sys.path.insert(0, %r); from harness import core; sys.path.insert(0, core.REPO); '
            'from harness.props import c09; c09._worker_main()' % _ROOT)
    p = _subprocess.run([_sys.executable, '-c', code], input=_json.dumps({'mode': mode, 'cases': cases}).encode(),
                        stdout=_subprocess.PIPE, stderr=_subprocess.PIPE, env=env, timeout=600)
    if p.returncode != 0:
        raise RuntimeError('fresh process failed: ' + p.stderr.decode('utf-8', 'replace')[-800:])
    return _json.loads(p.stdout.decode())


def _enc(res):
    """Outcome -> JSON (floats as bit patterns)."""
    if isinstance(res, list):
        return ['vals'] + [_fbits(v) for v in res]
    if isinstance(res, tuple):
        return [res[0]] + ([_fbits(v) for v in res[1]] if res[0] == 'vals' else list(res[1:]))
    return res


def _dec(x):
    if isinstance(x, list) and x and x[0] == 'vals':
        return ('vals', [_fromb(t) for t in x[1:]])
    if isinstance(x, list):
        return tuple(x)
    return x


def _worker_main():
    job = _json.loads(_sys.stdin.read())
    out = []
    for op, inp in job['cases']:
        if job['mode'] == 'raw':
            if op == 'call':
                r = _call_raw(inp)
                out.append(_enc(r) if isinstance(r, list) else r)
            elif op == 'dd_history':
                try:
                    out.append([_enc(rec['res']) for rec in _dd_run(inp)])
                except Exception as e:
                    out.append('harness:' + type(e).__name__ + ':' + str(e)[:200])
            elif op == 'chart_history':
                try:
                    out.append([_enc(res) for _, _, res in _chart_run(inp)[1]])
                except Exception as e:
                    out.append('harness:' + type(e).__name__ + ':' + str(e)[:200])
            else:
                out.append(None)
        else:
            del _SUB[:]
            del _CNT[:]
            try:
                res = check_case(op, inp)
            except Exception as e:
                res = {'required': 'oracle evaluates', 'observed': 'exception %s: %s' % (type(e).__name__, e),
                       'sig': {'exception': type(e).__name__}}
            out.append(res)
            if res:
                break
    _sys.stdout.write(_json.dumps(out, default=str))


def _check_order(inp):
    """The listed oracle cases, evaluated in this order in ONE fresh process, all hold (a module- or class-level
    slot filled by an earlier case must not change a later answer)."""
    res = _fresh_run(inp['order'], 'oracle')
    _sub('process_order', not (res and res[-1]))
    if res and res[-1]:
        k = len(res) - 1
        f = res[-1]
        alone = _fresh_run([inp['order'][k]], 'oracle')
        return _fail('case %d (%s) of the order holds after the %d cases before it: %s'
                     % (k, inp['order'][k][0], k, f.get('required')), f.get('observed'),
                     clause='process_order', inner=inp['order'][k][0], fails_alone=bool(alone and alone[-1]),
                     inner_clause=str((f.get('sig') or {}).get('clause')))
    return None


def _check_routes(inp):
    """One state of moist air reached through each metric: the dew point and the wet bulb computed from the humidity
    ratio, the enthalpy and the wet bulb agree with those computed from the relative humidity (solver tolerance),
    and air without water vapour has the documented dew point -273.15 C through every route."""
    from ladybug import psychrometrics as ps
    db, rh, p, ref = inp['db'], inp['rh'], inp['p'], inp.get('ref', 0.0)
    side = 'ice' if db <= 0 else 'water'
    if rh == 0:
        for route, f in (('hr', lambda: ps.dew_point_from_db_hr(db, 0.0, p)),
                         ('hr_default_pressure', lambda: ps.dew_point_from_db_hr(db, 0)),
                         ('enth', lambda: ps.dew_point_from_db_enth(db, inp['dry_enth'], p, ref)),
                         ('wb_hr', lambda: ps.wet_bulb_from_db_hr(db, 0.0, p))):
            if route == 'enth' and inp.get('dry_enth') is None:
                continue
            try:
                got = f()
            except Exception as e:
                got = 'raises ' + type(e).__name__
            if route == 'wb_hr':
                want = ps.wet_bulb_from_db_rh(db, 0.0, p)
                ok = got == want
            else:
                want, ok = -273.15, got == -273.15
            if not _sub('routes_dry_air', ok):
                return _fail('dry air (no water vapour) through the %s route gives %r as through relative humidity 0'
                             % (route, want), got, clause='routes_dry', route=route)
        return None
    hr = ps.humid_ratio_from_db_rh(db, rh, p)
    dpt = ps.dew_point_from_db_rh(db, rh)
    wb = ps.wet_bulb_from_db_rh(db, rh, p)
    en = ps.enthalpy_from_db_hr(db, hr, ref)
    lo = ps.rel_humid_from_db_dpt(db, dpt - 2 * SOLVER_TOL)
    hi = ps.rel_humid_from_db_dpt(db, min(dpt + 2 * SOLVER_TOL, db))

    def dew_ok(d):
        # a dew point from another route: <= dry bulb and within the solver tolerance of the rh route
        return d <= db and abs(d - dpt) <= 2 * SOLVER_TOL and lo <= ps.rel_humid_from_db_dpt(db, d) <= hi * (1 + 1e-12)
    routes = [('hr', lambda: ps.dew_point_from_db_hr(db, hr, p), dew_ok)]
    if en > 0:
        routes.append(('enth', lambda: ps.dew_point_from_db_enth(db, en, p, ref), dew_ok))
    # (where the two wet bulbs lie on different sides of 0 C the step of humid_ratio_from_db_wb at 0 C separates
    # them: open finding C09-wet-bulb-drops-at-0C, asserted by the `rises` cases, not here)
    wb_back = ps.wet_bulb_from_db_rh(db, ps.rel_humid_from_db_hr(db, hr, p), p)
    routes.append(('wb_hr', lambda: ps.wet_bulb_from_db_hr(db, hr, p),
                   lambda w: w == wb_back and dpt - 2 * SOLVER_TOL <= w <= db and
                   (abs(w - wb) <= 2 * SOLVER_TOL or (w >= 0) != (wb >= 0))))
    # the wet-bulb route goes through rel_humid_from_db_wb: consistent with THAT function's relative humidity
    wb_in = inp.get('wb_in')
    if wb_in is not None:
        rh_wb = ps.rel_humid_from_db_wb(db, wb_in, p)
        if rh_wb <= 0 or rh_wb >= 0.01:
            want = ps.dew_point_from_db_rh(db, rh_wb)
            routes.append(('wb', lambda: ps.dew_point_from_db_wb(db, wb_in, p), lambda d: d == want))
    for route, f, ok_fn in routes:
        try:
            got = f()
            ok = ok_fn(got)
        except Exception as e:
            got, ok = 'raises ' + type(e).__name__, False
        if not _sub('routes_agree', ok):
            return _fail('the %s route describes the same state as relative humidity %r at %r C: dew point %r, '
                         'wet bulb %r (solver tolerance 0.1 C each)' % (route, rh, db, dpt, wb), got,
                         clause='routes', route=route, side=side, straddles=(db > 0) != (dpt > 0))
    return None


def _check_calls(inp):
    """A call history evaluated in this process: each answer equals the answer to the same question asked alone
    in a fresh process (pure functions: no answer depends on what was asked before)."""
    calls = inp['calls']
    here = [_call_raw(c) for c in calls]
    k = inp.get('focus')
    idx = range(len(calls)) if k is None else [k]
    # the independent answers: one fresh process, reversed order (so that any memo is filled differently)
    order = list(reversed(range(len(calls))))
    there = _fresh_run([['call', calls[j]] for j in order], 'raw')
    alone = {j: (_dec(r)[1] if isinstance(r, list) else r) for j, r in zip(order, there)}
    for j in idx:
        a, b = here[j], alone[j]
        ok = a == b or (isinstance(a, list) and isinstance(b, list) and len(a) == len(b)
                        and all(x == y for x, y in zip(a, b)))
        if not _sub('calls_order_independent', ok):
            return _fail('call %d %s%r answers the same in another order of the same calls: %r'
                         % (j, calls[j]['fn'], tuple(calls[j]['args']), b), a, clause='calls_order',
                         fn=calls[j]['fn'])
    return None


_R3_OPS = {'dd_history': _check_dd_history, 'dd_entry': _check_dd_entry, 'dd_ashrae': _check_dd_ashrae,
           'chart_history': _check_chart_history, 'order': _check_order, 'routes': _check_routes,
           'calls': _check_calls}


R3_FIXED = [
    # read -> set pressure -> read on one object, all humidity types (a memo of the day dew point must follow)
    ('dd_history', {'entry': 'ctor', 'twin': None,
                    'init': {'type': 'Wetbulb', 'value': 23.0, 'p': 101325.0, 'db_max': 32.0, 'db_range': 11.0},
                    'ops': [[0, 'hdew', None], [0, 'p', 84000.0], [0, 'hdew', None], [0, 'hrh', None],
                            [0, 'value', 20.0], [0, 'hrh', None], [0, 'db_max', 35.0], [0, 'dew', None],
                            [0, 'db_range', -1.0], [0, 'hdew', None], [0, 'type', 'Dewpoint'], [0, 'hdpv', None]]}),
    ('dd_history', {'entry': 'idf', 'twin': {'p': 70000.0},
                    'init': {'type': 'Enthalpy', 'value': 65000.0, 'p': 101325.0, 'db_max': 30.0, 'db_range': 9.0},
                    'ops': [[0, 'dew', None], [1, 'dew', None], [0, 'hrh', None], [1, 'hrh', None],
                            [0, 'idf', None], [0, 'reidf', None], [1, 'redict', None], [0, 'dict', None]]}),
    ('dd_history', {'entry': 'dict', 'twin': None,
                    'init': {'type': 'Dewpoint', 'value': 0, 'p': 101325, 'db_max': 8.0, 'db_range': 0},
                    'ops': [[0, 'hrh', None], [0, 'type', 'bad:none'], [0, 'hrh', None], [0, 'type', 'Wetbulb'],
                            [0, 'hrh', None], [0, 'bad_hc', 'bad:str'], [0, 'dup', None]]}),
    ('dd_entry', {'state': {'type': 'Enthalpy', 'value': 65000.0, 'p': 101325.0, 'db_max': 30.0, 'db_range': 9.0}}),
    ('dd_entry', {'state': {'type': 'HumidityRatio', 'value': 0.012, 'p': 90000.0, 'db_max': 28.0, 'db_range': 0.0}}),
    ('dd_entry', {'state': {'type': 'Wetbulb', 'value': 2.0, 'p': 101325.0, 'db_max': 8.0, 'db_range': 6.0}}),
    ('dd_entry', {'state': {'type': 'Dewpoint', 'value': 0.0, 'p': 101325.0, 'db_max': 5.0, 'db_range': 4.0}}),
    ('dd_ashrae', {'db': 33.1, 'wb': 24.2, 'dbr': 10.4, 'p': None}),
    ('dd_ashrae', {'db': -12.0, 'wb': -12.0, 'dbr': 0.0, 'p': 84000.0}),
    ('routes', {'db': 20.0, 'rh': 0.0, 'p': 101325.0, 'dry_enth': 20.12}),
    ('routes', {'db': 0.0, 'rh': 0.0, 'p': 101325.0, 'dry_enth': 0.0}),
    ('routes', {'db': -10.0, 'rh': 0.0, 'p': 70000.0, 'dry_enth': None}),
    ('routes', {'db': 10.0, 'rh': 20.0, 'p': 101325.0, 'wb_in': 3.5}),        # dry bulb above, dew point below 0 C
    ('routes', {'db': 2.0, 'rh': 80.0, 'p': 101325.0, 'wb_in': 1.0}),
    ('routes', {'db': 25.0, 'rh': 5.0, 'p': 101325.0, 'wb_in': 9.0, 'ref': -17.78}),
    ('routes', {'db': -5.0, 'rh': 60.0, 'p': 60000.0, 'wb_in': -6.5}),
    ('routes', {'db': 30.0, 'rh': 100.0, 'p': 105000.0, 'wb_in': 30.0}),
]


def _routes_case(rng, ctx=None):
    db, rh, p = _db(rng), _rh_met(rng), _p(rng)
    r = rng.random()
    stratum = 'any'
    if r < 0.25:
        # dry bulb above 0 C with a dew (frost) point below 0 C: both branches in one solve
        db = rng.choice([rng.uniform(0.0, 25.0), rng.uniform(0.0, 3.0), 1e-9, 10.0])
        frost = rng.uniform(-25.0, -0.01)
        rh = max(0.01, min(100.0, 100.0 * magnus(frost) / magnus(db)))
        stratum = 'straddle'
    elif r < 0.35:
        rh = 0.0
        stratum = 'dry_air'
    inp = {'db': db, 'rh': rh, 'p': p, 'ref': rng.choice([0.0, 0.0, -17.78])}
    if rh == 0.0:
        e = 1.006 * (db - inp['ref'])
        # only where plain arithmetic shows that the enthalpy of dry air converts back to a humidity ratio of exactly 0
        inp['dry_enth'] = e if (e >= 0 and e - 1.006 * (db - inp['ref']) == 0) else None
    else:
        # a wet bulb consistent with the state (psychrometer relation on the Magnus curve), for the wet-bulb route
        pw = magnus(db) * rh / 100.0
        a, b = db - 40.0, db
        for _ in range(40):
            m = (a + b) / 2.0
            if magnus(m) - p * 6.6e-4 * (db - m) > pw:
                b = m
            else:
                a = m
        inp['wb_in'] = b
    if ctx is not None:
        ctx.count('routes:' + stratum)
    return inp


def _order_slice(rng, n_state, n_hist):
    """A slice of the oracle stream (no case that matches an open finding) for the process-order runs."""
    cases = []
    for _ in range(n_state):
        db, rh, p = _db(rng), max(_rh_met(rng), 0.01), _p(rng)
        cases.append(['state', {'db': db, 'rh': rh, 'p': p, 'ref': _ref(rng)}])
        # the same question with ONE component changed (a memo keyed on part of the arguments answers it wrongly)
        twin = {'db': db, 'rh': rh, 'p': p, 'ref': 0.0}
        k = rng.choice(['p', 'rh', 'db'])
        twin[k] = {'p': _p(rng), 'rh': max(_rh_met(rng), 0.01), 'db': _db(rng)}[k]
        cases.append(['state', twin])
        cases.append(['routes', _routes_case(rng)])
        t1 = _db(rng)
        cases.append(['svp', {'t1': t1, 't2': t1 + rng.choice([1e-6, 0.1, 3.0])}])
        cases.append(['derivative', {'db': _db(rng)}])
    for _ in range(n_hist):
        cases.append(['dd_history', _dd_history_case(rng)])
        ch = _chart_history_case(rng)
        if 'hrmax' in ch:
            ch['hrmax'] = 0.03            # (another maximum: open finding C09-enthalpy-lines-ignore-max-humidity-ratio)
        cases.append(['chart_history', ch])
        st = _dd_history_case(rng)['init']
        cases.append(['dd_entry', {'state': st}])
    cases.append(['continuity', {}])
    return cases


def _rarity(case):
    """Sort key that puts the rare classes first (failing calls, dry air, below freezing, IP charts, refusals)."""
    op, inp = case
    if op == 'routes':
        return 0 if inp['rh'] == 0 else (1 if inp['db'] > 0 and inp['rh'] < 30 else 5)
    if op == 'dd_history':
        return 1 if any(_dd_apply({}, n, a)[1] == 'refused' for _, n, a in inp['ops'] if n in DD_FIELDS) else 4
    if op == 'chart_history':
        return 1 if inp.get('refused_first') else (2 if inp['par'][0] else 4)
    if op == 'state':
        return 2 if inp['db'] <= 0 else 6
    if op in ('svp', 'derivative'):
        return 3 if inp.get('t1', inp.get('db', 1.0)) <= 0 else 6
    return 5


def _oracle_cases_r3(ctx, big):
    rng = ctx.rng
    for c in R3_FIXED + R4_FIXED:
        yield c
    n = 1500 if big else 120
    for _ in range(n * 4):
        yield 'routes', _routes_case(rng, ctx)
    for _ in range(n * 3 // 2):
        yield 'dd_history', _dd_history_case(rng, ctx)
    for _ in range(n // 3):
        st = _dd_history_case(rng)['init']
        ctx.count('ddentry:' + st['type'])
        style = rng.choice([None, 'exp', 'crlf', 'oneline', 'pad'])
        ctx.count('ddentry:style:' + str(style))
        yield 'dd_entry', {'state': st, 'style': style}
    for _ in range(n // 6):
        db = rng.choice([rng.uniform(25, 42), rng.uniform(-25, 5)])
        yield 'dd_ashrae', {'db': db, 'wb': db - rng.uniform(0.5, 12.0), 'dbr': rng.choice([0.0, rng.uniform(4, 14)]),
                            'p': rng.choice([None, None, _p(rng)]), 'alt': rng.random() < 0.4}
    for _ in range(n * 3 // 4):
        yield 'chart_history', _chart_history_case(rng, ctx)
    # one process, several call histories; and the same oracle stream in fresh processes in different orders
    for _ in range(3 if big else 1):
        yield 'calls', {'calls': _call_history(rng, 400 if big else 150, ctx)}
    base = _order_slice(rng, 60 if big else 12, 25 if big else 6)
    orders = [sorted(base, key=_rarity), list(reversed(sorted(base, key=_rarity)))]
    for _ in range(2 if big else 1):
        sh = list(base)
        rng.shuffle(sh)
        orders.append(sh)
    for o in orders:
        ctx.count('order:processes')
        yield 'order', {'order': o}


def _corr_round3(ctx):
    """History correspondence: real objects / real call sequences step by step against the Lean model (the
    design-day state machine `ddhist`, the pure functions, the chart coordinates), in this process and in fresh
    processes with other orders."""
    rng = ctx.rng
    # (1) design-day histories against the state machine
    hists = [_dd_history_case(rng, ctx) for _ in range(ctx.n(150, 2500))]
    hists += [c[1] for c in R3_FIXED if c[0] == 'dd_history']
    for inp in hists:
        try:
            recs = _dd_run(inp)
        except Exception as e:
            ctx.disagree('dd_history', {'history': inp}, 'history runs', 'harness: %s: %s' % (type(e).__name__, e))
            break
        _dd_compare_model(ctx, 'dd_history', inp, recs)
        if len(ctx.disagreements) > 3:
            break
    # (2) call histories of psychrometrics.py in this process
    calls = _call_history(rng, ctx.n(1500, 30000), ctx)
    _compare_calls(ctx, 'calls', calls, [_call_raw(c) for c in calls])
    # (3) chart histories: plot_point / data_points between other reads, against the model coordinates
    charts = [_chart_history_case(rng, ctx) for _ in range(ctx.n(40, 500))]
    for inp in charts:
        try:
            first, recs = _chart_run(inp)
        except Exception as e:
            ctx.disagree('chart_history', {'history': inp}, 'history runs', 'harness: %s: %s' % (type(e).__name__, e))
            break
        _chart_compare_model(ctx, 'chart_history', inp, [r for _, _, r in recs])
    # (4) the same material in fresh processes, rare classes first / reversed / shuffled
    n_proc = 3 if not ctx.quick else 2
    sl_calls = calls[:ctx.n(400, 3000)]
    sl_h = hists[:ctx.n(40, 300)]
    sl_c = charts[:ctx.n(15, 100)]
    for k in range(n_proc):
        cases = ([['call', c] for c in sl_calls] + [['dd_history', h] for h in sl_h]
                 + [['chart_history', c] for c in sl_c])
        if k == 0:
            def key(c):
                if c[0] == 'call':
                    a = c[1]['args']
                    return 0 if any(x <= 0 for x in a) else 3
                return _rarity(c)
            cases.sort(key=key)
        elif k == 1:
            cases.reverse()
        else:
            rng.shuffle(cases)
        ctx.count('fresh_processes')
        try:
            outs = _fresh_run(cases, 'raw')
        except Exception as e:
            ctx.disagree('fresh_process', {'order_kind': k}, 'fresh process evaluates the cases',
                         '%s: %s' % (type(e).__name__, str(e)[:300]))
            continue
        cc = [(c[1], _dec(o)[1] if isinstance(o, list) else o) for c, o in zip(cases, outs) if c[0] == 'call']
        _compare_calls(ctx, 'calls_fresh_process', [c for c, _ in cc], [r for _, r in cc])
        for c, o in zip(cases, outs):
            if c[0] == 'call':
                continue
            if isinstance(o, str):
                ctx.disagree(c[0] + '_fresh_process', {'history': c[1]}, 'history runs', o)
                continue
            if c[0] == 'dd_history':
                recs = _dd_run_skeleton(c[1])
                for rec, r in zip(recs, o):
                    rec['res'] = _dec(r)
                _dd_compare_model(ctx, 'dd_history_fresh_process', c[1], recs)
            else:
                _chart_compare_model(ctx, 'chart_history_fresh_process', c[1], [_dec(r) for r in o])
        if len(ctx.disagreements) > 3:
            break


def _dd_run_skeleton(inp):
    """The records of a history without touching the code (names, arguments, tracked states)."""
    sts = [dict(inp['init'])]
    if inp.get('twin'):
        t = dict(inp['init'])
        t.update(inp['twin'])
        sts.append(t)
    out = []
    for k, name, arg in inp['ops']:
        before = sts[k]
        sts[k], verdict = _dd_apply(sts[k], name, arg)
        out.append({'obj': k, 'name': name, 'arg': arg, 'res': None, 'verdict': verdict, 'before': before,
                    'state': sts[k]})
    return out


def _chart_compare_model(ctx, tag, inp, results):
    par = tuple(inp['par'])
    use_ip, bx, by, xd, yd, tmin, tmax, p = par
    tv, rv = _chart_inputs(inp)
    head = [bx, by, xd, yd, float(tmin), p]
    hrmax = inp.get('hrmax', 0.03)
    temps = [float(t) for t in list(range(int(tmin), int(tmax), 5)) + [int(tmax)]]
    lines, want, kinds = [], [], []
    for (name, arg), res in zip(inp['reads'], results):
        if name == 'plot':
            lines.append(['plot %s %s' % ('1' if use_ip else '0', ' '.join(_fbits(x) for x in head + [arg[0], arg[1]]))])
        elif name == 'data_points':
            # the whole tuple (Chart.dataPoints): one entry per state of the data, whatever the chart's limits
            lines.append(['datapts %s %s' % ('1' if use_ip else '0',
                                             ' '.join(_fbits(x) for x in head + list(tv) + list(rv)))])
        elif name == 'rh_lines':
            # relative_humidity_polyline(rh, 1) for rh = 10 .. 100: the vertices below the cut-off (Model/PsychroChart)
            lines.append(['rhline %s %s' % ('1' if use_ip else '0',
                                            ' '.join(_fbits(x) for x in head + [hrmax, float(rh)] + temps))
                          for rh in range(10, 110, 10)])
        else:
            continue
        want.append(res)
        kinds.append(name)
    flat = [ln for grp in lines for ln in grp]
    if not flat:
        return
    outs = ctx.driver().run(flat)
    pos = 0
    for grp, res, kind in zip(lines, want, kinds):
        o = outs[pos:pos + len(grp)]
        pos += len(grp)
        ctx.compared += 1
        ctx.count('op:' + tag + (':rh_lines' if kind == 'rh_lines' else ''))
        ctx.case((tag, grp[0], len(grp)), nontrivial=res[0] == 'vals')
        per = [_model_vals(x) if x != 'ok' else [] for x in o]
        if kind == 'rh_lines':
            ok = res[0] == 'vals' and all(isinstance(v, list) for v in per)
            if ok:
                vals, j = res[1], 0
                for mv in per:
                    if j >= len(vals):
                        ok = False
                        break
                    m = int(vals[j])
                    real = vals[j + 1:j + 1 + 2 * m]
                    j += 1 + 2 * m
                    k = len(mv) // 2
                    if k == len(temps):          # the curve never reaches the top: all vertices
                        same = real
                        ok = ok and m == k
                    else:                        # below the cut-off (the code may drop the last one), then the cut-off
                        same = real[:-2]
                        ok = ok and m in (k, k + 1)
                    ok = ok and all(_close(x, y, 1e-12) for x, y in zip(same, mv)) and len(same) <= len(mv)
                ok = ok and j == len(vals)
            mv = per
        else:
            mv = []
            for v in per:
                if not isinstance(v, list):
                    mv = None
                    break
                mv.extend(v)
            if res[0] == 'vals':
                ok = mv is not None and len(mv) == len(res[1]) and all(_close(a, b, 1e-12) for a, b in zip(mv, res[1]))
            else:
                ok = mv is None
        if not ok:
            ctx.disagree(tag, {'history': inp, 'read': grp[0][:80]}, repr(mv)[:300], repr(res)[:300])
            return


# =============================================================================================
# ROUND 4: input shapes, aliasing / returned containers, override gaps (every concrete class), conventions
# between caller and callee, numeric edges, rarely taken branches.
#
# Concrete classes that reach the anchored code and are exercised (kind e):
#   PsychrometricChart(temperature, relative_humidity): HourlyContinuousCollection (hourly and sub-hourly
#   timestep 2 / 4), HourlyDiscontinuousCollection (unsorted, repeated datetimes), DailyCollection, the three
#   immutable twins, plain numbers (float, int, text '20.5', ' 2.05e1 ', padded), entry points constructor and
#   from_dict (hand-written dictionary, keys in reverse insertion order, numbers as text where float() accepts them);
#   HumidityCondition / DryBulbCondition / DesignDay have no subclasses; the sibling "fast" formulas are compared
#   with the model only (they are not part of the statement).
# Branches of the anchored functions (kind j) and the counted stratum that reaches each (`branch:*` counters):
#   saturated_vapor_pressure  t <= 273.15 / else ............. branch:svp_ice, branch:svp_water
#   _d_ln_p_ws                db <= 0 / else ................. branch:dlnpws_ice, branch:dlnpws_water
#   enthalpy_from_db_hr       enthalpy >= 0 / clamp to 0 ..... branch:enth_positive, branch:enth_clamped
#   dew_point_from_db_rh      except ValueError (rh <= 0) .... branch:dpt_no_vapour
#                             Newton converged ............... branch:dpt_newton
#                             min(td, db) takes db ........... branch:dpt_clamped_to_db (rh >= 100)
#                             index > 100 .................... branch:dpt_iteration_limit (nan input only)
#   wet_bulb_from_db_rh       loop not entered ............... branch:wb_loop_skipped (within 0.1 C of saturation)
#                             w_star > humid_ratio both ways . branch:wb_bisect
#                             index >= 100 ................... branch:wb_iteration_limit (infinite bracket only)
#   humid_ratio_from_db_wb    wb >= 0 / else ................. branch:hr_wb_water, branch:hr_wb_ice
#   dew_point_from_db_rh_fast except ValueError .............. branch:dpt_fast_no_vapour
#   wet_bulb_from_db_rh_fast  e_d == 0 break: not reachable with generated floats (needs an exact zero residual);
#                             sign change / no sign change ... branch:wb_fast (both in every solve)
#   HumidityCondition.dew_point            4 types ........... ddhist:type:*, dd:*; fall-through (unknown type) is
#                                                              unreachable through the validating setter
#   hourly_dew_point_values   db >= max_dpt / else ........... branch:dd_hour_uncapped, branch:dd_hour_capped
#   from_idf                  field 10 empty / HumidityRatio / Enthalpy ... ddhist:entry:idf x type
#   from_ashrae_dict_*        pressure None / given, use_990 / use_010 ... ddashrae:*
#   PsychrometricChart.__init__  single temperature / use_ip / number or collection / Daily or hourly
#                                ............................. branch:chart_single_temperature, branch:chart_ip,
#                                                              charthist:coll:*, charthist:scalar_form:*
#   relative_humidity_polyline   subdivisions 1 / 2 .......... reads rh_lines / sat; cut-off at the top or not:
#                                branch:rhline_cutoff, branch:rhline_no_cutoff (the `del pts[-1]` sub-branch is not
#                                visible from outside and not counted separately)
#   _compute_border              max_hr > hmax / else ........ branch:border_5_vertices, branch:border_4_vertices
#   _compute_enthalpy_range / _compute_wb_range  2 / 1 / 0 intersections: branch:enth_lines_*, read `wb`
#   _compute_hour_values         value outside the chart ..... refused_first 'offchart' and (round 6) the generated
#                                data of about half of the charts: chartdata:some_below / some_above / below_and_above
# Caller / callee conventions (kind g) checked against relations that do not share the code path:
#   relative_humidity_polyline -> db_temp_from_rh_hr(rh %, kg/kg, Pa) -> C -> F : chart_rh_cutoff
#   hr_lines -> db_temp_from_rh_hr(100, label) : chart_hr_line
#   _compute_enthalpy_range -> db_temp_from_enth_hr(kJ/kg | Btu/lb -> kJ/kg, hr, reference 0 C | 0 F) : chart_enth_line
#   _compute_wb_range -> db_temp_and_hr_from_wb_rh(C from F, %, Pa) : chart_wb_line
#   _generate_mesh -> humid_ratio_from_db_rh(C from F, %, Pa) : chart_mesh_vertex
#   HumidityCondition.dew_point -> dew_point_from_db_enth(kJ/kg from J/kg) etc.: dd_history / dd_entry (round 3)
#   psychrometrics.py called by keyword as documented (calls:keywords)
# Aliasing (kind f): every list / dict / collection a design day hands out is edited in place and the reads are
#   asked again (edit_hdpv, edit_hdb, edit_hp, edit_dict, edit_coll, keep); dictionaries are built in reverse
#   insertion order; one-shot iterables as collection values are refused by the collections themselves
#   (TypeError in _check_values on the unchanged tree) and appear as refused constructions before the reads.

_CHART_R4_KEYS = ('coll', 'container', 'scalar_form', 'hrmax', 'entry', 'num_form', 'tfrac')
_COLL_KINDS = ('hourly', 'hourly_im', 'disc', 'disc_im', 'daily', 'daily_im', 'sub2', 'sub4')
_SCALAR_FORMS = ('float', 'int', 'str', 'str_exp', 'str_pad')


def _chart_r4_shape(rng, inp, ctx=None):
    """Round-4 variations of one chart history (kept in the input, so that the replay rebuilds the same chart)."""
    shape = inp['shape']
    inp['coll'] = rng.choice(_COLL_KINDS)
    inp['container'] = rng.choice(['list', 'tuple'])
    inp['scalar_form'] = rng.choice(_SCALAR_FORMS)
    inp['hrmax'] = rng.choice([0.03, 0.03, 0.03, 0.03, 0.02, 0.025, 0.0285, 0.04, 0.029, 0.035])
    inp['entry'] = rng.choice(['ctor', 'ctor', 'dict'])
    inp['num_form'] = rng.choice(['float', 'str', 'str_exp'])
    tmin, tmax = inp['par'][5], inp['par'][6]
    if rng.random() < 0.3:
        # fractional chart limits: the chart keeps int(limit), i.e. the limit truncated towards zero
        fa, fb = rng.choice([0.5, 0.25, 0.999]), rng.choice([0.5, 0.75, 0.001])
        inp['tfrac'] = [fa if tmin >= 0 else -fa, fb if tmax >= 0 else -fb]
    if inp['scalar_form'] == 'int':
        if shape in ('scalar_t', 'one'):
            inp['t'] = [float(round(inp['t'][0]))] + list(inp['t'][1:])
        if shape in ('scalar_rh', 'one'):
            inp['rh'] = [float(round(inp['rh'][0]))] + list(inp['rh'][1:])
    if inp['hrmax'] != 0.03:
        # plotted points on the data read of `plot` stay valid; nothing else depends on the maximum
        pass
    if ctx is not None:
        ctx.count('charthist:coll:' + inp['coll'])
        ctx.count('charthist:container:' + inp['container'])
        ctx.count('charthist:entry:' + inp['entry'])
        ctx.count('charthist:hrmax:%g' % inp['hrmax'])
        ctx.count('charthist:num_form:' + inp['num_form'])
        if shape != '24':
            ctx.count('charthist:scalar_form:' + inp['scalar_form'])
        if 'tfrac' in inp:
            ctx.count('charthist:fractional_limits')
    return inp


def _num_form(v, form):
    if form == 'int':
        return int(v)
    if form == 'str':
        return repr(float(v))
    if form == 'str_exp':
        return ' %.17e' % float(v)
    if form == 'str_pad':
        return '\t %r \n' % float(v)
    return v


def _r4_collection(kind, temperature, vals, container):
    from ladybug import datacollection as dc
    from ladybug.header import Header
    from ladybug.analysisperiod import AnalysisPeriod
    from ladybug.datatype.temperature import DryBulbTemperature
    from ladybug.datatype.fraction import RelativeHumidity
    from ladybug.dt import DateTime
    dtype, unit = (DryBulbTemperature(), 'C') if temperature else (RelativeHumidity(), '%')
    seq = tuple(vals) if container == 'tuple' else list(vals)
    base = kind.split('_')[0]
    n = len(seq)
    if base == 'hourly':
        c = dc.HourlyContinuousCollection(Header(dtype, unit, AnalysisPeriod(1, 1, 0, 1, 1, 23)), seq)
    elif base in ('sub2', 'sub4'):
        c = dc.HourlyContinuousCollection(Header(dtype, unit, AnalysisPeriod(1, 1, 0, 1, 1, 23, int(base[3:]))), seq)
    elif base == 'disc':
        dts = [DateTime(1 + (7 * i) % 12, 1 + (5 * i) % 28, (11 * i) % 24) for i in range(n)]   # unsorted
        dts[-1] = dts[0]                                                                          # and repeated
        c = dc.HourlyDiscontinuousCollection(Header(dtype, unit, AnalysisPeriod()), seq, dts)
    else:
        c = dc.DailyCollection(Header(dtype, unit, AnalysisPeriod()), seq, [1 + (37 * i) % 365 for i in range(n)])
    return c.to_immutable() if kind.endswith('_im') else c


def _chart_make_r4(inp):
    from ladybug.psychchart import PsychrometricChart
    from ladybug_geometry.geometry2d.pointvector import Point2D
    use_ip, bx, by, xd, yd, tmin, tmax, p = tuple(inp['par'])
    tv, rv = _chart_inputs(inp)
    shape, coll, cont = inp.get('shape', '24'), inp.get('coll', 'hourly'), inp.get('container', 'list')
    sform, nform = inp.get('scalar_form', 'float'), inp.get('num_form', 'float')
    hrmax = inp.get('hrmax', 0.03)
    fr = inp.get('tfrac', [0, 0])
    t_in = _num_form(tv[0], sform) if shape in ('scalar_t', 'one') else _r4_collection(coll, True, tv, cont)
    r_in = _num_form(rv[0], sform) if shape in ('scalar_rh', 'one') else _r4_collection(coll, False, rv, cont)
    lo, hi = (tmin + fr[0], tmax + fr[1]) if 'tfrac' in inp else (tmin, tmax)
    if inp.get('entry', 'ctor') == 'dict':
        # a dictionary written by hand, keys in reverse order of the documented layout
        d = [('type', 'PsychrometricChart'), ('use_ip', use_ip), ('max_humidity_ratio', _num_form(hrmax, nform)),
             ('max_temperature', hi), ('min_temperature', lo), ('y_dim', _num_form(yd, nform)),
             ('x_dim', _num_form(xd, nform)), ('base_point', {'type': 'Point2D', 'y': by, 'x': bx}),
             ('average_pressure', _num_form(p, nform)),
             ('relative_humidity', r_in.to_dict() if hasattr(r_in, 'to_dict') else r_in),
             ('temperature', t_in.to_dict() if hasattr(t_in, 'to_dict') else t_in)]
        return PsychrometricChart.from_dict(dict(d))
    return PsychrometricChart(t_in, r_in, _num_form(p, nform), None, Point2D(bx, by), _num_form(xd, nform),
                              _num_form(yd, nform), lo, hi, _num_form(hrmax, nform), use_ip)


def _corr_round4(ctx):
    """Numeric edges (kind h) and the counted branch strata (kind j) of psychrometrics.py against the model."""
    from ladybug import psychrometrics as ps
    rng = ctx.rng
    tol, stol = 1e-12, 1e-9

    def L(op):
        return lambda c: op + ' ' + ' '.join(_fbits(x) for x in c)

    # magnitudes 1e-12 .. 1e+16 (with fractional factors) of every argument that is not a temperature
    c_hr, c_e, c_p, c_rh = [], [], [], []
    for k in range(-12, 17):
        for f in (1.0, 1.5, 0.9999999999999999, 2.0 ** 0.5):
            m = 10.0 ** k * f
            db, p = _db(rng), _p(rng)
            c_hr.append((db, m, p))
            c_e.append((db, m, p, _ref(rng)))
            c_p.append((db, _rh(rng), m))
            c_rh.append((db, m, p))
            ctx.count('magnitude:1e%+03d' % k)
    c_hr = [c for c in c_hr if c[1] != 0]
    _compare(ctx, 'rh_db_hr', c_hr, L('rh_db_hr'), lambda c: ps.rel_humid_from_db_hr(*c), tol)
    _compare(ctx, 'dpt_db_hr', c_hr, L('dpt_db_hr'), lambda c: ps.dew_point_from_db_hr(*c), stol)
    _compare(ctx, 'wb_db_hr', c_hr, L('wb_db_hr'), lambda c: ps.wet_bulb_from_db_hr(*c), stol)
    _compare(ctx, 'enth', [(c[0], c[1], c[3]) for c in c_e], L('enth'), lambda c: ps.enthalpy_from_db_hr(*c), tol)
    _compare(ctx, 'rh_db_enth', c_e, L('rh_db_enth'), lambda c: ps.rel_humid_from_db_enth(*c), tol)
    _compare(ctx, 'dpt_db_enth', c_e, L('dpt_db_enth'), lambda c: ps.dew_point_from_db_enth(*c), stol)
    _compare(ctx, 'db_enth_hr', [(c[1], 0.01, c[3]) for c in c_e], L('db_enth_hr'),
             lambda c: ps.db_temp_from_enth_hr(*c), tol)
    _compare(ctx, 'hr_db_rh', c_p + c_rh, L('hr_db_rh'), lambda c: ps.humid_ratio_from_db_rh(*c), tol)
    _compare(ctx, 'wb_db_rh', c_p + c_rh, L('wb_db_rh'), lambda c: ps.wet_bulb_from_db_rh(*c), stol)
    _compare(ctx, 'hr_db_wb', [(c[0], c[0] - 1.0, c[2]) for c in c_p], L('hr_db_wb'),
             lambda c: ps.humid_ratio_from_db_wb(*c), tol)
    _compare(ctx, 'rh_db_wb', [(c[0], c[0] - 1.0, c[2]) for c in c_p], L('rh_db_wb'),
             lambda c: ps.rel_humid_from_db_wb(*c), tol)
    _compare(ctx, 'dpt_db_rh', [(c[0], c[1]) for c in c_rh], L('dpt_db_rh'), lambda c: ps.dew_point_from_db_rh(*c), stol)

    # one counted stratum per branch of the anchored functions (see the ROUND 4 header)
    nan, inf = float('nan'), float('inf')
    n = ctx.n(60, 600)
    svp, dln, enth, dpt, wb, hrwb, fast = [], [], [], [], [], [], []
    for _ in range(n):
        db, rh, p = _db(rng), _rh(rng), _p(rng)
        t = db + 273.15
        svp.append((t,))
        ctx.count('branch:svp_ice' if t <= 273.15 else 'branch:svp_water')
        dln.append((db,))
        ctx.count('branch:dlnpws_ice' if db <= 0.0 else 'branch:dlnpws_water')
        ref = rng.choice([0.0, 30.0, -17.78, db + 5.0])
        hr = rng.choice([0.0, 1e-4, 0.01])
        e = 1.006 * (db - ref) + hr * (2501. + 1.86 * (db - ref))
        enth.append((db, hr, ref))
        ctx.count('branch:enth_positive' if e >= 0 else 'branch:enth_clamped')
        r = rng.choice([rh, rh, 0.0, -1.0, 100.0, 100.0000001, 130.0, 99.9, 99.99, 99.5])
        dpt.append((db, r))
        ctx.count('branch:dpt_no_vapour' if r <= 0 else ('branch:dpt_clamped_to_db' if r >= 100 else 'branch:dpt_newton'))
        wb.append((db, r, p))
        d = _impl_vals(lambda: ps.dew_point_from_db_rh(db, r))
        ctx.count('branch:wb_loop_skipped' if isinstance(d, list) and db - d[0] <= 0.1 else 'branch:wb_bisect')
        w = rng.choice([db - rng.uniform(0, 5), 0.0, -0.0, 1e-15, -1e-15])
        hrwb.append((db, w, p))
        ctx.count('branch:hr_wb_water' if w >= 0 else 'branch:hr_wb_ice')
        fast.append((db, rng.choice([rh, 0.0])))
        ctx.count('branch:dpt_fast_no_vapour' if fast[-1][1] == 0 else 'branch:dpt_fast_value')
    # iteration limits: only reachable with a not-a-number / infinite bracket
    dpt += [(20.0, nan), (nan, 50.0)]
    wb += [(inf, 50.0, 101325.0), (1e300, 50.0, 101325.0), (20.0, nan, 101325.0)]
    for _ in range(2):
        ctx.count('branch:dpt_iteration_limit')
    for _ in range(3):
        ctx.count('branch:wb_iteration_limit')
    _compare(ctx, 'svp', svp, L('svp'), lambda c: ps.saturated_vapor_pressure(*c), tol)
    _compare(ctx, 'dlnpws', dln, L('dlnpws'), lambda c: ps._d_ln_p_ws(*c), tol)
    _compare(ctx, 'enth', enth, L('enth'), lambda c: ps.enthalpy_from_db_hr(*c), tol)
    _compare(ctx, 'dpt_db_rh', dpt, L('dpt_db_rh'), lambda c: ps.dew_point_from_db_rh(*c), stol)
    _compare(ctx, 'wb_db_rh', wb, L('wb_db_rh'), lambda c: ps.wet_bulb_from_db_rh(*c), stol)
    _compare(ctx, 'hr_db_wb', hrwb, L('hr_db_wb'), lambda c: ps.humid_ratio_from_db_wb(*c), tol)
    _compare(ctx, 'dpt_fast', fast, L('dpt_fast'), lambda c: ps.dew_point_from_db_rh_fast(*c), tol)


R4_FIXED = [
    # open finding C09-enthalpy-lines-ignore-max-humidity-ratio
    ('chart_history', {'par': [False, 0.0, 0.0, 1.0, 1500.0, -20, 50, 101325.0],
                       't': [20.0 + i / 2.0 for i in range(24)], 'rh': [30.0 + 2.0 * i for i in range(24)],
                       'shape': '24', 'reads': [['enth', None]], 'refused_first': None, 'hrmax': 0.02}),
    # every curve family of an IP chart built from one temperature given as text and a daily immutable collection
    ('chart_history', {'par': [True, 10.0, -5.0, 1.5, 1200.0, 0, 110, 84000.0],
                       't': [21.0] + [20.0 + i / 2.0 for i in range(23)], 'rh': [5.0 + 4.0 * i for i in range(24)],
                       'shape': 'scalar_t', 'coll': 'daily_im', 'container': 'tuple', 'scalar_form': 'str_exp',
                       'hrmax': 0.03, 'entry': 'dict', 'num_form': 'str', 'tfrac': [0.5, 0.75], 'refused_first': None,
                       'reads': [['data_points', None], ['rh_lines', None], ['sat', None], ['enth', None], ['wb', None],
                                 ['hr_lines', None], ['mesh', None], ['border', None], ['tlines', None],
                                 ['plot', [69.8, 50]], ['redict', None], ['data_points', None]]}),
    ('chart_history', {'par': [False, 0.0, 0.0, 1.0, 1500.0, -20, 30, 101325.0],           # border with 4 vertices
                       't': [float(i) for i in range(24)], 'rh': [50.0] * 24, 'shape': '24', 'coll': 'disc',
                       'container': 'list', 'scalar_form': 'float', 'hrmax': 0.03, 'entry': 'ctor',
                       'num_form': 'float', 'refused_first': None,
                       'reads': [['border', None], ['rh_lines', None], ['sat', None], ['enth', None], ['wb', None],
                                 ['hr_lines', None], ['mesh', None]]}),
    # the lists a design day hands out are edited by the caller between the reads
    ('dd_history', {'entry': 'ctor', 'twin': None, 'style': 'pad',
                    'init': {'type': 'Wetbulb', 'value': 23.0, 'p': 84000.0, 'db_max': 32.0, 'db_range': 11.0},
                    'ops': [[0, 'hdew', None], [0, 'edit_hdpv', None], [0, 'hdew', None], [0, 'edit_hdb', None],
                            [0, 'hrh', None], [0, 'hdb', None], [0, 'edit_hp', None], [0, 'hp', None],
                            [0, 'edit_dict', None], [0, 'dict', None], [0, 'hrh', None], [0, 'edit_coll', None],
                            [0, 'hdew', None], [0, 'keep', None], [0, 'hrh', None]]}),
    ('dd_entry', {'state': {'type': 'HumidityRatio', 'value': 9.5e-05, 'p': 101325.0, 'db_max': -12.0, 'db_range': 3.0},
                  'style': 'exp'}),
    ('dd_entry', {'state': {'type': 'Enthalpy', 'value': 65432.1, 'p': 90000.0, 'db_max': 30.0, 'db_range': 9.0},
                  'style': 'oneline'}),
    ('dd_entry', {'state': {'type': 'Wetbulb', 'value': 18.25, 'p': 101325.0, 'db_max': 28.5, 'db_range': 9.0},
                  'style': 'crlf'}),
    ('dd_ashrae', {'db': 33.1, 'wb': 24.2, 'dbr': 10.4, 'p': 84000.0, 'alt': True}),
]
