"""C01 — EPW files survive a read/write cycle and keep the file's hour convention.

Model: lean/Ladybug/Model/Epw.lean; theorems: lean/Ladybug/Props/C01.lean; driver: drv_c01.
Tie: translator (Gen/EpwFields from EPWFields._fields + datatype/*.py, Gen/DesignDayTables key
lists) + correspondence on the ops of Drv/C01.lean.

All inputs are EPW texts built here from plain numbers (a JSON `spec` regenerates the text, so a
stored replay input is self-contained) or the shipped files under tests/assets/epw.

Round 3 (histories, failure paths, process order, rare values; section "round 3" below):
  * op `objhist`: an operation history on ONE object (lazy `EPW(path)`, `from_file_string`, `from_dict`):
    reads in any order and repeated, every public setter (location + its attributes, three design
    dictionaries, three week dictionaries, ground temperatures, comments, daylight saving, collection
    values), unit conversions, refused operations (arguments the validation rejects, field number outside
    the file, Wea hour outside the year, write of incomplete data, from_dict with missing collections).
    After every step the object is compared with the state the user established (file + accepted setters
    + unit system), every output (text, written file, Wea incl. its header, MOS incl. its header lines,
    dictionary -> from_dict) with what that state determines; a refused operation leaves everything as before.
    The same histories run on the Lean object state machine (driver op `obj`, Model/EpwObj.lean) with the
    header slots as ids (correspondence, step by step).
  * op `locdict`: location values that are zero / falsy / on a documented bound through setter, to_dict ->
    from_dict (own dictionary and a hand-written one), text, Wea header.
  * the list of producers and their consumers (which op exercises which) heads the round-3 section.
  * op `order`: a slice of the self-checking cases in 3-4 FRESH interpreters, each in another order (rare
    classes first: leap year, failing calls, IP; plain first; shuffled); replay input {"order": [[op, input], ...]}.

Round 4 (input shapes, aliasing, override gaps, conventions, numeric edges, rare branches; section "round 4"):
  * header-vs-file oracle (`_file_header_data`): ground temperatures per depth, weeks per bucket and the values of
    the three design-condition blocks are compared with the tokens of the FILE (an independent token-level reading
    of the eight lines), in `roundtrip`, `hdr_roundtrip` and `ctors` - two reads that are wrong in the same way no
    longer agree with each other only.
  * exotic header text (`EXOTIC_SAFE` / `EXOTIC_ALL`: U+0085, U+2028/9, VT, FF, FS/GS/RS, NBSP, BOM, non-ASCII,
    astral) inside every text field: hdr correspondence (safe set), hdr_roundtrip, ctors, an objhist spec.
  * op `ctors`: one text through from_file_string (LF / CRLF), EPW(path) (header first / data first / one field
    first; UTF-8 and latin-1 bytes -> decoding fallback), from_dict: the same EPW, text fields = the file's.
  * op `alias`: every container a getter / export hands out is edited in place (header list, to_dict result,
    metadata of one depth / one field, one value, the six header dictionaries, ground dictionary, location);
    the rest of the object, a second object, later answers and later objects (from text, from_missing_values)
    stay as they were; runs first in a fresh interpreter of the `order` layer.
  * op `dictmin`: from_dict with optional keys left out, collections given as a tuple.
  * objhist: hours as tuple / generator / iterator / map / dict keys, unsorted, repeated, around 29 Feb; paths
    without extension (to_wea / to_mos / write); location numbers given as text (accepted and refused);
    design / ground dictionaries built in reverse insertion order (`_hdr_sane`: depths ascending, design
    values in key order); weeks over the end of the year.
  * body: the year stamped in column 0 varies (leap years on 8760-row files and the reverse, year 0), floats of
    magnitude 1e-12 .. 1e22 and shortest-repr edge cases.
  * the branches of the anchored functions are listed at the head of the round-4 section; each stratum that reaches
    one is counted as `branch:...` in the evidence.

Round 5 (class: a lookup / memo / interning / de-duplication KEYED BY A VALUE - dict, set, `in`, `==`, `index` - is
valid only when equal keys have equal text; Python's equality and hash conflate 0.0 with -0.0 and 1 with 1.0 with
True, which print differently and are different cells of a file):
  * generator stratum `eqv` (`_eqv_cells`, every non-id synthetic file): each float column holds 0.0 and -0.0 in
    both orders of first appearance, as neighbours and far apart, on the first and the last row (the two ends of
    the rotation); the int 0 cells of the same rows give three spellings of zero in one row.  `_new_values`
    (objhist `set_values`): signed zeros in float columns (tag % 3 == 2), the int next to the equal float
    (tag % 6 == 1), at the rows every export check samples.  Ground-temperature tokens '-0.00' / '-0.0' / '-0'.
  * oracle: every comparison of values the statement calls "identical" is by value, type and sign of zero
    (`_same_seq` / `_first_unlike` / `_xnorm`): read-write-read, exports leave the object unchanged, every
    constructor, to_dict -> from_dict, the established state of a history, header data; the cell at its
    date-time is the value of the FILE's token with its sign; rows are reproduced FIELD FOR FIELD (a canonical
    cell is written back as it stands also in a row with non-canonical neighbours); the MOS check reads every
    line; a re-read history object is compared with the values passed through text and field type.
  * Lean: C01_write_cellwise / C01_write_cell_own_text (each written token is str of that cell's own value),
    C01_memo_write_sound (a memoised column equals the column iff-direction: key finer than the text),
    C01_equal_values_different_text_counterexample, C01_memo_by_equality_counterexample, C01_signed_zero_roundtrip.

Round 6 (class: ONE output composed of parts rendered at DIFFERENT load states of the object - a method split in two, a
helper extracted, statements re-ordered so that the lazy data load (or another step that settles state: the leap flag
of a file without the field comes from the number of rows) runs AFTER a part that depends on it was rendered; visible
only when the operation is the FIRST one that needs the data, and any observation - also the check's own snapshot -
loads it):
  * op `firstop`: every export / data read (to_file_string, write, save, to_mos, to_wea with and without hours,
    to_dict, convert_to_ip + write, import_data_by_field, data properties) as the first data-loading operation of a
    lazy EPW(path) in every pre-load state (nothing read, location / header text / is_leap_year / a header slot read),
    nothing observed before it; files without the leap field (shipped los_angeles_no_leap_field.epw, synthetic 8784 and
    8760 rows) and with Yes / No.  Required: the leap line written agrees with the number of rows written and the rows
    are the file's; the answer equals the one of an object whose data was loaded first; the same object answers the
    same a second time; afterwards the object is the one the loaded route gives.
  * op `history`: no snapshot is taken of an object whose data is not loaded (the export itself loads it; the object
    is compared with the freshly read reference afterwards); random histories also on files without the leap field.
  * correspondence `obj`: histories on files without the leap field whose first data-loading step is write / save /
    to_mos / to_dict / to_wea; the driver prints the leap field the model writes above the rows (the flag the body
    settled), the harness the one in the text.
  * Lean: C01_first_load_same_step / C01_first_load_same_answer (an operation that needs the data answers the same in
    every load state), C01_first_write_header_from_loaded (leap field and slots of the written text are the loaded
    object's; for a not-yet-loaded object the flag of the body), C01_header_before_load_leap /
    C01_header_before_load_counterexample (the split variant `stepWriteHeaderFirst` writes the header-only flag and
    differs from to_file_string exactly when the header field is not the flag of the rows).
  * finding C01-to-mos-header-before-data-load (to_mos renders the header before the data is loaded: same class, in the
    unchanged tree) + proposed fixes/C01_to_mos_load_data_first.patch.
"""
import atexit
from array import array
import copy
import json
import math
import os
import random
import shutil
import tempfile
from datetime import datetime, timedelta

from harness import core
from harness.core import err_name, run_oracle_cases

PROP = 'C01'
PROOF_MODULES = ['Ladybug.Props.C01']
GREP_MODULES = ['Ladybug.Model.Epw', 'Ladybug.Gen.EpwFields', 'Ladybug.Gen.DesignDayTables',
                'Ladybug.Proofs.C01Lemmas', 'Ladybug.Proofs.C01Header', 'Ladybug.Proofs.C01Lines',
                'Ladybug.Model.EpwObj', 'Ladybug.Proofs.C01Obj', 'Ladybug.Drv.C01', 'Ladybug.Model.Cal', 'Ladybug.Py']
RULE = ('correspondence: full-size EPW texts (shipped files; synthetic files whose cells are distinct ids, '
        'canonical numbers or non-canonical spellings; 8760 and 8784 rows; 30..37 columns; blank lines; '
        'leap field Yes/No/absent) through import (columns after rotation) and import+write (rows, state '
        'restored); generated header blocks (0-3 ground depths, no/2009/2021 design conditions, 0-6 weeks, '
        'leap/DST fields, comments with commas) through parse + regenerate, ~10 % malformed; stamps of '
        'from_missing_values; collection datetimes; histories over {header only, load, convert_to_ip/si, '
        'to_file_string, failing write, to_wea, to_wea with a bad hour, to_mos, to_dict}.  Header tokens are varied '
        'widely (daylight-saving dates over all months/days and spellings, none, one-sided, year-wrapping; tokens '
        '"0"/"No"/"Yes" in text fields; zero depths and values; data-period variants).  oracle: the '
        'statement evaluated on the real classes (read/write/read equality, write fixed point, row-for-row '
        'reproduction of canonical files, position and date-time of every cell from the file\'s own stamps, '
        'exports, snapshots before/after every export; header-only read/regenerate/read on generated header blocks).  A case is non-trivial when the implementation '
        'returns a value (not a rejection); distinct = distinct (op, input).  Round 3: generated operation histories on '
        'one object (reads ~50 %, accepted setters / unit conversions ~30 %, refused operations ~20 %; read-set-read '
        'patterns around every setter; lazy / string / dictionary constructors; leap and non-leap files) compared step by '
        'step with the Lean object state machine (op obj) and with the state the user established (op objhist); '
        'location values zero / on a bound through every route (op locdict); the same cases in fresh interpreters '
        'in 3-4 different orders (op order).  Round 4: header data compared with the tokens of the file itself '
        '(per depth / week / design value); exotic characters inside every header text field (all str.splitlines '
        'boundaries, non-ASCII, odd number spellings); every constructor on one text (string LF/CRLF, path with header '
        'or data first, latin-1 bytes, dictionary; op ctors); in-place edits of every returned container with a second '
        'object and later objects watched (op alias); from_dict without optional keys (op dictmin); hours of to_wea as '
        'tuple / generator / iterator / map / dict keys, unsorted, repeated, around 29 Feb; paths without extension; '
        'setter arguments as text and as dictionaries in reverse order; weeks over the year end and leap-calendar '
        'weeks (op leapweek); year column values incl. leap years on 8760-row files; each reached branch of the '
        'anchored functions counted as branch:* in the evidence.  Round 5: every non-id synthetic file holds, in each float '
        'column, 0.0 and -0.0 (equal values of different text) in both orders, adjacent, far apart and on the first / last '
        'row; set_values histories hold signed zeros and int next to the equal float; all "identical" comparisons are by '
        'value, type and sign of zero; canonical cells are checked field for field.  Round 6: every export / data read as the '
        'FIRST data-loading operation of a lazy EPW(path) in five pre-load states, nothing observed before it, on files '
        'without / with the leap field (op firstop); object histories of the correspondence start with a write / export '
        'on files without the leap field')
TRUSTED_BASE = [
    'translator tools/extract/epw_fields.py: copies EPWFields._fields (value type, unit, missing) and derives '
    'point_in_time of each field\'s data type from datatype/*.py (compared with the live classes by op flags)',
    'modelled, not verified: CPython float()/int()/str()/repr() on cell tokens (hypothesis Codec.Lawful: '
    'parse (str v) = v; the driver\'s decimal codec covers literals of <= 15 significant digits in the positional '
    'range and is compared with CPython on every generated cell), \'%.2f\' (no ties generated), str.split/join on '
    'commas (header theorems are at token level), file I/O',
    'IP/SI conversion of the 35 collections is C06\'s subject: abstract functions in the model (theorem '
    'C01_write_restores is stated for any conversion pair and specialised under the C06 round-trip hypothesis); '
    'histories compare SI-normalised values rounded to the ids',
    'failing write is injected by shortening the private list `_values` of one collection (no public API '
    'produces a wrong-length annual collection)',
    'object state machine (Model/EpwObj.lean): the file is given already parsed (theorem C01_obj_load_bridge ties the '
    'loading step to importBody); header slots are opaque values, the validity of a setter argument is an input of the '
    'model (decided by the harness from the plain values of the argument); comments_1/2 and daylight_savings_* are plain '
    'attributes and are assigned only after a header read (assigned on a lazy object they are overwritten by the '
    'header load: outside the model); slot contents are read from the private attributes for the fingerprint',
]
ASSUMPTIONS = ['CPython datetime arithmetic is the reference calendar for the oracle',
               'well-formed EPW text: 8 header lines, 8760/8784 data rows of >= 35 cells, final newline']

REPO = os.environ.get('LADYBUG_REPO', '/repo')
EPW_DIR = os.path.join(REPO, 'tests', 'assets', 'epw')
SHIPPED = ['chicago.epw', 'long_beach_2021.epw', 'los_angeles_no_leap_field.epw', 'mannheim.epw', 'tokyo.epw']
US = '\x1f'
RS = '\x1e'
# the statement: radiation and illuminance fields keep their row position, all others are point-in-time
ACCUMULATED = {10, 11, 13, 14, 15, 16, 17, 18, 19}
AMBIGUOUS = {12}           # horizontal infrared radiation *intensity*: either reading is accepted
VT = ['int'] * 5 + ['str'] + ['float', 'float'] + ['int'] * 13 + ['float', 'int', 'int', 'float'] + \
     ['int'] * 4 + ['float', 'int', 'int', 'float', 'float', 'float']      # EPW data dictionary

_TMP = []


def _tmpdir():
    if not _TMP:
        d = tempfile.mkdtemp(prefix='c01_')
        _TMP.append(d)
        atexit.register(shutil.rmtree, d, True)
    return _TMP[0]


def extract(ctx):
    from tools.extract import epw_fields, designday_tables
    ctx.fields = epw_fields.extract()
    designday_tables.extract()


# ---------------------------------------------------------------------------------------------
# EPW texts from plain numbers


def _n_hours(leap):
    return 8784 if leap else 8760


def gen_header(rng, o):
    """Eight header lines (without newline) from an option dict."""
    city = o.get('city', 'Test City')
    loc = 'LOCATION,%s,%s,%s,%s,%s,%s,%s,%s,%s' % (
        city, o.get('state', 'ST'), o.get('country', 'USA'), o.get('source', 'TMY3'), o.get('station', '725300'),
        o.get('lat', '41.98'), o.get('lon', '-87.92'), o.get('tz', '-6.0'), o.get('elev', '201.0'))
    des = o.get('design', 'none')

    def vals(n, tag):
        return ['%s%d' % (tag, i) if o.get('des_text') else repr(round(rng.uniform(-30, 45), 1)) for i in range(n)]
    if des == 'none':
        dl = 'DESIGN CONDITIONS,0'
    elif des == '2009':
        dl = ','.join(['DESIGN CONDITIONS', '1', 'Climate Design Data 2009 ASHRAE Handbook', '', 'Heating']
                      + vals(15, 'h') + ['Cooling'] + vals(32, 'c') + ['Extremes'] + vals(16, 'e'))
    elif des == '2021':
        dl = ','.join(['DESIGN CONDITIONS', '1',
                       '2021 ASHRAE Handbook -- Fundamentals - Chapter 14 Climatic Design Information', '', 'Heating']
                      + vals(16, 'h') + ['Cooling'] + vals(32, 'c') + ['Extremes'] + vals(o.get('n_ext', 15), 'e'))
    elif des == '2017':     # 15 heating values under a non-2009 title: read with the 2021 offsets
        dl = ','.join(['DESIGN CONDITIONS', '1',
                       '2017 ASHRAE Handbook -- Fundamentals - Chapter 14 Climatic Design Information', '', 'Heating']
                      + vals(15, 'h') + ['Cooling'] + vals(32, 'c') + ['Extremes'] + vals(16, 'e'))
    else:
        dl = des
    weeks = o.get('weeks', [])
    wl = 'TYPICAL/EXTREME PERIODS,%s' % o.get('n_weeks', len(weeks))
    if weeks:
        wl += ',' + ','.join(','.join(w) for w in weeks)
    gr = o.get('ground', [])
    gl = 'GROUND TEMPERATURES,%s' % o.get('n_ground', len(gr))
    for g in gr:
        gl += ',' + ','.join([g[0], g[1], g[2], g[3]] + list(g[4]))
    hl = 'HOLIDAYS/DAYLIGHT SAVINGS,%s,%s,%s,0' % (o.get('leap', 'No'), o.get('dst_start', '0'), o.get('dst_end', '0'))
    return [loc, dl, wl, gl, hl, 'COMMENTS 1,' + o.get('c1', 'first comment'),
            'COMMENTS 2,' + o.get('c2', ' -- second; comment'),
            o.get('data_periods', 'DATA PERIODS,1,1,Data,Sunday, 1/ 1,12/31')]


WEEK_NAMES = ['Week 10 - Max of 2010', 'Min 0', 'Typical 0', 'Extreme Hot Week Max', 'Max', '0',
              'Summer - Week Nearest Max Temperature For Period', 'Summer - Week Nearest Average Temperature For Period',
              'Winter - Week Nearest Min Temperature For Period', 'Winter - Week Nearest Average Temperature For Period',
              'Autumn - Week Nearest Average Temperature For Period', 'Spring - Week Nearest Average Temperature For Period',
              'No Dry Season - Week Near Average Annual', 'Odd Max and Min week', 'Plain week']


def _rand_date(rng, style):
    m = rng.randrange(1, 13)
    d = rng.randrange(1, [31, 28, 31, 30, 31, 30, 31, 31, 30, 31, 30, 31][m - 1] + 1)
    return m, d, style


def _fmt_date(m, d, style):
    if style == 0:
        return '%d/%d' % (m, d)
    if style == 1:
        return '%2d/%2d' % (m, d)
    return '2015/%02d/%02d' % (m, d)


MONTH_DAYS = [31, 28, 31, 30, 31, 30, 31, 31, 30, 31, 30, 31]
MONTH_NAMES = ['January', 'February', 'March', 'April', 'May', 'June', 'July', 'August', 'September', 'October',
               'November', 'December']


def rand_dst(rng):
    """Daylight-saving start / end tokens: none ('0', '0'), dates over all months and days in the spellings
    EPW files use (northern and year-wrapping southern periods), nth-weekday rules, rarely one-sided."""
    r = rng.random()
    if r < 0.3:
        return '0', '0'
    def one():
        m = rng.randrange(1, 13)
        d = rng.choice([1, 10, 20, 30, 31, rng.randrange(1, 32)])
        d = min(d, MONTH_DAYS[m - 1])
        style = rng.randrange(5)
        if style == 0:
            return '%d/%d' % (m, d)
        if style == 1:
            return '%2d/%2d' % (m, d)
        if style == 2:
            return '%02d/%02d' % (m, d)
        if style == 3:
            return '%s %s in %s' % (rng.choice(['1st', '2nd', 'Last', '3rd']), rng.choice(['Sunday', 'Monday']),
                                    MONTH_NAMES[m - 1])
        return '%d/%d' % (m, d)
    a, b = one(), one()
    if r < 0.36:
        return rng.choice([(a, '0'), ('0', b), ('', ''), ('0', '')])
    return a, b


# characters that are legal inside a text field of the header but that some text routines treat specially
# (str.splitlines boundaries U+0085 U+2028 U+2029 VT FF FS GS RS, white space that strip() removes at the
# ends only, quotes, separators of other formats, non-ASCII letters, a character outside the BMP)
EXOTIC_SAFE = ['\u2028', '\u2029', '\x85', '\x0c', '\x0b', '\xe9', '\xfc', '\xb0', '\xa0', '\u3000', '"', "'", ';',
               '\ufeff', '\xdf', '\u0142']
EXOTIC_ALL = EXOTIC_SAFE + ['\x1c', '\x1d', '\x1e', '\t', '\x7f', '\u200b', '\U0001d11e', ' \u2028 ', '\x85\x85']
EXOTIC_KEYS = ['c1', 'c2', 'city', 'state', 'country', 'source', 'station']


def _exotify(rng, s, chars):
    """`s` with one exotic character strictly inside it (white space at the END of a line is not data)."""
    ch = rng.choice(chars)
    if len(s) < 2:
        return 'a' + ch + 'b'
    i = rng.randrange(1, len(s))
    return s[:i] + ch + s[i:]


def rand_header_opts(rng, leap_tok=None, findings=False, exotic=0):
    """Random well-formed header options (findings=True also allows the regions of the recorded
    findings: ground temperatures with > 2 decimals, incomplete design conditions; exotic: 1 = text fields
    with characters of EXOTIC_SAFE, 2 = of EXOTIC_ALL)."""
    o = _rand_header_opts(rng, leap_tok, findings)
    if exotic:
        chars = EXOTIC_SAFE if exotic == 1 else EXOTIC_ALL
        for key in rng.sample(EXOTIC_KEYS, rng.randrange(1, 4)):
            o[key] = _exotify(rng, o[key], chars)
        if o['weeks'] and rng.random() < 0.5:
            o['weeks'][0][0] = _exotify(rng, o['weeks'][0][0], chars)
        if o['ground'] and rng.random() < 0.3:
            o['ground'][0][1] = _exotify(rng, o['ground'][0][1], chars)
        if exotic == 2 and rng.random() < 0.5:
            # numbers of the LOCATION line in other spellings that float() reads (exponent, sign, blanks, 17 digits)
            o['lat'] = rng.choice(['4.198e1', '+41.98', ' 41.98', '41.980000000000004', '1E1', '-3.5e+1', '9e1', '-0.0'])
            o['lon'] = rng.choice(['-8.792E1', '+8.55', ' 139.765 ', '1.8e2', '-1.8E+2', '1e-12'])
            o['tz'] = rng.choice(['-6', '+9', '5.5e0', ' 1.0', '1.4e1', '-1.2E1'])
            o['elev'] = rng.choice(['2.01e2', '+6', '1e-12', '-1.25E1', '8848.86', '1e16'])
    return o


def _rand_header_opts(rng, leap_tok=None, findings=False):
    o = {}
    o['city'] = rng.choice(['Test City', 'Chicago Ohare Intl Ap', 'Long.Beach.AP', 'A/B\\C', '"VAN-NUYS-AP"', 'X'])
    o['state'] = rng.choice(['IL', '-', '', 'BW', '0', 'No'])
    o['source'] = rng.choice(['TMY3', 'SRC-TMYx', 'Custom-722886', '0', 'IWEC Data'])
    o['station'] = rng.choice(['725300', '107290', '', '0', '000010'])
    o['country'] = rng.choice(['USA', 'DEU', '0', 'Yes'])
    o['lat'] = rng.choice(['41.98', '-33.81200', '35.6866666666667', '0.0', '90', '-90.0', '9', '0', '10.0', '-0.5'])
    o['lon'] = rng.choice(['-87.92', '139.765', '8.55000', '180', '-180.0', '0.5', '0', '100.0', '-0.25'])
    o['tz'] = rng.choice(['-6.0', '9', '1.0', '5.5', '-12', '14.0', '0'])
    o['elev'] = rng.choice(['201.0', '6', '-12.5', '1829.0', '0', '0.0', '1000', '-0.5'])
    o['design'] = rng.choice(['none', '2009', '2021', '2021'])
    if o['design'] == '2021':
        o['n_ext'] = rng.choice([15, 16])
    o['des_text'] = rng.random() < 0.5
    nw = rng.choice([0, 0, 1, 2, 4, 6])
    weeks = []
    names = rng.sample(WEEK_NAMES, nw)
    for nm in names:
        style = rng.choice([0, 0, 1, 2])
        m, d, _ = _rand_date(rng, style)
        if rng.random() < 0.12:
            m, d = 12, rng.randrange(26, 32)          # a week that runs over the end of the year
        st = datetime(2017, m, d)
        en = st + timedelta(days=6)
        kind = 'Extreme' if ('Max' in nm or 'Min' in nm) and rng.random() < 0.9 else rng.choice(['Typical', 'Typical', 'Extreme'])
        weeks.append([nm, kind, _fmt_date(st.month, st.day, style), _fmt_date(en.month, en.day, style)])
    o['weeks'] = weeks
    ng = rng.choice([0, 1, 2, 3, 3])
    depths = rng.sample(['.5', '2', '4', '0.5', '1.25', '10', '0', '0.0', '20.0', '0.05'], ng)
    for a, b in (('.5', '0.5'), ('0', '0.0')):
        if a in depths and b in depths:
            depths.remove(b)
    gr = []
    for dp in depths:
        if findings and rng.random() < 0.3:
            v = ['%s%d.%02d%d' % (rng.choice(['', '-']), rng.randrange(0, 30), rng.randrange(100),
                                  rng.choice([1, 2, 3, 4, 6, 7, 8, 9])) for _ in range(12)]    # never a tie at the 3rd decimal
        else:
            v = [rng.choice(['0', '0.00', '0.0', '10.00', '-0.50', '20', '-0.00', '-0.0', '-0']) if rng.random() < 0.25 else
                 rng.choice(['%.2f', '%.1f', '%.0f']) % (rng.randrange(-2000, 3000) / 100.0) for _ in range(12)]
        gr.append([dp, rng.choice(['', '1.2', '0']), rng.choice(['', '1600', '0']), rng.choice(['', '0.85', '0.0']), v])
    o['ground'] = gr
    o['leap'] = leap_tok if leap_tok is not None else rng.choice(['No', 'Yes', ''])
    o['dst_start'], o['dst_end'] = rand_dst(rng)
    o['c1'] = rng.choice(['first comment', 'Custom/User Format -- WMO#725300; NREL, with, commas', '', '"quoted, text"',
                          '0', 'Period of Record 1990-2010', ',', 'a,,0'])
    o['c2'] = rng.choice([' -- Ground temps produced with a standard soil diffusivity', 'x', '', 'a,b,,c', '0',
                          ' -- soil diffusivity of 2.3225760E-03 {m**2/day}', 'no'])
    o['data_periods'] = rng.choice([
        'DATA PERIODS,1,1,Data,Sunday, 1/ 1,12/31', 'DATA PERIODS,1,1,Data,Monday,1/1,12/31',
        'DATA PERIODS,1,1,Data,Sunday, 1/ 1,2015/12/31', 'DATA PERIODS,1,1,TMY2-94846,Friday,10/ 1, 9/30',
        'DATA PERIODS,2,1,Data,Sunday, 1/ 1, 6/30,Data2,Monday, 7/ 1,12/31', 'DATA PERIODS,1,4,Data,Tuesday,1/1,12/31'])
    return o


def _cell(mode, vt, r, k, ncols, rng):
    if mode == 'ids':
        v = r * ncols + k + 1
        return '%d.0' % v if vt == 'float' else str(v)
    if vt == 'str':
        return rng.choice(['?9?9?9?9E0?9?9?9?9?9?9?9?9?9?9?9?9?9?9*_*9*9*9*9*9', 'A7A7', 'flag'])
    if mode == 'canon':
        if vt == 'int':
            return str(rng.choice([0, 0, 9999, 999999, rng.randrange(-50, 120000)]))
        return repr(rng.choice([0.0, 99.9, 999.0, -0.5, round(rng.uniform(-70, 70), 1), round(rng.uniform(0, 40), 2),
                                float(rng.randrange(0, 1000))]))
    # non-canonical spellings
    if vt == 'int':
        return rng.choice(['007', '+3', '12', ' 45', '2.5', '3.5', '-0.5', '17.49', '1e2', '999.0', '0'])
    return rng.choice(['1.50', '+3', '007', '-.5', '5.', '1e2', '2.50E+01', '0.0000', '999.000', ' 7.25', '-0.0',
                       '6.50397149946918E-02', '0.001', '12345678.9', '1e-12', '1E+16', '-2.5e-7', '1e22', '4.35',
                       '0.1', '2.675', '1e16', '123456789012345678', '0.30000000000000004'])


FLOAT_COLS = [k for k in range(35) if VT[k] == 'float']


def _eqv_cells(seed, nrows, ncols):
    """Round 5 stratum `eqv`: {(row, field): token} that puts values which COMPARE EQUAL BUT PRINT DIFFERENTLY
    into one column (0.0 and -0.0; the only such pair a canonical file can hold), in both orders of first
    appearance, adjacent and far apart, on the first and the last row (the two ends of the rotation), and - with
    the int 0 cells of the same row - equal values of three spellings ('0', '0.0', '-0.0') in one row.
    Every token is canonical, so each one must be written back as it stands."""
    rng = random.Random(seed)
    cells = {}
    if nrows < 16:
        return cells
    shared = rng.randrange(2, nrows - 4)
    for j, k in enumerate([c for c in FLOAT_COLS if c < ncols]):
        a, b = ('0.0', '-0.0') if (j + seed) % 2 == 0 else ('-0.0', '0.0')
        r0 = shared if j < 2 else rng.randrange(2, nrows - 4)
        for d, t in enumerate((a, b, a)):               # neighbours: ... a, b, a ...
            cells[(r0 + d, k)] = t
        far = rng.randrange(2, nrows - 4)
        if (far, k) not in cells:
            cells[(far, k)] = b
        edge = (j + seed // 2) % 4                          # what the ends of the file hold
        if edge == 0:
            cells[(0, k)] = '-0.0'                         # the negative zero is the first value of the column ...
        elif edge == 1:
            cells[(nrows - 1, k)] = '-0.0'                 # ... or the last (first after the rotation on import)
        elif edge == 2:
            cells[(0, k)], cells[(nrows - 1, k)] = '0.0', '-0.0'
    return cells


def synth_text(spec):
    """Full EPW text of a spec dict (deterministic)."""
    rng = random.Random(spec.get('seed', 0))
    leap_tok = spec.get('leap', 'No')
    nrows = spec.get('nrows', 8784 if leap_tok == 'Yes' else 8760)
    ncols = spec.get('ncols', 35)
    mode = spec.get('mode', 'ids')
    hopts = dict(spec.get('header') or {})
    hopts.setdefault('leap', leap_tok)
    lines = gen_header(rng, hopts)
    blank = spec.get('blank', -1)
    pool = None
    if mode != 'ids':       # a pool of rows keeps generation fast; rows stay position-dependent through column 0..4
        pool = [[_cell(mode, VT[k] if k < 35 else 'int', 0, k, ncols, rng) for k in range(ncols)] for _ in range(97)]
    body = []
    eqv = _eqv_cells(spec['eqv'], nrows, ncols) if spec.get('eqv') is not None and mode != 'ids' else {}
    eqv_rows = {}
    for (r, k), t in eqv.items():
        eqv_rows.setdefault(r, []).append((k, t))
    for r in range(nrows):
        if r == blank:
            body.append('')
        if mode == 'ids':
            row = [_cell('ids', VT[k] if k < 35 else 'int', r, k, ncols, rng) for k in range(ncols)]
        else:
            row = list(pool[(r * 31 + r // 97) % 97])
            row[0] = spec.get('year', '2017')
            row[1] = str((r // 24) % 12 + 1)
            row[3] = str(r % 24 + 1)
            if ncols > 8:
                row[8] = str(r)             # a position-dependent int cell
            for k, t in eqv_rows.get(r, ()):
                row[k] = t
        if spec.get('short_row') == r:
            row = row[:spec.get('short_len', 20)]
        if spec.get('bad_cell') == r:
            row[spec.get('bad_col', 6)] = spec.get('bad_tok', 'abc')
        body.append(','.join(row))
    return '\n'.join(lines + body) + '\n'


def shipped_text(name):
    with open(os.path.join(EPW_DIR, name), errors='ignore') as f:
        return f.read()


def text_of(inp):
    return shipped_text(inp['file']) if 'file' in inp else synth_text(inp['spec'])


def body_lines_of(text):
    """The lines `_import_body` receives from `from_file_string`, stripped."""
    return [l.strip() for l in text.split('\n')[8:-1]]


# ---------------------------------------------------------------------------------------------
# correspondence


def _enc(s):
    return s.replace(' ', US)


def _enc_lines(lines):
    return [('~' if not l else _enc(l)) for l in lines]


def _leap_tok_of_text(text):
    t = text.split('\n')[4].strip().split(',')
    return 'Y' if t[1] == 'Yes' else 'N' if t[1] == 'No' else 'X'


def _impl_brw(text):
    from ladybug.epw import EPW
    e = EPW.from_file_string(text)
    nf = e._num_of_fields
    before = [e.import_data_by_field(k).values for k in range(nf)]
    cols = [','.join(map(str, v)) for v in before]
    head = 'ok %d %s %s' % (nf, '1' if e.is_leap_year else '0', ';'.join(cols))
    try:
        out = e.to_file_string()
        after = [e.import_data_by_field(k).values for k in range(nf)]
        w = 'ok %s %s' % ('1' if before == after else '0', ';'.join(out.split('\n')[8:-1]))
    except Exception as ex:
        w = 'err:' + err_name(ex)
    return _enc(head + ' | ' + w)


def _describe(e):
    loc = e.location

    def num(x):
        return '{}'.format(x)

    def dct(d):
        return ','.join('%s=%s' % (k, v) for k, v in d.items())

    def wks(d):
        return ','.join('%s=%d/%d-%d/%d' % (k, a.st_month, a.st_day, a.end_month, a.end_day) for k, a in d.items())
    gr = []
    for depth, c in e.monthly_ground_temperature.items():
        md = c.header.metadata
        gr.append(':'.join([num(depth), md['soil conductivity'], md['soil density'], md['soil specific heat']]
                           + [num(v) for v in c.values]))
    lp = e._is_leap_year if e.is_header_loaded else e.is_leap_year
    return [loc.city, loc.state, loc.country, loc.source, loc.station_id, num(loc.latitude), num(loc.longitude),
            num(loc.time_zone), num(loc.elevation), '1' if e._is_2009_ashrae else '0',
            dct(e.heating_design_condition_dictionary), dct(e.cooling_design_condition_dictionary),
            dct(e.extreme_design_condition_dictionary), wks(e.extreme_hot_weeks), wks(e.extreme_cold_weeks),
            wks(e.typical_weeks), ';'.join(gr), 'Y' if lp is True else 'N' if lp is False else 'X',
            e.daylight_savings_start, e.daylight_savings_end, e.comments_1, e.comments_2]


_HDR_COUNT = [0]


def _header_only_epw(lines):
    from ladybug.epw import EPW
    _HDR_COUNT[0] += 1
    p = os.path.join(_tmpdir(), 'h%d.epw' % _HDR_COUNT[0])
    with open(p, 'w') as f:
        f.write('\n'.join(lines) + '\n1,1,1\n')
    return EPW(p), p


def _impl_hdr(lines):
    e, p = _header_only_epw(lines)
    try:
        d = _describe(e)
        try:
            r = RS.join(l.rstrip('\n') for l in e.header)
        except Exception as ex:
            r = 'err:' + err_name(ex)
        return _enc('ok ' + RS.join(d) + RS + RS + r)
    finally:
        os.remove(p)


def _hdr_model_lines(lines):
    """Tokens as the code sees them: every line stripped except the weeks line."""
    out = []
    for i, l in enumerate(lines):
        out.append('|' + _enc(l if i == 2 else l.strip()))
    return out


def _malformed_header(rng, o):
    kind = rng.choice(['short_loc', 'bad_lat', 'lat_range', 'ground_count', 'bad_week_date', 'week_count',
                       'bad_ground_val', 'tz_range', 'short_dst', 'des_short'])
    lines = gen_header(rng, o)
    if kind == 'short_loc':
        lines[0] = ','.join(lines[0].split(',')[:rng.randrange(1, 10)])
    elif kind == 'bad_lat':
        o2 = dict(o, lat='north')
        lines = gen_header(rng, o2)
    elif kind == 'lat_range':
        lines = gen_header(rng, dict(o, lat='95.0'))
    elif kind == 'tz_range':
        lines = gen_header(rng, dict(o, tz='15'))
    elif kind == 'ground_count':
        lines = gen_header(rng, dict(o, n_ground=len(o['ground']) + 1))
    elif kind == 'bad_week_date':
        lines = gen_header(rng, dict(o, weeks=[['Summer Max', 'Extreme', '2/30', '3/5']]))
    elif kind == 'week_count':
        lines = gen_header(rng, dict(o, n_weeks=len(o['weeks']) + 1))
    elif kind == 'bad_ground_val':
        lines = gen_header(rng, dict(o, ground=[['.5', '', '', '', ['1.0'] * 11 + ['x']]]))
    elif kind == 'short_dst':
        lines[4] = 'HOLIDAYS/DAYLIGHT SAVINGS,No'
    elif kind == 'des_short':
        lines[1] = 'DESIGN CONDITIONS,1,Climate Design Data 2009 ASHRAE Handbook,,Heating,1,2,3'
    return kind, lines


def _hdr_branches(lines):
    """Branches of _import_header / header that the eight lines reach (labels for the evidence counters)."""
    out = []
    try:
        d = lines[1].strip().split(',')
        if len(d) < 2:
            out.append('design:no_count')
        elif d[1].strip() != '1':
            out.append('design:count_not_1')
        else:
            out.append('design:2009_layout' if len(d) > 2 and '2009' in d[2] else 'design:other_layout')
            old = len(d) > 2 and '2009' in d[2]
            for nm, i in (('Heating', 4), ('Cooling', 20 if old else 21), ('Extremes', 53 if old else 54)):
                out.append('design:%s_marker_%s' % (nm, 'found' if len(d) > i and d[i] == nm else 'missed'))
        w = lines[2].split(',')
        nw = int(w[1]) if len(w) > 1 and w[1].strip() else 0
        out.append('weeks:count_absent' if len(w) < 2 or not w[1].strip() else 'weeks:none' if nw == 0 else 'weeks:some')
        for j in range(nw):
            nm, kind, a, b = w[2 + 4 * j: 6 + 4 * j]
            out.append('weeks:date_y/m/d' if a.count('/') == 2 else 'weeks:date_m/d')
            out.append('weeks:hot' if ('Max' in nm and kind == 'Extreme') else 'weeks:cold' if ('Min' in nm and kind == 'Extreme')
                       else 'weeks:typical' if kind == 'Typical' else 'weeks:dropped')
            if int(b.split('/')[-2]) < int(a.split('/')[-2]):
                out.append('weeks:over_year_end')
        g = lines[3].strip().split(',')
        out.append('ground:count_absent' if len(g) < 2 or not g[1] else 'ground:%s_depths' % g[1])
        t = lines[4].strip().split(',')
        out.append('leap:' + (t[1] if t[1] in ('Yes', 'No') else 'other'))
        out.append('dst:' + ('none' if t[2:4] == ['0', '0'] else 'dates'))
        for i in (5, 6):
            c = lines[i].strip().split(',')
            out.append('comments:' + ('no_comma' if len(c) < 2 else 'empty' if c[1:] == [''] else 'commas' if len(c) > 2 else 'plain'))
    except (ValueError, IndexError):
        out.append('malformed')
    return out


def _body_branches(spec, nlines):
    """Branches of _import_body reached by a synthetic file."""
    out = []
    nc = spec.get('ncols', 35)
    out.append('body:cells_%s35' % ('<' if nc < 35 else '>' if nc > 35 else '='))
    lp = spec.get('leap', 'No')
    if lp in ('Yes', 'No'):
        out.append('body:leap_flag_' + lp)
    else:
        out.append('body:leap_flag_absent_%s' % ('8784_lines' if nlines == 8784 else 'other_count'))
        yr = spec.get('year')
        if yr is not None and spec.get('mode', 'ids') != 'ids':
            y = int(yr)
            isleap = y % 4 == 0 and (y % 100 != 0 or y % 400 == 0)
            out.append('body:leap_flag_absent_year_%s' % ('agrees' if isleap == (nlines == 8784) else 'disagrees'))
    if spec.get('blank', -1) >= 0:
        out.append('body:blank_line')
    if spec.get('mode') == 'noncanon':
        out.append('body:int_cell_through_float')
    if spec.get('eqv') is not None and spec.get('mode', 'ids') != 'ids':
        out.append('body:column_with_equal_values_of_different_text')
    if 'bad_cell' in spec:
        out.append('body:cell_unparsable_' + VT[spec.get('bad_col', 6)])
    if 'short_row' in spec:
        out.append('body:short_row')
    return out


def _hash_list(xs, h=7):
    for x in xs:
        h = (h * 31 + x + 1) % 1000000007
    return h


def _si_ids(e, k):
    """Values of field k brought back to the unit of the EPW specification and rounded to the ids."""
    from ladybug.epw import EPWFields
    c = e._data[k]
    vals = c._values
    want = EPWFields.field_by_number(k).unit
    if c.header.unit != want:
        vals = c.header.data_type.to_unit(list(vals), want, c.header.unit)
    return list(map(round, map(float, vals)))


def _col_fp(ids):
    return _hash_list([len(ids), sum(ids), ids[0] if ids else 0, ids[-1] if ids else 0])


def _col_fp_of(e, k):
    """`_col_fp(_si_ids(e, k))`, without the per-value loop when the column is numeric and in the EPW unit."""
    from ladybug.epw import EPWFields
    c = e._data[k]
    vals = c._values
    if VT[k] != 'str' and c.header.unit == EPWFields.field_by_number(k).unit and vals and \
            not isinstance(vals[0], str):
        try:
            return _hash_list([len(vals), int(round(sum(vals))), int(round(vals[0])), int(round(vals[-1]))])
        except (TypeError, ValueError, OverflowError):
            pass
    return _col_fp(_si_ids(e, k))


def _units_consistent(e):
    from ladybug.epw import EPWFields
    for k in range(e._num_of_fields):
        c = e._data[k]
        si_unit = EPWFields.field_by_number(k).unit
        ip_unit = c.header.data_type.to_ip([0], si_unit)[1]
        want = ip_unit if e.is_ip else si_unit
        if c.header.unit != want:
            return False
    return True


def _fp(e):
    lp = e._is_leap_year
    cols = 7
    if e.is_data_loaded:
        cols = _hash_list([_col_fp_of(e, k) for k in range(e._num_of_fields)])
        if not _units_consistent(e):
            cols = 'units!'
    return 'h%dd%di%dl%sn%dc%s' % (e.is_header_loaded, e.is_data_loaded, e.is_ip,
                                   'Y' if lp is True else 'N' if lp is False else 'X', e._num_of_fields, cols)


def _leap_written(text):
    """Leap field of the header line a write put above the rows, as the driver prints it."""
    t = text.split('\n')[4].strip().split(',')[1:2]
    return 'Y' if t == ['Yes'] else 'N' if t == ['No'] else 'X'


def _rows_hash(text):
    rows = text.split('\n')[8:-1]
    return len(rows), _hash_list([_hash_list([int(round(float(t))) for t in r.split(',')]) for r in rows])


def _impl_hist(spec, ops):
    from ladybug.epw import EPW
    text = synth_text(spec)
    d = _tmpdir()
    p = os.path.join(d, 'hist.epw')
    with open(p, 'w') as f:
        f.write(text)
    e = EPW(p)
    out = []
    for op in ops:
        try:
            if op == 'H':
                e.location
                out.append('ok@' + _fp(e))
                continue
            if not e.is_data_loaded:
                e._get_data_by_field(0)
            if op == 'L':
                res = 'ok'
            elif op == 'I':
                e.convert_to_ip()
                res = 'ok'
            elif op == 'S':
                e.convert_to_si()
                res = 'ok'
            elif op == 'W':
                try:
                    res = 'ok%d:%d' % _rows_hash(e.to_file_string())
                except Exception as ex:
                    res = 'err:' + err_name(ex)
            elif op.startswith('F'):
                k = int(op[1:])
                saved = e._data[k]._values.pop()
                before = [list(c._values) for c in e._data], e.is_ip
                try:
                    res = 'ok%d:%d' % _rows_hash(e.to_file_string())
                except Exception as ex:
                    res = 'err:' + err_name(ex)
                after = [list(c._values) for c in e._data], e.is_ip
                same = after[1] == before[1] and all(
                    len(x) == len(y) and all(_close(p, q) for p, q in zip(x, y)) for x, y in zip(before[0], after[0]))
                fp = _fp_trunc(e)
                e._data[k]._values.append(saved)
                out.append(res + '@' + fp + ('=' if same else '#'))
                continue
            elif op in ('E', 'B'):
                n = len(e.direct_normal_radiation)
                wp = os.path.join(d, 'hist.wea')
                try:
                    e.to_wea(wp, [5, n] if op == 'B' else None)
                    with open(wp) as f:
                        ls = f.read().split('\n')[6:-1]
                    hs = []
                    ncols = spec.get('ncols', 35)
                    for r, l in enumerate(ls):
                        t = l.split()
                        a, b = int(t[3]), int(t[4])
                        if e.is_ip and op == 'E':
                            # SI values recomputed from IP are truncated by %d: one unit of slack, then the id
                            ea, eb = r * ncols + 15, r * ncols + 16
                            a = ea if abs(a - ea) <= 1 else a
                            b = eb if abs(b - eb) <= 1 else b
                        hs.append(_hash_list([int(t[0]), int(t[1]), int(float(t[2]) - 0.5), a, b]))
                    res = 'ok%d:%d' % (len(ls), _hash_list(hs))
                except Exception as ex:
                    res = 'err:' + err_name(ex)
            elif op == 'M':
                mp = e.to_mos(os.path.join(d, 'hist.mos'))
                with open(mp) as f:
                    ls = [l for l in f.read().split('\n') if l and not l.startswith('#') and not l.startswith('double')]
                cols = list(zip(*[l.split('\t') for l in ls]))
                back = [[int(round(float(x))) for x in cols[0]]]
                from ladybug.epw import EPWFields
                for j, k in enumerate(range(6, e._num_of_fields)):
                    c = e._data[k]
                    vals = [float(x) for x in cols[j + 1]]
                    want = EPWFields.field_by_number(k).unit
                    if c.header.unit != want:
                        vals = c.header.data_type.to_unit(vals, want, c.header.unit)
                    back.append([int(round(v)) for v in vals])
                hs = [_hash_list(list(row)) for row in zip(*back)]
                res = 'ok%d:%d' % (len(ls), _hash_list(hs))
            elif op == 'D':
                try:
                    e2 = EPW.from_dict(copy.deepcopy(e.to_dict()))
                    out.append('ok@' + _fp(e2))
                except Exception as ex:
                    out.append('err:' + err_name(ex) + '@' + _fp(e))
                continue
            else:
                res = 'bad-op'
            out.append(res + '@' + _fp(e))
        except Exception as ex:
            out.append('err:' + err_name(ex) + '@stop')
            break
    return ' '.join(out)


def _fp_trunc(e):
    lp = e._is_leap_year
    cols = _hash_list([_col_fp(_si_ids(e, k)) for k in range(e._num_of_fields)])
    return 'h%dd%di%dl%sn%dc%s' % (e.is_header_loaded, e.is_data_loaded, e.is_ip,
                                   'Y' if lp is True else 'N' if lp is False else 'X', e._num_of_fields, cols)


HIST_OPS = ['H', 'L', 'I', 'S', 'W', 'W', 'E', 'M', 'D', 'F6', 'F14', 'F0', 'B']


def _rand_hist(rng, mx=7):
    n = rng.randrange(2, mx)
    ops = [rng.choice(HIST_OPS) for _ in range(n)]
    if rng.random() < 0.5:
        ops.insert(0, 'H')
    return ops


def _synth_specs(ctx, rng):
    """Specs of the full-size synthetic files of this run."""
    specs = [
        {'leap': 'No', 'mode': 'ids', 'seed': rng.randrange(10 ** 6)},
        {'leap': 'Yes', 'mode': 'ids', 'seed': rng.randrange(10 ** 6), 'ncols': rng.choice([35, 36, 37])},
        {'leap': rng.choice(['No', 'Yes', '']), 'mode': 'noncanon', 'seed': rng.randrange(10 ** 6),
         'blank': rng.choice([-1, 0, 17, 8000])},
    ]
    if specs[2]['leap'] == '':
        specs[2]['nrows'] = rng.choice([8760, 8784])
    # the year stamped on the rows says nothing about the length of the file (typical years are stitched
    # together from months of many years; year 0 is legal)
    specs[2]['year'] = rng.choice(['2017', '2016', '1988', '2000', '1900', '2023', '0', '2024'])
    if not ctx.quick or ctx.searching:
        specs += [
            {'leap': 'No', 'mode': 'canon', 'seed': rng.randrange(10 ** 6)},
            {'leap': '', 'mode': 'ids', 'seed': 5, 'nrows': 8784},
            {'leap': '', 'mode': 'ids', 'seed': 6, 'nrows': 8783, 'blank': 100},
            {'leap': 'No', 'mode': 'ids', 'seed': 7, 'ncols': 30},
            {'leap': 'Yes', 'mode': 'canon', 'seed': rng.randrange(10 ** 6), 'blank': 8783},
        ]
    for s in specs:
        s['header'] = rand_header_opts(random.Random(s['seed']), leap_tok=s['leap'])
        if s['mode'] != 'ids':
            s['eqv'] = rng.randrange(1000)      # round 5: equal values of different text inside one column
    return specs


def correspondence(ctx):
    from ladybug.epw import EPW, EPWFields
    rng = ctx.rng
    drv = ctx.driver()

    # --- the regenerated field table against the live classes
    mo = drv.run(['flags'])[0]
    n = len(EPWFields._fields)
    code = {int: '0', float: '1', str: '2'}
    fs = [EPWFields.field_by_number(i) for i in range(n)]
    io = 'ok %d %s %s %s %s %s' % (
        n, ','.join(code.get(f.value_type, '?') for f in fs),
        ','.join('1' if f.name.point_in_time else '0' for f in fs),
        _enc(','.join(f.unit if f.unit is not None else '-' for f in fs)),
        ','.join('-' if f.missing is None else str(f.missing) for f in fs),
        ','.join(type(f.name).__name__ for f in fs))
    ctx.compared += 1
    ctx.count('op:flags')
    ctx.case(('flags',))
    if mo != io:
        ctx.disagree('flags', {}, mo, io)

    # --- full-size bodies: import (columns) and import + write (rows, state restored)
    files = ['chicago.epw', SHIPPED[1 + ctx.seed % 4]] if ctx.quick and not ctx.searching else list(SHIPPED)
    inputs = [{'file': f} for f in files] + [{'spec': s} for s in _synth_specs(ctx, rng)]
    small = [
        {'spec': {'leap': 'No', 'mode': 'ids', 'nrows': 100, 'seed': 1}},
        {'spec': {'leap': 'No', 'mode': 'ids', 'nrows': 0, 'seed': 1}},
        {'spec': {'leap': 'No', 'mode': 'ids', 'nrows': 30, 'seed': 3, 'short_row': 7, 'short_len': 12}},
        {'spec': {'leap': 'No', 'mode': 'ids', 'nrows': 30, 'seed': 4, 'bad_cell': 9, 'bad_col': 6}},
        {'spec': {'leap': 'No', 'mode': 'ids', 'nrows': 30, 'seed': 4, 'bad_cell': 9, 'bad_col': 8, 'bad_tok': '1.2.3'}},
        {'spec': {'leap': 'No', 'mode': 'ids', 'nrows': 30, 'seed': 4, 'bad_cell': 3, 'bad_col': 5, 'bad_tok': 'x y'}},
    ]
    if not ctx.quick:
        small += [{'spec': {'leap': 'Yes', 'mode': 'ids', 'nrows': 8760, 'seed': 2}},
                  {'spec': {'leap': 'No', 'mode': 'ids', 'nrows': 8761, 'seed': 5}}]
    for inp in inputs + small:
        text = text_of(inp)
        lines = body_lines_of(text)
        lp = _leap_tok_of_text(text)
        tag = inp.get('file') or ('synth:%s:%s' % (inp['spec'].get('mode'), inp['spec'].get('leap')))
        op = 'brw'
        req = ' '.join([op, lp] + _enc_lines(lines))
        mo = drv.run([req])[0]
        try:
            io = _impl_brw(text)
        except Exception as ex:
            io = 'err:' + err_name(ex)
        ctx.count('op:' + op)
        ctx.count('file:' + tag)
        if 'spec' in inp:
            for b in _body_branches(inp['spec'], len(lines)):
                ctx.count('branch:' + b)
        if '?' in mo and mo.startswith('ok'):
            # a float cell outside the decimal codec (> 15 digits / exponent notation): compare the rest
            ms, is_ = mo.replace(';', ',').replace(US, ',').split(','), io.replace(';', ',').replace(US, ',').split(',')
            unsup = sum(1 for a in ms if a == '?')
            ctx.count('cells_outside_codec', unsup)
            ok = len(ms) == len(is_) and all(a == b or a == '?' for a, b in zip(ms, is_))
        else:
            ok = mo == io
        ctx.compared += 1
        ctx.case((op, json.dumps(inp, sort_keys=True)), nontrivial=io.startswith('ok'))
        if io.startswith('err:'):
            ctx.count('err_results')
        if not ok:
            ms, is_ = mo.replace(';', ',').split(','), io.replace(';', ',').split(',')
            bad = [i for i in range(min(len(ms), len(is_))) if ms[i] != is_[i] and ms[i] != '?'][:4]
            ctx.disagree(op, inp, 'cells %r: %r ... %s' % (bad, [ms[i] for i in bad], mo[:120]),
                         'cells %r: %r ... %s' % (bad, [is_[i] for i in bad], io[:120]))
        ctx.sample({'op': 'brw', 'input': inp, 'lines': len(lines)})

    # --- header blocks
    hcases = []
    for f in SHIPPED:
        hcases.append(('shipped:' + f, shipped_text(f).split('\n')[:8]))
    for i in range(ctx.n(150, 2500)):
        hr = random.Random(rng.randrange(10 ** 9))
        o = rand_header_opts(hr, findings=True, exotic=1 if i % 6 == 5 else 0)
        if i % 6 == 5:
            ctx.count('hdr_exotic_text')
        if rng.random() < 0.12:
            kind, lines = _malformed_header(hr, o)
            hcases.append(('malformed:' + kind, lines))
        else:
            hcases.append(('gen:%s:g%d:w%d' % (o['design'], len(o['ground']), len(o['weeks'])), gen_header(hr, o)))
    reqs = [' '.join(['hdr'] + _hdr_model_lines(l)) for _, l in hcases]
    outs = drv.run(reqs)
    for (tag, lines), mo in zip(hcases, outs):
        try:
            io = _impl_hdr(lines)
        except Exception as ex:
            io = 'err:' + err_name(ex)
        ctx.compared += 1
        ctx.count('op:hdr')
        ctx.count('hdr:' + tag.split(':')[0] + ':' + tag.split(':')[1])
        for b in _hdr_branches(lines):
            ctx.count('branch:hdr:' + b)
        ctx.case(('hdr', '\n'.join(lines)), nontrivial=io.startswith('ok'))
        if io.startswith('err:'):
            ctx.count('err_results')
        if '?' in mo and 'shipped' in tag:
            ctx.count('hdr_outside_codec')
            continue
        if mo != io:
            ctx.disagree('hdr', {'lines': lines, 'tag': tag}, mo[:600], io[:600])
    ctx.sample({'op': 'hdr', 'request': reqs[5][:200], 'model': outs[5][:200]})

    # --- stamps of from_missing_values, collection date-times, EPW stamp arithmetic vs stdlib
    for leap in (False, True):
        b = '1' if leap else '0'
        ms, md, mr = drv.run(['stamps ' + b, 'dts ' + b, 'rowmin ' + b])
        e = EPW.from_missing_values(leap)
        mon, day, hr = (e.import_data_by_field(k).values for k in (1, 2, 3))
        io = 'ok ' + ' '.join('%d/%d/%d' % t for t in zip(mon, day, hr))
        dts = e.dry_bulb_temperature.datetimes
        iod = 'ok ' + ' '.join('%d/%d/%d/%d' % (d.month, d.day, d.hour, d.minute) for d in dts)
        year = 2016 if leap else 2017
        n = _n_hours(leap)
        rows = []
        for r in range(n):
            t = datetime(year, 1, 1) + timedelta(days=r // 24, hours=r % 24 + 1)
            minute = int((t - datetime(year, 1, 1)).total_seconds() // 60) % (n * 60)
            rows.append('%d/%d/%d/%d/%d' % (r // 24 + 1, r % 24 + 1, minute, (r + 1) % n, r))
        ior = 'ok ' + ' '.join(rows)
        for op, a, c in (('stamps', ms, io), ('dts', md, iod), ('rowmin', mr, ior)):
            ctx.compared += 1
            ctx.count('op:' + op)
            ctx.case((op, leap))
            if a != c:
                ma, ic = a.split(), c.split()
                bad = [i for i in range(min(len(ma), len(ic))) if ma[i] != ic[i]][:3]
                ctx.disagree(op, {'leap': leap, 'first_differing_positions': bad},
                             ' '.join(ma[i] for i in bad) or a[:80], ' '.join(ic[i] for i in bad) or c[:80])

    # --- histories
    hist = [({'leap': 'No', 'mode': 'ids', 'seed': 1}, ['H', 'W', 'I', 'W', 'F6', 'E', 'B', 'M', 'D', 'S']),
            ({'leap': 'No', 'mode': 'ids', 'seed': 9, 'ncols': 30}, ['D', 'W'])]
    if not ctx.quick:
        hist += [({'leap': '', 'mode': 'ids', 'seed': 2, 'nrows': 8784}, ['H', 'W', 'E', 'D']),
                 ({'leap': 'Yes', 'mode': 'ids', 'seed': 3}, ['I', 'F14', 'B', 'W', 'M'])]
    for _ in range(ctx.n(1, 25)):
        lp = rng.choice(['No', 'No', 'Yes', ''])
        spec = {'leap': lp, 'mode': 'ids', 'seed': rng.randrange(1000)}
        r = rng.random()
        if lp == '':
            spec['nrows'] = rng.choice([8760, 8784])
        if r < 0.15:
            spec['ncols'] = rng.choice([30, 36])
        elif r < 0.25:
            spec['nrows'] = rng.choice([8759, 8761, 24])
        elif r < 0.35:
            spec['blank'] = rng.choice([0, 500, 8759])
        hist.append((spec, _rand_hist(rng, 4 if ctx.quick else 7)))
    for spec, ops in hist:
        lp = {'Yes': 'Y', 'No': 'N'}.get(spec['leap'], 'X')
        nrows = spec.get('nrows', 8784 if spec['leap'] == 'Yes' else 8760)
        req = 'hist %s %d %d %d %s' % (lp, nrows, spec.get('ncols', 35), spec.get('blank', -1), ' '.join(ops))
        mo = drv.run([req])[0]
        try:
            io = _impl_hist(spec, ops)
        except Exception as ex:
            io = 'err:' + err_name(ex)
        ctx.compared += 1
        ctx.count('op:hist')
        for o in ops:
            ctx.count('hist_op:' + o)
        ctx.case(('hist', req), nontrivial='@stop' not in io)
        if mo != io:
            ctx.disagree('hist', {'spec': spec, 'ops': ops}, mo, io)
    ctx.sample({'op': 'hist', 'request': req, 'model': mo})
    _corr_objhist(ctx)


# ---------------------------------------------------------------------------------------------
# property oracle: the statement of C01 evaluated on the real classes, independent of the model


def _close(a, b, tol=1e-9):
    if isinstance(a, str) or isinstance(b, str):
        return a == b
    return a == b or abs(a - b) <= tol * max(1.0, abs(a), abs(b))


def _same_seq(x, y):
    """Two value sequences are the same for a user who looks at the values: equal, of the same types, zeros of the
    same sign.  (Python's `==` / hash conflate 0.0 with -0.0 and 1 with 1.0 and True; they are different cells
    of a file and print differently.)"""
    return _first_unlike(x, y) is None


def _first_unlike(x, y):
    """Index of the first position where two value sequences differ in value, type or sign of zero (-1: lengths)."""
    x, y = tuple(x), tuple(y)
    if len(x) != len(y):
        return -1
    if x != y:
        return next(i for i, (a, b) in enumerate(zip(x, y)) if a != b)
    tx, ty = list(map(type, x)), list(map(type, y))
    if tx != ty:
        return next(i for i in range(len(x)) if tx[i] is not ty[i])
    if 0 in x:
        if set(tx) == {float} and array('d', x).tobytes() == array('d', y).tobytes():
            return None              # (equal floats: the same bits unless a zero changed its sign)
        for i, a in enumerate(x):
            if a == 0 and tx[i] is float and math.copysign(1.0, a) != math.copysign(1.0, y[i]):
                return i
    return None


def _same_val(a, b):
    return _first_unlike((a,), (b,)) is None


def _xnorm(v):
    """Header data in a form whose `==` tells apart what prints differently (floats by type and repr; dictionaries
    without their order)."""
    if isinstance(v, float):
        return ('float', repr(v))
    if isinstance(v, dict):
        return ('dict', frozenset((_xnorm(k), _xnorm(x)) for k, x in v.items()))
    if isinstance(v, (tuple, list)):
        return ('seq', tuple(_xnorm(x) for x in v))
    return (type(v).__name__, v)


def _snap(e):
    """Public state of an EPW (loads the data first: the lazy header of a file without leap field is C18's)."""
    e.import_data_by_field(0)
    loc = e.location
    return {
        'location': (loc.city, loc.state, loc.country, loc.source, loc.station_id, loc.latitude, loc.longitude,
                     loc.time_zone, loc.elevation),
        'header': tuple(e.header),
        'is_ip': e.is_ip,
        'leap': e.is_leap_year,
        'units': tuple(e.import_data_by_field(k).header.unit for k in range(e._num_of_fields)),
        'values': tuple(e.import_data_by_field(k).values for k in range(e._num_of_fields)),
    }


def _snap_diff(a, b, tol=0.0, exact=True):
    for key in ('location', 'header', 'is_ip', 'leap', 'units'):
        if a[key] != b[key]:
            return key
    if len(a['values']) != len(b['values']):
        return 'field_count'
    for k, (x, y) in enumerate(zip(a['values'], b['values'])):
        if not (_same_seq(x, y) if exact else x == y):
            if tol and len(x) == len(y) and all(_close(p, q, tol) for p, q in zip(x, y)):
                continue
            return 'values[%d]' % k
    return None


def _header_data(e):
    def wk(d):
        return {k: (a.st_month, a.st_day, a.end_month, a.end_day) for k, a in d.items()}
    gt = {}
    for depth, c in e.monthly_ground_temperature.items():
        md = c.header.metadata
        gt[depth] = (md.get('soil conductivity'), md.get('soil density'), md.get('soil specific heat'), tuple(c.values))
    return {'heating_dict': dict(e.heating_design_condition_dictionary),
            'cooling_dict': dict(e.cooling_design_condition_dictionary),
            'extremes_dict': dict(e.extreme_design_condition_dictionary),
            'hot_weeks': wk(e.extreme_hot_weeks), 'cold_weeks': wk(e.extreme_cold_weeks),
            'typical_weeks': wk(e.typical_weeks), 'ground_temps': gt, 'leap': e.is_leap_year,
            'dst': (e.daylight_savings_start, e.daylight_savings_end),
            'comments': (e.comments_1, e.comments_2)}


def _file_header_data(hl, design=True):
    """The header data as the eight lines of the FILE spell them, after the EPW data dictionary (written from
    the format, not from epw.py): ground temperatures per depth, typical / extreme weeks by bucket, the
    values of the three design-condition blocks in file order."""
    out = {}
    g = hl[3].strip().split(',')
    n = int(g[1]) if len(g) > 1 and g[1].strip() else 0
    gt = {}
    for j in range(n):
        t = g[2 + 16 * j: 18 + 16 * j]
        gt[float(t[0])] = (t[1], t[2], t[3], tuple(float(x) for x in t[4:16]))
    out['ground_temps'] = gt
    w = hl[2].split(',')
    nw = int(w[1]) if len(w) > 1 and w[1].strip() else 0
    hot, cold, typ = {}, {}, {}
    for j in range(nw):
        nm, kind, a, b = w[2 + 4 * j: 6 + 4 * j]
        st, en = [int(x) for x in a.split('/')][-2:], [int(x) for x in b.split('/')][-2:]
        tgt = hot if ('Max' in nm and kind == 'Extreme') else cold if ('Min' in nm and kind == 'Extreme') else \
            typ if kind == 'Typical' else None
        if tgt is not None:
            tgt[nm] = (st[0], st[1], en[0], en[1])
    out['hot_weeks'], out['cold_weeks'], out['typical_weeks'] = hot, cold, typ
    if design:
        d = hl[1].strip().split(',')
        blocks = {'heating_dict': [], 'cooling_dict': [], 'extremes_dict': []}
        if len(d) >= 3 and d[1].strip() == '1' and 'Heating' in d and 'Cooling' in d and 'Extremes' in d:
            ih, ic, ie = d.index('Heating'), d.index('Cooling'), d.index('Extremes')
            old = '2009' in d[2]
            blocks = {'heating_dict': d[ih + 1:ic][:15 if old else 16], 'cooling_dict': d[ic + 1:ie][:32],
                      'extremes_dict': d[ie + 1:][:16 if old else 15]}
        out.update(blocks)
    return out


def _header_vs_file(hd, hl, design=True):
    """First difference between the header data of an object (`_header_data`) and the file's lines (None | (key, want))."""
    want = _file_header_data(hl, design)
    for key, w in want.items():
        got = hd[key]
        if key.endswith('_dict'):
            got = list(got.values())
        if _xnorm(got) != _xnorm(w):
            return key, w
    return None


def _stamp_dt(month, day, hour, leap):
    """Date-time the EPW convention assigns to a row stamped (month, day, hour 1..24)."""
    year = 2016 if leap else 2017
    t = datetime(year, month, day) + timedelta(hours=hour)
    if t.year != year:
        t = datetime(year, 1, 1)
    return t.month, t.day, t.hour, t.minute


def _canonical_cell(k, t):
    """True when the cell of field k is spelled as Python prints the parsed value."""
    vt = VT[k]
    try:
        if vt == 'int' and str(int(t)) != t:
            return False
        if vt == 'float' and repr(float(t)) != t:
            return False
    except ValueError:
        return False
    return True


def _canonical_tokens(tokens):
    """True when every cell of a row is spelled as Python prints the parsed value."""
    return all(_canonical_cell(k, t) for k, t in enumerate(tokens[:35]))


def check_case(op, inp):
    from ladybug.epw import EPW, EPWFields
    if op in _R3_OPS:
        return _R3_OPS[op](inp)
    if op == 'flags':
        k = inp['field']
        got = EPWFields.field_by_number(k).name.point_in_time
        want = k not in ACCUMULATED
        if k in AMBIGUOUS or got == want:
            return None
        return {'required': 'field %d point_in_time = %s (radiation and illuminance fields keep their row position, '
                            'every other field is stamped at the time indicated)' % (k, want),
                'observed': got, 'sig': {'field': k, 'flag': got}}

    if op == 'roundtrip':
        text = text_of(inp)
        sig = {'source': 'shipped' if 'file' in inp else 'synthetic'}
        e1 = EPW.from_file_string(text)
        leap = e1.is_leap_year
        n = _n_hours(leap)
        nf = e1._num_of_fields
        s1 = _snap(e1)
        hd1 = _header_data(e1)
        t1 = e1.to_file_string()
        d = _snap_diff(s1, _snap(e1))
        if d:
            return {'required': 'to_file_string leaves the object unchanged', 'observed': d + ' changed',
                    'sig': dict(sig, what='write_mutates', part=d.split('[')[0])}
        e2 = EPW.from_file_string(t1)
        s2 = _snap(e2)
        d = _snap_diff(s1, s2)
        if d:
            k = int(d[7:-1]) if d.startswith('values[') else -1
            i = (_first_unlike(s1['values'][k], s2['values'][k]) or 0) if k >= 0 else 0
            return {'required': 'read(write(read(t))) equals read(t): ' + d,
                    'observed': 'differs' if k < 0 else 'index %d: %r read, %r read back (written line %d: %s)' % (
                        i, s1['values'][k][max(i, 0):i + 3], s2['values'][k][max(i, 0):i + 3], 8 + max(i - 1, 0),
                        _short(t1.split('\n')[8 + max(i - 1, 0)])),
                    'sig': dict(sig, what='reread_differs', part=d.split('[')[0])}
        for k in range(nf):
            c1, c2 = e1.import_data_by_field(k), e2.import_data_by_field(k)
            if c1.datetimes != c2.datetimes or c1.header.to_dict() != c2.header.to_dict():
                return {'required': 'same date-times and header of field %d after re-reading' % k,
                        'observed': 'differs', 'sig': dict(sig, what='reread_differs', part='collection_header')}
        t2 = e2.to_file_string()
        if t2 != t1:
            l1, l2 = t1.split('\n'), t2.split('\n')
            i = next((i for i in range(min(len(l1), len(l2))) if l1[i] != l2[i]), -1)
            return {'required': 'write(read(write(read(t)))) == write(read(t))',
                    'observed': 'line %d: %r vs %r' % (i, l1[i][:120], l2[i][:120]),
                    'sig': dict(sig, what='not_fixed_point', part='header' if i < 8 else 'body')}
        # rows of a canonical file are reproduced cell for cell
        src = [l.strip() for l in text.split('\n')[8:-1] if l.strip()]
        out = t1.split('\n')[8:-1]
        if len(out) != n or len(src) != n:
            return {'required': '%d data rows' % n, 'observed': '%d written, %d read' % (len(out), len(src)),
                    'sig': dict(sig, what='row_count')}
        for r in (list(range(0, n, 1)) if inp.get('all_rows', True) else range(0, n, 37)):
            st = src[r].split(',')
            ot = out[r].split(',')
            if st[:35] == ot:
                continue
            # field for field: a cell spelled as Python prints its value is written back as it stands, whatever
            # the spelling of its neighbours (and whatever equal-valued cells the column holds elsewhere)
            for k, tkn in enumerate(st[:min(35, nf)]):     # (a file whose first data line is blank keeps one field)
                if (k >= len(ot) or ot[k] != tkn) and _canonical_cell(k, tkn):
                    if _canonical_tokens(st):
                        return {'required': 'row %d reproduced: %s' % (r, ','.join(st[:35])[:150]),
                                'observed': out[r][:150], 'sig': dict(sig, what='row_not_reproduced')}
                    return {'required': 'row %d field %d reproduced: %s' % (r, k, tkn),
                            'observed': ot[k] if k < len(ot) else 'absent',
                            'sig': dict(sig, what='row_not_reproduced', cell=True)}
            if len(ot) != min(35, nf) and _canonical_tokens(st):
                return {'required': 'row %d reproduced: %s' % (r, ','.join(st[:35])[:150]),
                        'observed': out[r][:150], 'sig': dict(sig, what='row_not_reproduced')}
        # every cell sits at the date-time its row stamp assigns to it
        dts = e1.import_data_by_field(0).datetimes
        if len(dts) != n:
            return {'required': '%d date-times' % n, 'observed': len(dts), 'sig': dict(sig, what='datetimes')}
        for i in (0, 1, 23, 24, n - 1):
            t = datetime(2016 if leap else 2017, 1, 1) + timedelta(hours=i)
            got = (dts[i].month, dts[i].day, dts[i].hour, dts[i].minute, dts[i].leap_year)
            if got != (t.month, t.day, t.hour, t.minute, leap):
                return {'required': 'date-time %d = %s' % (i, t), 'observed': got, 'sig': dict(sig, what='datetimes')}
        pos = {(d.month, d.day, d.hour, d.minute): i for i, d in enumerate(dts)}
        conv = {'int': lambda s: int(s) if _is_int(s) else int(round(float(s))), 'float': float, 'str': str}
        rows = [l.split(',') for l in src]
        # point-in-time: the row stamped hour h of day d is found at h:00 of that day, hour 24 at 0:00 of the
        # next day, the year's last row at 1 Jan 0:00.  Shipped files: the stamp is read from the row's own
        # month/day/hour cells; synthetic files (cells are ids): EPW convention, row r is hour r%24+1 of day r//24+1
        year = 2016 if leap else 2017
        pit_index = []
        for r in range(n):
            if 'file' in inp:
                key = _stamp_dt(int(rows[r][1]), int(rows[r][2]), int(rows[r][3]), leap)
            else:
                t = datetime(year, 1, 1) + timedelta(days=r // 24, hours=r % 24 + 1)
                key = (1, 1, 0, 0) if t.year != year else (t.month, t.day, t.hour, t.minute)
            pit_index.append(pos[key])
        for k in range(nf):
            flag = e1.import_data_by_field(k).header.data_type.point_in_time
            vals = s1['values'][k]
            cv = conv[VT[k]]
            for r in range(n):
                want = cv(rows[r][k])
                i = pit_index[r] if flag else r
                got = vals[i]
                if got != want or type(got) is not type(want) or (
                        got == 0 and type(got) is float and math.copysign(1.0, got) != math.copysign(1.0, want)):
                    return {'required': 'cell of row %d field %d (%r) at index %d' % (r, k, rows[r][k], i),
                            'observed': repr(got), 'sig': dict(sig, what='cell_position', pit=flag)}
        # the text fields of the header are the file's
        hl = [l.strip() for l in text.split('\n')[:8]]
        lt = hl[0].split(',')
        got_txt = {'comments_1': e1.comments_1, 'comments_2': e1.comments_2,
                   'dst': [e1.daylight_savings_start, e1.daylight_savings_end],
                   'location_text': [e1.location.state, e1.location.country, e1.location.source, e1.location.station_id],
                   'location_numbers': [float(e1.location.latitude), float(e1.location.longitude),
                                        float(e1.location.time_zone), float(e1.location.elevation)]}
        want_txt = {'comments_1': hl[5].split(',', 1)[1] if ',' in hl[5] else '',
                    'comments_2': hl[6].split(',', 1)[1] if ',' in hl[6] else '',
                    'dst': hl[4].split(',')[2:4], 'location_text': lt[2:6],
                    'location_numbers': [float(x) for x in lt[6:10]]}
        for key in want_txt:
            if got_txt[key] != want_txt[key]:
                return {'required': 'header field %s = %r' % (key, want_txt[key]), 'observed': repr(got_txt[key]),
                        'sig': dict(sig, what='header_text', part=key)}
        # ... and so are ground temperatures, weeks and design conditions (per depth / week / key, from the text)
        dv = _header_vs_file(hd1, hl, design='spec' in inp)
        if dv:
            return {'required': 'header data %s as the file spells it: %s' % (dv[0], _short(dv[1])),
                    'observed': _short(hd1[dv[0]]), 'sig': dict(sig, what='header_vs_file', part=dv[0])}
        # header data (dictionaries) survive as well
        hd2 = _header_data(e2)
        for key in hd1:
            if _xnorm(hd1[key]) != _xnorm(hd2[key]):
                s = dict(sig, what='header_data', part=key)
                if key == 'ground_temps':
                    s['more_than_2_decimals'] = any(round(v, 2) != v for g in hd1[key].values() for v in g[3])
                    s['same_depths'] = sorted(hd1[key]) == sorted(hd2[key])
                if key in ('heating_dict', 'cooling_dict', 'extremes_dict'):
                    s['all_three_found'] = all(bool(hd1[x]) for x in ('heating_dict', 'cooling_dict', 'extremes_dict'))
                    s['reread_empty'] = not hd2[key]
                return {'required': 'header data %s identical after write + read' % key,
                        'observed': '%r -> %r' % (_short(hd1[key]), _short(hd2[key])), 'sig': s}
        return None

    if op == 'hdr_roundtrip':
        # the eight header lines alone (lazy header load of a file): read, regenerate, read again
        hr = random.Random(inp['seed'])
        o = rand_header_opts(hr, leap_tok=hr.choice(['No', 'Yes']), exotic=inp.get('exotic', 0))
        o.update(inp.get('override') or {})
        lines = gen_header(hr, o)
        sig = {'source': 'header'}

        def view(e):
            loc = e.location
            v = _header_data(e)
            v['location'] = (loc.city, loc.state, loc.country, loc.source, loc.station_id, loc.latitude,
                             loc.longitude, loc.time_zone, loc.elevation)
            return v
        e1, p1 = _header_only_epw(lines)
        try:
            d1 = view(e1)
            h1 = [l.rstrip('\n') for l in e1.header]
        finally:
            os.remove(p1)
        hl = [l.strip() for l in lines]
        lt = hl[0].split(',')
        want_txt = {'comments': (hl[5].split(',', 1)[1] if ',' in hl[5] else '', hl[6].split(',', 1)[1] if ',' in hl[6] else ''),
                    'dst': tuple(hl[4].split(',')[2:4]), 'leap': hl[4].split(',')[1] == 'Yes'}
        for key, want in want_txt.items():
            if d1[key] != want:
                return {'required': 'header field %s = %r' % (key, want), 'observed': repr(d1[key]),
                        'sig': dict(sig, what='header_text', part=key)}
        if list(d1['location'][1:5]) != lt[2:6] or [float(x) for x in d1['location'][5:]] != [float(x) for x in lt[6:10]]:
            return {'required': 'location %r' % (lt[1:10],), 'observed': repr(d1['location']),
                    'sig': dict(sig, what='header_text', part='location')}
        dv = _header_vs_file(d1, hl)
        if dv:
            return {'required': 'header data %s as the file spells it: %s' % (dv[0], _short(dv[1])),
                    'observed': _short(d1[dv[0]]), 'sig': dict(sig, what='header_vs_file', part=dv[0])}
        if d1['location'][0] != lt[1].replace('\\', ' ').replace('/', ' '):
            return {'required': 'city %r' % lt[1], 'observed': repr(d1['location'][0]),
                    'sig': dict(sig, what='header_text', part='city')}
        e2, p2 = _header_only_epw(h1)
        try:
            d2 = view(e2)
            h2 = [l.rstrip('\n') for l in e2.header]
        finally:
            os.remove(p2)
        for key in d1:
            if _xnorm(d1[key]) != _xnorm(d2[key]):
                return {'required': 'header data %s identical after write + read: %s' % (key, _short(d1[key])),
                        'observed': _short(d2[key]) + ' | written line: ' + _short(h1[{'dst': 4, 'leap': 4, 'comments': 5, 'location': 0, 'ground_temps': 3}.get(key, 1 if key.endswith('dict') else 2)]),
                        'sig': dict(sig, what='header_data', part=key)}
        if h1 != h2:
            i = next(i for i in range(8) if h1[i] != h2[i])
            return {'required': 'regenerated header is a fixed point: ' + _short(h1[i]), 'observed': _short(h2[i]),
                    'sig': dict(sig, what='not_fixed_point', part='header', line=i)}
        return None

    if op == 'exports':
        # Wea lines, MOS time column and data, dictionary: the numbers of the EPW at the same time step
        text = text_of(inp)
        sig = {'source': 'shipped' if 'file' in inp else 'synthetic'}
        d = _tmpdir()
        e = EPW.from_file_string(text)
        if inp.get('ip'):
            e.convert_to_ip()
        leap = e.is_leap_year
        n = _n_hours(leap)
        src = [l.strip().split(',') for l in text.split('\n')[8:-1] if l.strip()]
        s0 = _snap(e)
        tol = 1e-9 if inp.get('ip') else 0.0
        # wea
        wp = e.to_wea(os.path.join(d, 'o.wea'))
        dd = _snap_diff(s0, _snap(e), tol)
        if dd:
            return {'required': 'to_wea leaves the object unchanged', 'observed': dd,
                    'sig': dict(sig, what='export_mutates', export='to_wea', ip=bool(inp.get('ip')))}
        with open(wp) as f:
            wl = f.read().split('\n')[6:-1]
        if len(wl) != n:
            return {'required': '%d wea lines' % n, 'observed': len(wl), 'sig': dict(sig, what='wea_count')}
        for r in (list(range(0, n, 7)) + [n - 2, n - 1]):
            # radiation of the row stamped (m, d, h) covers the hour ending at h: wea hour h - 0.5
            m_, d_, h_ = (int(src[r][1]), int(src[r][2]), int(src[r][3])) if inp.get('stamps_valid', True) else (0, 0, 0)
            t = datetime(2016 if leap else 2017, 1, 1) + timedelta(hours=r)
            cvi = lambda x: int(x) if _is_int(x) else int(round(float(x)))     # int fields as the EPW holds them
            want = [t.month, t.day, t.hour + 0.5, cvi(src[r][14]), cvi(src[r][15])]
            tk = wl[r].split()
            got = [int(tk[0]), int(tk[1]), float(tk[2]), int(tk[3]), int(tk[4])]
            if inp.get('ip'):
                ok = got[:3] == want[:3] and abs(got[3] - want[3]) <= 1 and abs(got[4] - want[4]) <= 1
            else:
                ok = got == want
            if not ok:
                return {'required': 'wea line %d = %r' % (r, want), 'observed': got, 'sig': dict(sig, what='wea_line')}
        if inp.get('ip'):
            return None
        # mos
        mp = e.to_mos(os.path.join(d, 'o.mos'))
        dd = _snap_diff(s0, _snap(e))
        if dd:
            return {'required': 'to_mos leaves the object unchanged', 'observed': dd,
                    'sig': dict(sig, what='export_mutates', export='to_mos', ip=False)}
        with open(mp) as f:
            ml = [l for l in f.read().split('\n') if l and not l.startswith('#') and not l.startswith('double')]
        if len(ml) != n:
            return {'required': '%d mos lines' % n, 'observed': len(ml), 'sig': dict(sig, what='mos_count')}
        for i in range(n):           # every line: a cell is the text of the value at the same step, not of an equal one
            tk = ml[i].split('\t')
            if float(tk[0]) != 3600.0 * i:
                return {'required': 'MOS time of line %d = %d s' % (i, 3600 * i), 'observed': tk[0],
                        'sig': dict(sig, what='mos_time')}
            want = [str(s0['values'][k][i]) for k in range(6, e._num_of_fields)]
            if tk[1:] != want:
                return {'required': 'MOS line %d carries the values of index %d' % (i, i), 'observed': tk[1:6],
                        'sig': dict(sig, what='mos_values')}
        # dictionary
        e3 = EPW.from_dict(copy.deepcopy(e.to_dict()))    # (JSON would turn the float depth keys into strings: C07)
        s3 = _snap(e3)
        # Location(...) turns an empty state / station into its placeholders: not a number of the EPW
        if tuple(x or '-' for x in s3['location']) == tuple(x or '-' for x in s0['location']) or \
                [x for x in s3['location'] if x not in ('-', 'None', None)] == [x for x in s0['location'] if x]:
            s3 = dict(s3, location=s0['location'], header=(s0['header'][0],) + tuple(s3['header'][1:]))
        dd = _snap_diff(s0, _snap(e)) or _snap_diff(s0, s3)
        if dd:
            return {'required': 'to_dict/from_dict carry the same numbers', 'observed': dd,
                    'sig': dict(sig, what='dict', part=dd.split('[')[0])}
        if _xnorm(_header_data(e3)) != _xnorm(_header_data(e)):
            return {'required': 'to_dict/from_dict carry the header data', 'observed': 'differs',
                    'sig': dict(sig, what='dict', part='header_data')}
        return None

    if op == 'missing':
        leap = bool(inp['leap'])
        e = EPW.from_missing_values(leap)
        rows = e.to_file_string().split('\n')[8:-1]
        n = _n_hours(leap)
        if len(rows) != n:
            return {'required': '%d rows' % n, 'observed': len(rows), 'sig': {'what': 'row_count'}}
        year = 2016 if leap else 2017
        for r in range(n):
            t = datetime(year, 1, 1) + timedelta(days=r // 24)
            want = [year, t.month, t.day, r % 24 + 1, 0]
            tk = rows[r].split(',')
            got = [int(x) for x in tk[:5]]
            if got != want:
                return {'required': 'row %d stamped %r' % (r, want), 'observed': got,
                        'sig': {'what': 'missing_stamp', 'last_row': r == n - 1, 'column': [i for i in range(5) if got[i] != want[i]][0]}}
            for k in range(6, 35):
                f = EPWFields.field_by_number(k)
                if tk[k] != str(f.missing if f.missing is not None else 0):
                    return {'required': 'missing value of field %d' % k, 'observed': tk[k], 'sig': {'what': 'missing_value'}}
        from ladybug.location import Location
        e.location = Location('Nowhere', 'ST', 'USA', 10.5, -20.25, -1.0, 5.0, '123456', 'TMY3')
        e2 = EPW.from_file_string(e.to_file_string())
        # (from_missing_values fills float fields with the int missing codes of the field table: 9999 is read back as
        # 9999.0 - the numbers are compared, not their types)
        if _snap_diff(_snap(e), _snap(e2), exact=False):
            return {'required': 'missing-value file reads back', 'observed': _snap_diff(_snap(e), _snap(e2), exact=False),
                    'sig': {'what': 'missing_roundtrip'}}
        return None

    if op == 'history':
        # exports never change the object, whatever its lazy-loading and unit state; their output does not
        # depend on the history
        spec, ops = inp['spec'], inp['ops']
        text = synth_text(spec) if isinstance(spec, dict) else shipped_text(spec)
        d = _tmpdir()
        p = os.path.join(d, 'orc.epw')
        with open(p, 'w') as f:
            f.write(text)
        ref = EPW.from_file_string(text)
        ref_text = ref.to_file_string()
        ref_wea = None
        e = EPW(p)
        ip = False
        for j, o in enumerate(ops):
            sig = {'step': o, 'ip': ip}
            if o == 'H':
                e.location
                continue
            if o == 'L':
                e.dry_bulb_temperature
                continue
            if o == 'I':
                e.convert_to_ip()
                ip = True
                continue
            if o == 'S':
                e.convert_to_si()
                ip = False
                continue
            # (no snapshot of an object whose data is not loaded yet: the export itself must be the operation that
            # loads it; such an object is compared with the freshly read reference afterwards)
            before = _snap(e) if e.is_data_loaded else _snap(ref)
            tol = 1e-9 if (ip or 'I' in ops[:j]) else 0.0
            if o == 'W':
                out = e.to_file_string()
                if not ip and 'I' not in ops[:j]:
                    if out != ref_text:
                        return {'required': 'to_file_string independent of the history', 'observed': 'text differs',
                                'sig': dict(sig, what='history_output')}
                else:
                    a = [l.split(',') for l in out.split('\n')[8:-1]]
                    b = [l.split(',') for l in ref_text.split('\n')[8:-1]]
                    if len(a) != len(b) or out.split('\n')[:8] != ref_text.split('\n')[:8]:
                        return {'required': 'same header and row count', 'observed': 'differs',
                                'sig': dict(sig, what='history_output')}
                    for r in range(0, len(a), 11):
                        for x, y in zip(a[r], b[r]):
                            if x != y and not _close(float(x), float(y), 1e-9):
                                return {'required': 'row %d within round-off of %s' % (r, y), 'observed': x,
                                        'sig': dict(sig, what='history_output')}
            elif o.startswith('F'):
                k = int(o[1:])
                if not e.is_data_loaded:      # (the failing write is injected into loaded data)
                    e.dry_bulb_temperature
                saved = e._data[k]._values.pop()
                before = _snap_private(e)
                try:
                    e.to_file_string()
                    res = 'returned'
                except ValueError:
                    res = 'ValueError'
                except Exception as ex:
                    res = type(ex).__name__
                after = _snap_private(e)
                e._data[k]._values.append(saved)
                if res != 'ValueError':
                    return {'required': 'ValueError for data that is not a full year', 'observed': res,
                            'sig': dict(sig, what='failing_write_result')}
                dd = _priv_diff(before, after, tol)
                if dd:
                    return {'required': 'failed write leaves the object unchanged', 'observed': dd,
                            'sig': dict(sig, what='export_mutates', export='to_file_string_failing')}
                continue
            elif o == 'E':
                wp = e.to_wea(os.path.join(d, 'orc.wea'))
                with open(wp) as f:
                    got = f.read()
                if ref_wea is None:
                    ref.to_wea(os.path.join(d, 'ref.wea'))
                    with open(os.path.join(d, 'ref.wea')) as f:
                        ref_wea = f.read()
                if not tol and got != ref_wea:
                    return {'required': 'to_wea independent of the history', 'observed': 'text differs',
                            'sig': dict(sig, what='history_output')}
            elif o == 'B':
                n = len(e.direct_normal_radiation)
                try:
                    e.to_wea(os.path.join(d, 'orc.wea'), [5, n])
                    res = 'returned'
                except IndexError:
                    res = 'IndexError'
                except Exception as ex:
                    res = type(ex).__name__
                dd = _snap_diff(before, _snap(e), tol)
                if dd:
                    return {'required': 'failed to_wea leaves the object unchanged', 'observed': dd + ' changed (%s)' % res,
                            'sig': dict(sig, what='export_mutates', export='to_wea_failing')}
                continue
            elif o == 'M':
                e.to_mos(os.path.join(d, 'orc.mos'))
            elif o == 'D':
                e.to_dict()
            dd = _snap_diff(before, _snap(e), tol)
            if dd:
                return {'required': 'export %s leaves the object unchanged' % o, 'observed': dd,
                        'sig': dict(sig, what='export_mutates', export=o)}
        return None
    raise ValueError('unknown op ' + op)


def _is_int(s):
    try:
        int(s)
        return True
    except ValueError:
        return False


def _short(x):
    s = repr(x)
    return s if len(s) < 160 else s[:160] + '...'


def _snap_private(e):
    return {'is_ip': e.is_ip, 'units': tuple(c.header.unit for c in e._data),
            'values': tuple(tuple(c._values) for c in e._data), 'header': tuple(e.header)}


def _priv_diff(a, b, tol):
    for key in ('is_ip', 'units', 'header'):
        if a[key] != b[key]:
            return key
    for k, (x, y) in enumerate(zip(a['values'], b['values'])):
        if not _same_seq(x, y):
            if tol and len(x) == len(y) and all(_close(p, q, tol) for p, q in zip(x, y)):
                continue
            return 'values[%d]' % k
    return None


# ---------------------------------------------------------------------------------------------
# round 3: operation histories on ONE object, refused operations, process order, rare header values
#
# Producers and their consumers (every consumer is exercised by an op below; a change that is kept
# consistent between a producer and ONE consumer shows in the others):
#   EPWFields point_in_time flags -> _import_body (values/field after load), to_file_string / write / save
#       (row position), from_missing_values stamps (op missing), to_wea (index of fields 14/15),
#       to_mos (index of fields 6..), to_dict -> from_dict (values as stored)
#   EPW.header                   -> to_file_string / write / save (first 8 lines), to_mos ('#' lines),
#       header-only re-read (hdr_roundtrip), full re-read (final step of objhist)
#   EPW.location / Location      -> header line 1, _get_wea_header (5 lines), to_dict['location'] ->
#       Location.from_dict -> EPW.from_dict -> header (op locdict: zero / bound / empty values)
#   _is_leap_year                -> header line 5, row count of write, AnalysisPeriod of the collections,
#       to_wea / to_mos line count, to_dict['is_leap_year']
#   _is_ip / convert_to_ip / si  -> units of the 35 collections, to_file_string / to_wea (SI always, object
#       restored), to_dict['is_ip'] -> from_dict
#   header slots (design dicts, weeks, ground temps, dst, comments) -> header lines 2..7, to_dict -> from_dict


R3_HOT = 'Summer - Week Nearest Max Temperature For Period'
R3_COLD = 'Winter - Week Nearest Min Temperature For Period'
R3_TYP = 'Spring - Week Nearest Average Temperature For Period'
_BASE = {}


def _r3_text(spec):
    return synth_text(spec) if isinstance(spec, dict) else shipped_text(spec)


def _baseline(spec):
    """Observables of FRESH objects of the text (one read each), cached per text."""
    from ladybug.epw import EPW
    key = json.dumps(spec, sort_keys=True)
    if key not in _BASE:
        if len(_BASE) >= 5:
            _BASE.clear()
        text = _r3_text(spec)
        e = EPW.from_file_string(text)
        si = _snap(e)
        rows = [r.split(',') for r in e.to_file_string().split('\n')[8:-1]]
        e2 = EPW.from_file_string(text)
        e2.convert_to_ip()
        _BASE[key] = {'text': text, 'si': si, 'ip': _snap(e2), 'rows': rows, 'rows_joined': [','.join(r) for r in rows],
                      'hdr': [l.strip() for l in text.split('\n')[:8]]}
    return _BASE[key]


def _design_keys():
    from ladybug.designday import DesignDay
    return (list(DesignDay.HEATING_KEYS), list(DesignDay.COOLING_KEYS) + ['WBmax'], list(DesignDay.EXTREME_KEYS))


def _setter_arg(op):
    """Argument object of a setter op, from the plain values of the op (None = not a setter)."""
    from ladybug.location import Location
    from ladybug.analysisperiod import AnalysisPeriod
    from ladybug.header import Header
    from ladybug.datacollection import MonthlyCollection
    from ladybug.datatype.temperature import GroundTemperature
    name = op[0]
    if name == 'set_loc':
        a = op[1]
        return Location(a['city'], a['state'], a['country'], a['lat'], a['lon'], a['tz'], a['elev'], a['station'],
                        a['source'])
    if name == 'set_design':
        which, kind, tag = op[1], op[2], op[3]
        if kind == 'notdict':
            return ['x']
        keys = _design_keys()[which]
        d = {} if kind == 'empty' else {k: '%s%d_%d' % ('hce'[which], tag, i) for i, k in enumerate(keys)}
        if kind == 'bad':
            del d[keys[0]]
        if kind == 'rev':               # the same content, keys inserted in the opposite order
            d = {k: d[k] for k in reversed(list(d))}
        return d
    if name == 'set_weeks':
        which, kind, m, dd = op[1], op[2], op[3], op[4]
        if kind == 'notdict':
            return 7
        if kind == 'empty':
            return {}
        st = datetime(2017, m, dd)
        en = st + timedelta(days=2 if kind == 'bad' else 6)
        nm = [R3_HOT, R3_COLD, R3_TYP][which]
        return {nm: AnalysisPeriod(st.month, st.day, 0, en.month, en.day, 23)}
    if name == 'set_ground':
        kind, tag = op[1], op[2]
        if kind == 'notdict':
            return [1]
        if kind == 'empty':
            return {}
        if kind == 'bad':
            return {0.5: 'x'}
        out = {}
        for j, depth in (reversed if kind == 'rev' else list)(list(enumerate([0.5, 2.0][:1 + tag % 2]))):
            hd = Header(GroundTemperature(), 'C', AnalysisPeriod(),
                        {'soil conductivity': '1.%d' % (tag % 10), 'soil density': '', 'soil specific heat': '0'})
            out[depth] = MonthlyCollection(hd, [float(tag % 7 + i + j) + 0.25 for i in range(12)], list(range(12)))
        return out
    return None


_SETTER_ATTR = {'set_loc': 'location', 'set_ground': 'monthly_ground_temperature'}
_DES_ATTR = ['heating_design_condition_dictionary', 'cooling_design_condition_dictionary',
             'extreme_design_condition_dictionary']
_WEEK_ATTR = ['extreme_hot_weeks', 'extreme_cold_weeks', 'typical_weeks']


def _apply_header_setter(e, op):
    """Perform a header-slot setter on `e` (raises what the library raises)."""
    name = op[0]
    if name == 'set_loc_bad':
        e.location = 'Chicago'
    elif name == 'set_loc' or name == 'set_ground':
        setattr(e, _SETTER_ATTR[name], _setter_arg(op))
    elif name == 'set_design':
        setattr(e, _DES_ATTR[op[1]], _setter_arg(op))
    elif name == 'set_weeks':
        setattr(e, _WEEK_ATTR[op[1]], _setter_arg(op))
    elif name == 'set_comments':
        e.location                       # plain attributes: assigned on an object whose header is read
        setattr(e, 'comments_%d' % op[1], op[2])
    elif name == 'set_dst':
        e.location
        e.daylight_savings_start, e.daylight_savings_end = op[1], op[2]
    elif name == 'loc_attr':
        setattr(e.location, op[1], op[2])
    else:
        raise ValueError('not a header setter: %r' % (op,))


def _num(attr, x):
    """Number a Location setter makes of its argument: text is read with float(); latitude and longitude take
    anything falsy ('' included) as 0."""
    if attr in ('latitude', 'longitude') and not x:
        return 0.0
    return float(x)


def _setter_valid(op):
    """Does the documented validation accept the argument?  (decided from the plain values of the op)"""
    name = op[0]
    if name == 'set_loc_bad':
        return False
    if name in ('set_design', 'set_weeks'):
        return op[2] in ('full', 'ok', 'empty', 'rev')
    if name == 'set_ground':
        return op[1] in ('ok', 'empty', 'rev')
    if name == 'loc_attr':
        lo, hi = {'latitude': (-90, 90), 'longitude': (-180, 180), 'time_zone': (-12, 14),
                  'elevation': (-1e9, 1e9)}[op[1]]
        try:
            v = _num(op[1], op[2])             # the setters take text for numbers (this is how a LOCATION line is read)
        except (TypeError, ValueError):
            return False
        return v == v and lo <= v <= hi
    return True


SLOT_NAMES = ['location', 'heating_design_condition_dictionary', 'cooling_design_condition_dictionary',
              'extreme_design_condition_dictionary', 'extreme_hot_weeks', 'extreme_cold_weeks', 'typical_weeks',
              'monthly_ground_temperature', 'daylight_savings', 'comments_1', 'comments_2']
HEADER_SETTERS = ('set_loc', 'set_loc_bad', 'set_design', 'set_weeks', 'set_ground', 'set_comments', 'set_dst',
                  'loc_attr')


def _twin_header(base, setters, leap):
    """Header lines of a FRESH header-only object of the same file on which only the accepted setters were
    performed, in their order (the state the user established)."""
    e, p = _header_only_epw(base['hdr'])
    try:
        for op in setters:
            _apply_header_setter(e, op)
        lines = [l.rstrip('\n') for l in e.header]
        loc = e.location
        loc_t = (loc.city, loc.state, loc.country, loc.source, loc.station_id, loc.latitude, loc.longitude,
                 loc.time_zone, loc.elevation)
    finally:
        os.remove(p)
    t = lines[4].split(',')
    t[1] = 'Yes' if leap else 'No'       # a file without the leap field decides it when the body is read
    lines[4] = ','.join(t)
    return lines, loc_t


def _loc_line_same(a, b):
    ta, tb = a.split(','), b.split(',')
    if len(ta) != len(tb) or ta[:6] != tb[:6]:
        return False
    try:
        return [float(x) for x in ta[6:]] == [float(x) for x in tb[6:]]
    except ValueError:
        return ta == tb


def _hdr_diff(got, want):
    got = [l.rstrip('\n') for l in got]
    if len(got) != len(want):
        return 'header has %d lines (%d expected)' % (len(got), len(want))
    for i, (g, w) in enumerate(zip(got, want)):
        if g != w and not (i == 0 and _loc_line_same(g, w)):
            return 'header line %d is %s, expected %s' % (i, _short(g), _short(w))
    return None


def _new_values(k, tag, n):
    if VT[k] == 'int':
        vals = [(tag * 7 + i * 3) % 1000 for i in range(n)]
    else:
        vals = [((tag * 13 + i * 7) % 4000) / 10.0 - 50.0 for i in range(n)]
    # round 5: values that compare equal but print differently inside one column (each is written, exported and
    # handed back as itself): signed zeros in a float column (tag % 3 == 2), the int and the equal float (tag % 6 == 1)
    if n > 40 and tag % 3 == 2 and VT[k] == 'float':
        a, b = (0.0, -0.0) if tag % 2 else (-0.0, 0.0)
        for i, v in ((0, b), (1, a), (2, b), (3, a), (13, a), (26, b), (n // 2, a), (n // 2 + 1, b), (n - 2, a), (n - 1, b)):
            vals[i] = v
    elif n > 40 and tag % 6 == 1:
        a, b = (1, 1.0) if tag % 4 == 1 else (1.0, 1)
        for i, v in ((0, a), (1, b), (2, a), (13, b), (26, a), (n // 2, b), (n - 2, b), (n - 1, a)):
            vals[i] = v
    return vals


def _to_unit(c, vals, want, have):
    return list(vals) if want == have else list(c.header.data_type.to_unit(list(vals), want, have))


class _Expect(object):
    """The state the user has established: file + accepted setters + unit system."""

    def __init__(self, base):
        self.base = base
        self.leap = base['si']['leap']
        self.n = _n_hours(self.leap)
        self.nf = len(base['si']['values'])
        self.ip = False
        self.ever_ip = False
        self.setters = []
        self.si_vals = {}            # field -> SI values set by the user
        self.loc_plain = None        # plain values of the location the user set last
        self._hdr = None
        self.cur = None              # content of the 11 header slots: the file's, then what accepted setters put there

    def header(self):
        if self._hdr is None:
            self._hdr = _twin_header(self.base, self.setters, self.leap)
        return self._hdr

    def slots(self):
        if self.cur is None:
            twin, p = _header_only_epw(self.base['hdr'])
            try:
                twin.location
                self.cur = _slot_contents(twin)
            finally:
                os.remove(p)
        return self.cur

    def accept(self, op):
        cur = self.slots()
        slot, content = _slot_of_op(op, cur)
        cur[slot] = content
        self.setters.append(op)
        self._hdr = None
        if op[0] == 'set_loc':
            self.loc_plain = dict(op[1])
        elif op[0] == 'loc_attr' and self.loc_plain is not None:
            self.loc_plain[{'latitude': 'lat', 'longitude': 'lon', 'time_zone': 'tz', 'elevation': 'elev'}[op[1]]] = _num(op[1], op[2])

    def tol(self):
        return 1e-9 if self.ever_ip else 0.0

    def si_col(self, k):
        return self.si_vals[k] if k in self.si_vals else self.base['si']['values'][k]

    def check_values(self, e, fields=None, reread=False):
        """Every field of the object against the established state (None | text); reread: the object was read from
        the text written for that state, so every value has passed through its text and the type of its field."""
        from ladybug.epw import EPWFields
        si_units, ip_units = self.base['si']['units'], self.base['ip']['units']
        if e.is_ip != self.ip:
            return 'is_ip is %s' % e.is_ip
        if e._num_of_fields != self.nf:
            return 'number of fields %d' % e._num_of_fields
        for k in (range(self.nf) if fields is None else fields):
            c = e.import_data_by_field(k)
            want_unit = ip_units[k] if self.ip else si_units[k]
            if c.header.unit != want_unit:
                return 'unit of field %d is %s (%s expected)' % (k, c.header.unit, want_unit)
            got = c.values
            if k in self.si_vals:
                want = self.si_vals[k] if not self.ip else _to_unit(c, self.si_vals[k], ip_units[k], si_units[k])
            else:
                want = self.base['ip' if self.ip else 'si']['values'][k]
            if len(got) != len(want):
                return 'field %d has %d values' % (k, len(got))
            if reread and k in self.si_vals and k < 35:
                cv = {'int': lambda t: int(t) if _is_int(t) else int(round(float(t))), 'float': float, 'str': str}[VT[k]]
                want = [cv(str(w)) for w in want]
            if not _same_seq(got, want):
                tol = self.tol() or (1e-9 if k in self.si_vals and self.ip else 0.0)
                if tol:
                    bad = [i for i, (p, q) in enumerate(zip(got, want)) if not (p == q or _close(p, q, tol))]
                else:
                    bad = [i for i, (p, q) in enumerate(zip(got, want)) if p != q] or [_first_unlike(got, want)]
                if bad:
                    i = bad[0]
                    return 'field %d index %d is %r, expected %r (%d values differ)' % (k, i, got[i], want[i], len(bad))
        return None

    def check_object(self, e):
        hl, loc_t = self.header()
        got_h = e.header
        d = _hdr_diff(got_h, hl) or _hdr_sane(got_h)
        if d:
            return d
        loc = e.location
        got = (loc.city, loc.state, loc.country, loc.source, loc.station_id, loc.latitude, loc.longitude,
               loc.time_zone, loc.elevation)
        if got != loc_t:
            return 'location is %r, expected %r' % (got, loc_t)
        if self.loc_plain is not None:
            a = self.loc_plain
            want = (a['city'], a['state'], a['country'], a['source'], a['station'], float(a['lat']), float(a['lon']),
                    float(a['tz']), float(a['elev']))
            if got != want:
                return 'location is %r, the user set %r' % (got, want)
        got_slots = _slot_contents(e)
        for j, (g, w) in enumerate(zip(got_slots, self.slots())):
            if g != w:
                return 'header slot %s holds %s, the state established is %s' % (SLOT_NAMES[j], _short(g), _short(w))
        if not e.is_data_loaded:
            return None                   # still lazy: the data is compared once something reads it
        if e.is_leap_year != self.leap:
            return 'is_leap_year is %r' % (e.is_leap_year,)
        return self.check_values(e)

    def rows(self):
        """Data rows of the file this state is written to (tokens), from the rows a fresh object writes."""
        rows = self.base['rows']
        if self.si_vals:
            rows = [list(r) for r in rows]
            for k, vals in self.si_vals.items():
                pit_k = k not in ACCUMULATED
                for r in range(self.n):
                    rows[r][k] = str(vals[(r + 1) % self.n] if pit_k else vals[r])
        return rows

    def check_text(self, text):
        ls = text.split('\n')
        if ls[-1] != '':
            return 'text does not end with a newline'
        d = _hdr_diff(ls[:8], self.header()[0])
        if d:
            return d
        got = ls[8:-1]
        want = self.rows()
        if len(got) != len(want):
            return '%d data rows (%d expected)' % (len(got), len(want))
        tol = self.tol()
        if not self.si_vals and got == self.base['rows_joined']:
            return None
        for r, (g, w) in enumerate(zip(got, want)):
            gt = g.split(',')
            if gt != w:
                if tol and len(gt) == len(w) and all(x == y or (_is_num(x) and _is_num(y) and _close(float(x), float(y), tol))
                                                     for x, y in zip(gt, w)):
                    continue
                k = next((i for i in range(min(len(gt), len(w))) if gt[i] != w[i]), -1)
                return 'data row %d field %d is %s, expected %s' % (r, k, _short(gt[k] if k >= 0 else g),
                                                                    _short(w[k] if k >= 0 else ','.join(w)))
        return None

    def check_wea(self, text, hoys, exact=False):
        _, loc = self.header()
        ls = text.split('\n')
        want_h = ['place %s' % loc[0], 'latitude %.2f' % loc[5], 'longitude %.2f' % -loc[6],
                  'time_zone %d' % (-loc[7] * 15), 'site_elevation %.1f' % loc[8], 'weather_data_file_units 1']
        if not _wea_head_same(ls[:6], want_h):
            i = next(i for i in range(6) if not _wea_head_same(ls[i:i + 1], want_h[i:i + 1]))
            return 'wea header line %d is %r, expected %r' % (i, ls[i] if i < len(ls) else None, want_h[i])
        body = ls[6:-1]
        idx = list(hoys) if (hoys or exact) else list(range(self.n))
        if len(body) != len(idx):
            return '%d wea lines (%d expected)' % (len(body), len(idx))
        year = 2016 if self.leap else 2017
        dn, df = self.si_col(14), self.si_col(15)
        slack = 1 if self.ever_ip else 0
        for j, i in enumerate(idx):
            t = datetime(year, 1, 1) + timedelta(hours=i)
            tk = body[j].split()
            ok = len(tk) == 5 and [int(tk[0]), int(tk[1]), float(tk[2])] == [t.month, t.day, t.hour + 0.5] and \
                abs(int(tk[3]) - int(dn[i])) <= slack and abs(int(tk[4]) - int(df[i])) <= slack
            if not ok:
                return 'wea line %d is %r, expected %d %d %.3f %d %d' % (j, body[j], t.month, t.day, t.hour + 0.5,
                                                                        int(dn[i]), int(df[i]))
        return None

    def check_mos(self, text, e):
        ls = text.split('\n')
        hl = self.header()[0]
        got_h = [l[1:] for l in ls[2:10]]
        d = _hdr_diff(got_h, hl) if all(l.startswith('#') for l in ls[2:10]) else 'MOS header lines are not comments'
        if d:
            return 'MOS ' + d
        data = [l for l in ls[10:] if l and not l.startswith('#')]
        if len(data) != self.n:
            return '%d MOS data lines (%d expected)' % (len(data), self.n)
        si_units, ip_units = self.base['si']['units'], self.base['ip']['units']
        cols = {}
        for k in range(6, self.nf):
            if k in self.si_vals and self.ip:
                cols[k] = _to_unit(e._data[k], self.si_vals[k], ip_units[k], si_units[k])
            elif k in self.si_vals:
                cols[k] = self.si_vals[k]
            else:
                cols[k] = self.base['ip' if self.ip else 'si']['values'][k]
        tol = self.tol() or (1e-9 if self.ip and self.si_vals else 0.0)
        for i in list(range(0, self.n, 13)) + [1, 2, self.n - 2, self.n - 1]:
            tk = data[i].split('\t')
            if len(tk) != self.nf - 5 or float(tk[0]) != 3600.0 * i:
                return 'MOS line %d starts %r (time %d s, %d columns expected)' % (i, tk[:2], 3600 * i, self.nf - 5)
            for j, k in enumerate(range(6, self.nf)):
                w = cols[k][i]
                if tk[j + 1] != str(w) and not (tol and _close(float(tk[j + 1]), float(w), tol)):
                    return 'MOS line %d field %d is %s, expected %s' % (i, k, tk[j + 1], w)
        return None

    def check_dict(self, d):
        _, loc = self.header()
        ld = d.get('location', {})
        got = (ld.get('city'), ld.get('state'), ld.get('country'), ld.get('source'), ld.get('station_id'),
               ld.get('latitude'), ld.get('longitude'), ld.get('time_zone'), ld.get('elevation'))
        if got != loc:
            return 'dict location is %r, expected %r' % (got, loc)
        if d.get('is_ip') != self.ip or d.get('is_leap_year') != self.leap:
            return 'dict is_ip / is_leap_year are %r / %r' % (d.get('is_ip'), d.get('is_leap_year'))
        dc = d.get('data_collections', [])
        if len(dc) != self.nf:
            return 'dict has %d data collections' % len(dc)
        return None


def _wea_head_same(got, want):
    if len(got) != len(want):
        return False
    for g, w in zip(got, want):
        if g != w:
            tg, tw = g.split(' '), w.split(' ')
            if tg[0] != tw[0] or tg[0] == 'place' or len(tg) != 2 or len(tw) != 2 or not _is_num(tg[1]) or \
                    float(tg[1]) != float(tw[1]):
                return False
    return True


def _is_num(s):
    try:
        float(s)
        return True
    except ValueError:
        return False


SHAPES = ('list', 'tuple', 'gen', 'iter', 'map', 'dictkeys')


def _shaped(seq, shape):
    """The same items as another kind of iterable (generator / iter / map objects can be walked ONCE)."""
    if seq is None or shape in (None, 'list'):
        return seq
    if shape == 'tuple':
        return tuple(seq)
    if shape == 'gen':
        return (x for x in seq)
    if shape == 'iter':
        return iter(list(seq))
    if shape == 'map':
        return map(int, [str(x) for x in seq])
    if shape == 'dictkeys':
        return dict.fromkeys(seq).keys() if len(set(seq)) == len(seq) else tuple(seq)
    raise ValueError(shape)


def _hdr_sane(lines):
    """Facts of a regenerated header that do not depend on how the slots were filled: ground depths ascending,
    the values of each design-condition block in the order of the key list (the harness numbers them)."""
    import re
    g = lines[3].strip().split(',')
    try:
        depths = [float(g[2 + 16 * j]) for j in range(int(g[1]))]
    except (ValueError, IndexError):
        return 'GROUND TEMPERATURES line is not n x 16 tokens: %s' % _short(lines[3])
    if depths != sorted(depths):
        return 'ground depths are not ascending: %r' % (depths,)
    last = {}
    for t in lines[1].strip().split(','):
        m = re.match(r'^([hce])(\d+)_(\d+)$', t)
        if m:
            if int(m.group(3)) <= last.get(m.group(1), -1):
                return 'design conditions are not in key order at %s' % t
            last[m.group(1)] = int(m.group(3))
    return None


def _check_objhist(inp):
    """Operation history on ONE object.  After every step the object is compared with the state the user
    established (a fresh object of the same file on which only the accepted setters / unit conversions
    were performed); every output is compared with what that state determines; a refused operation
    leaves everything as before."""
    from ladybug.epw import EPW
    spec, ops = inp['spec'], inp['ops']
    base = _baseline(spec)
    ex = _Expect(base)
    d = _tmpdir()
    ctor = inp.get('ctor', 'path')
    if ctor == 'path':
        p = os.path.join(d, 'obj.epw')
        with open(p, 'w') as f:
            f.write(base['text'])
        e = EPW(p)
    elif ctor == 'dict':
        e = EPW.from_dict(copy.deepcopy(EPW.from_file_string(base['text']).to_dict()))
    else:
        e = EPW.from_file_string(base['text'])
    for j, op in enumerate(ops):
        name = op[0]
        sig = {'what': 'history', 'step': name, 'ip': ex.ip, 'refused': False}
        where = 'after step %d %r of the history' % (j, op)

        def bad(req, obs, **kw):
            return {'required': req + ' (' + where + ')', 'observed': obs, 'sig': dict(sig, **kw)}
        if name == 'hdr':
            dd = _hdr_diff(e.header, ex.header()[0])
            if dd:
                return bad('header of the state the user established', dd, part='header')
            continue
        if name == 'leap':
            if e.is_leap_year != ex.leap:
                return bad('is_leap_year %s' % ex.leap, repr(e.is_leap_year), part='leap')
            continue
        if name == 'load':
            e.dry_bulb_temperature
        elif name == 'field':
            k = op[1]
            if 0 <= k < ex.nf:
                dd = ex.check_values(e, [k])
                if dd:
                    return bad('field %d as established' % k, dd, part='values')
                continue
            sig['refused'] = True
            try:
                e.import_data_by_field(k)
                continue                  # accepted (negative indexing ...): nothing established, nothing to compare
            except Exception:
                pass
        elif name == 'ip':
            e.convert_to_ip()
            ex.ip = ex.ever_ip = True
        elif name == 'si':
            e.convert_to_si()
            ex.ip = False
        elif name in ('write', 'write_path', 'save'):
            if name == 'write':
                text = e.to_file_string()
            else:
                fp = os.path.join(d, 'out_%d.epw' % j)
                if name == 'write_path' and j % 2:       # write() appends the extension when it is missing
                    ret = e.write(fp[:-4])
                else:
                    ret = e.write(fp) if name == 'write_path' else e.save(fp)
                if not os.path.isfile(fp):
                    return bad('%s writes to %s' % (name, os.path.basename(fp)), 'no such file', part='path')
                with open(fp) as f:
                    text = f.read()
                os.remove(fp)
                if ret != text:
                    return bad('%s returns the text it wrote' % name, 'differs', part='text')
            dd = ex.check_text(text)
            if dd:
                return bad('file text of the state the user established', dd, part='text')
        elif name == 'write_fail':
            k = op[1] % ex.nf
            if not e.is_data_loaded:
                e.dry_bulb_temperature
            sig['refused'] = True
            saved = e._data[k]._values.pop()
            try:
                e.to_file_string()
                res = 'returned'
            except ValueError:
                res = 'ValueError'
            except Exception as exn:
                res = type(exn).__name__
            e._data[k]._values.append(saved)
            if res != 'ValueError':
                return bad('ValueError for data that is not a full year', res, part='result')
        elif name == 'wea':
            hoys = op[1] if len(op) > 1 else None
            wp = os.path.join(d, 'h_%d.wea' % j)
            refused = bool(hoys) and any(h >= ex.n or h < -ex.n for h in hoys)
            try:
                ret = e.to_wea(wp[:-4] if j % 2 else wp, _shaped(hoys, op[2] if len(op) > 2 and hoys else None))
                if ret != wp or not os.path.isfile(wp):
                    return bad('to_wea writes and returns %s' % os.path.basename(wp), repr(ret), part='path')
                with open(wp) as f:
                    text = f.read()
                os.remove(wp)
                # (an hour outside the year that is not refused must not bring the numbers of another hour)
                dd = ex.check_wea(text, [h for h in hoys if -ex.n <= h < ex.n], True) if refused else ex.check_wea(text, hoys)
                if dd:
                    return bad('Wea file of the state the user established', dd, part='wea')
            except IndexError:
                if not refused:
                    raise
                sig['refused'] = True
        elif name == 'mos':
            mp = os.path.join(d, 'h_%d.mos' % j)
            ret = e.to_mos(mp[:-4] if j % 2 else mp)
            if ret != mp or not os.path.isfile(mp):
                return bad('to_mos writes and returns %s' % os.path.basename(mp), repr(ret), part='path')
            with open(mp) as f:
                text = f.read()
            os.remove(mp)
            dd = ex.check_mos(text, e)
            if dd:
                return bad('MOS file of the state the user established', dd, part='mos')
        elif name == 'dict':
            dct = e.to_dict()
            dd = ex.check_dict(dct)
            if not dd:
                keep = copy.deepcopy(dct)
                e3 = EPW.from_dict(dct)
                if dct != keep:
                    return bad('from_dict leaves its argument unchanged', 'argument changed', part='dict_argument')
                dd = ex.check_object(e3)
                if not dd and op[1:] == ['adopt']:
                    e = e3                # the history goes on with the rebuilt object
            if dd:
                return bad('dictionary of the state the user established', dd, part='dict')
        elif name == 'from_dict_bad':
            sig['refused'] = True
            dct = e.to_dict()
            dct['data_collections'] = dct['data_collections'][:op[1]]
            keep = copy.deepcopy(dct)
            try:
                EPW.from_dict(dct)
                continue
            except Exception:
                pass
            if dct != keep:
                return bad('refused from_dict leaves its argument unchanged', 'argument changed', part='dict_argument')
        elif name in HEADER_SETTERS:
            valid = _setter_valid(op)
            sig['refused'] = not valid
            sig['setter'] = name if name != 'loc_attr' else 'loc_attr:' + op[1]
            try:
                _apply_header_setter(e, op)
                raised = None
            except (AssertionError, ValueError, TypeError) as exn:
                raised = exn
            if valid and raised is not None:
                return bad('setter accepts a valid argument', '%s: %s' % (type(raised).__name__, raised), part='setter')
            if not valid and raised is None:
                continue                  # accepted what the documentation excludes: no state established
            if valid:
                ex.accept(op)
        elif name == 'set_values':
            k, tag = op[1], op[2]
            vals = _new_values(k, tag, ex.n)
            c = e.import_data_by_field(k)
            c.values = vals
            si_u, ip_u = base['si']['units'][k], base['ip']['units'][k]
            ex.si_vals[k] = vals if not ex.ip else _to_unit(c, vals, si_u, ip_u)
        elif name == 'set_values_bad':
            sig['refused'] = True
            c = e.import_data_by_field(op[1])
            try:
                c.values = [1.0] * (ex.n - op[2])
                continue
            except (AssertionError, ValueError):
                pass
        else:
            raise ValueError('unknown history op %r' % (op,))
        try:
            dd = ex.check_object(e)
        except Exception as exn:
            dd = 'reading the object raises %s: %s' % (type(exn).__name__, exn)
        if dd:
            what = 'a refused operation leaves the object as it was' if sig['refused'] else \
                'the object is the state the user established'
            return bad(what, dd, part='object')
    if inp.get('final', True):
        sig = {'what': 'history', 'step': 'final', 'ip': ex.ip, 'refused': False}
        text = e.to_file_string()
        dd = ex.check_text(text)
        if not dd and not ex.ever_ip:
            e2 = EPW.from_file_string(text)
            dd = _hdr_diff(e2.header, ex.header()[0]) or ex.check_values(e2, reread=True)
            if dd:
                dd = 're-read object: ' + dd
        if dd:
            return {'required': 'after the history %r the object is written as the state the user established and '
                                'reads back' % (ops,), 'observed': dd, 'sig': dict(sig, part='final')}
    return None


R3_LOCS = [
    {'city': 'Lisboa', 'state': '-', 'country': 'PRT', 'lat': 38.73, 'lon': -9.15, 'tz': 0.0, 'elev': 71.0,
     'station': '085360', 'source': 'INETI'},
    {'city': 'Reykjavik', 'state': '-', 'country': 'ISL', 'lat': 64.13, 'lon': -21.9, 'tz': 0, 'elev': 0,
     'station': '040300', 'source': 'IWEC'},
    {'city': 'Null Island', 'state': 'NI', 'country': 'ATL', 'lat': 0.0, 'lon': 0.0, 'tz': 0.0, 'elev': 0.0,
     'station': '000000', 'source': 'SRC'},
    {'city': 'South Pole', 'state': 'AQ', 'country': 'ATA', 'lat': -90.0, 'lon': 180.0, 'tz': 14.0, 'elev': 2835.0,
     'station': '890090', 'source': 'IWEC'},
    {'city': 'Baker', 'state': 'UM', 'country': 'USA', 'lat': 0.19, 'lon': -176.48, 'tz': -12.0, 'elev': -0.5,
     'station': '999999', 'source': 'TMYx'},
    {'city': 'Mumbai', 'state': 'MH', 'country': 'IND', 'lat': 19.12, 'lon': 72.85, 'tz': 5.5, 'elev': 14.0,
     'station': '430030', 'source': 'ISHRAE'},
]


def _rand_loc(rng):
    if rng.random() < 0.5:
        return dict(rng.choice(R3_LOCS))
    return {'city': rng.choice(['Test City', 'X', 'Van Nuys']), 'state': rng.choice(['ST', '-', 'CA']),
            'country': rng.choice(['USA', 'DEU']), 'station': rng.choice(['725300', '000010']),
            'source': rng.choice(['TMY3', 'Custom']),
            'lat': rng.choice([0.0, 90.0, -90.0, 0, round(rng.uniform(-90, 90), 2)]),
            'lon': rng.choice([0.0, 180.0, -180.0, 0, round(rng.uniform(-180, 180), 2)]),
            'tz': rng.choice([0.0, 0, -12.0, 14.0, 5.75, float(rng.randrange(-12, 15))]),
            'elev': rng.choice([0.0, 0, -12.5, float(rng.randrange(0, 3000))])}


def _rand_obj_op(rng, n, k_set):
    """One history op: reads ~50 %, accepted mutators ~30 %, refused operations ~20 %."""
    r = rng.random()
    if r < 0.5:
        return rng.choice([
            ['hdr'], ['leap'], ['load'], ['field', rng.choice([0, 3, 5, 6, 9, 14, 20, 34, rng.randrange(35)])],
            ['write'], ['write'], ['write_path'], ['save'], ['wea'], ['wea', [0]], ['wea', [n - 1, 0, 12]],
            ['wea', []], ['mos'], ['dict'], ['dict', 'adopt'],
            # hours around the end of February (leap and common-year hours of the year differ from 1416 on), unsorted,
            # repeated; the same hours as tuple / generator / iterator / map object / dictionary keys
            ['wea', [1415, 1416, 1439, 1440, n - 1], rng.choice(SHAPES)],
            ['wea', [12, 0, 12, n - 1, 0], rng.choice(SHAPES)],
            ['wea', sorted(rng.sample(range(n), 4), reverse=True), rng.choice(SHAPES)],
            ['wea', [n - 1, n - 2, 0], rng.choice(SHAPES)]])
    if r < 0.8:
        tag = rng.randrange(1000)
        st = datetime(2017, 1, 1) + timedelta(days=rng.randrange(0, 358))
        return rng.choice([
            ['ip'], ['si'], ['set_loc', _rand_loc(rng)], ['set_loc', _rand_loc(rng)],
            ['set_design', rng.randrange(3), rng.choice(['full', 'rev', 'empty']), tag],
            ['set_weeks', rng.randrange(3), rng.choice(['ok', 'ok', 'empty']), st.month, st.day],
            ['set_weeks', rng.randrange(3), 'ok', 12, rng.randrange(26, 32)],       # a week over the end of the year
            ['set_ground', rng.choice(['ok', 'rev', 'empty']), tag],
            ['loc_attr', rng.choice(['latitude', 'longitude', 'time_zone', 'elevation']),
             rng.choice(['12.5', ' 7 ', '1e1', '-0.0', '0', '+3', '1_0', '5.', ''])],
            ['set_comments', rng.choice([1, 2]), rng.choice(['', '0', 'a,b,,c', 'edited %d' % tag])],
            ['set_dst', rng.choice(['0', '3/8', ' 3/ 8']), rng.choice(['0', '11/1'])],
            ['loc_attr', 'elevation', rng.choice([0, 0.0, 12.5, -3.0])],
            ['loc_attr', 'time_zone', rng.choice([0, 0.0, -12, 14, 3.5])],
            ['loc_attr', 'latitude', rng.choice([0.0, 90, -90, 12.25])],
            ['set_values', rng.choice(k_set), tag]])
    return rng.choice([
        ['field', rng.choice([35, 99, -1])], ['write_fail', rng.choice([0, 6, 14, 20, 33, 34, rng.randrange(35)])],
        ['wea', [5, n]], ['wea', [n + 3]], ['set_loc_bad'], ['set_design', rng.randrange(3), 'bad', 1],
        ['set_design', rng.randrange(3), 'notdict', 1], ['set_weeks', rng.randrange(3), 'bad', 6, 10],
        ['set_weeks', rng.randrange(3), 'notdict', 1, 1], ['set_ground', 'bad', 1], ['set_ground', 'notdict', 1],
        ['loc_attr', 'latitude', rng.choice([95.0, -100, '95', 'north', ' ', 'nan', '1e3'])], ['loc_attr', 'longitude', 200.0],
        ['loc_attr', 'time_zone', rng.choice(['15', 'x', '-12.5'])], ['wea', [0, n, 1], rng.choice(SHAPES)],
        ['loc_attr', 'time_zone', rng.choice([15, -13.0])], ['set_values_bad', rng.choice(k_set), rng.choice([1, 24])],
        ['from_dict_bad', rng.choice([34, 0])]])


R3_SPECS = [{'leap': 'No', 'mode': 'ids', 'seed': 1},
            {'leap': 'Yes', 'mode': 'ids', 'seed': 2, 'header': None},
            {'leap': 'No', 'mode': 'canon', 'seed': 3, 'header': None, 'eqv': 3},
            {'leap': 'Yes', 'mode': 'canon', 'seed': 4, 'header': None, 'year': '2016', 'eqv': 4}]     # exotic header text


def _r3_spec(i):
    s = dict(R3_SPECS[i])
    if 'header' in s:
        o = rand_header_opts(random.Random(100 + i), leap_tok=s['leap'])
        o['design'] = ['none', '2009', '2021', '2021'][i]
        o.update(city='Test City', state='ST', country='USA', source='TMY3', station='725300')
        if i == 3:
            o.update(city='S\xe3o\u2028Paulo', source='TMY\x0c3', c1='first\x85comment, caf\xe9 \u2029 end',
                     c2='a\x1cb\x1dc\x1ed\x0be')
        s['header'] = o
    return s


def _gen_objhist(rng, spec_i, length):
    spec = _r3_spec(spec_i)
    n = _n_hours(spec['leap'] == 'Yes')
    k_set = [6, 8, 14, 20, 22, 33]
    ops = [_rand_obj_op(rng, n, k_set) for _ in range(length)]
    # read -> set -> read (and write -> set -> write) patterns around every accepted setter
    out = []
    for op in ops:
        if op[0].startswith('set_') or op[0] in ('loc_attr', 'ip', 'si'):
            if rng.random() < 0.6:
                out.append(rng.choice([['hdr'], ['write'], ['dict'], ['mos'], ['wea', [0]]]))
            out.append(op)
            if rng.random() < 0.6:
                out.append(rng.choice([['hdr'], ['write'], ['dict'], ['mos'], ['wea', [1]]]))
        else:
            out.append(op)
    return {'spec': spec, 'ops': out, 'ctor': rng.choice(['path', 'path', 'string', 'dict'])}


R3_FIXED_HIST = [
    {'spec': 0, 'ctor': 'path', 'ops': [['hdr'], ['write'], ['write'], ['set_loc', R3_LOCS[0]], ['hdr'], ['save'],
                                        ['mos'], ['wea', [0]], ['dict']], 'final': False},
    {'spec': 0, 'ctor': 'path', 'ops': [['write_fail', 0], ['write'], ['ip'], ['write_fail', 6],
                                        ['set_values', 8, 4], ['wea', [5, 8760]], ['mos'], ['si'], ['field', 8],
                                        ['write_fail', 34]]},
    {'spec': 1, 'ctor': 'string', 'ops': [['dict', 'adopt'], ['set_loc', R3_LOCS[2]], ['dict', 'adopt'], ['write'],
                                          ['loc_attr', 'time_zone', 0], ['write'], ['set_comments', 1, '0'],
                                          ['set_design', 0, 'empty', 1], ['hdr'], ['write_path']], 'final': False},
    {'spec': 2, 'ctor': 'path', 'ops': [['set_values', 6, 5], ['write'], ['set_values', 14, 7], ['wea'], ['mos'],
                                        ['set_values_bad', 6, 1], ['write'], ['set_ground', 'ok', 3], ['hdr'],
                                        ['set_weeks', 0, 'ok', 7, 1], ['set_weeks', 1, 'bad', 1, 5], ['write']]},
    {'spec': 1, 'ctor': 'path', 'ops': [['set_design', 0, 'full', 1], ['set_design', 1, 'full', 2], ['hdr'],
                                        ['set_design', 2, 'full', 3], ['hdr'], ['set_design', 1, 'bad', 4], ['hdr'],
                                        ['set_loc_bad'], ['loc_attr', 'elevation', 0], ['write'], ['ip'], ['dict'],
                                        ['from_dict_bad', 34], ['mos'], ['write']], 'final': False},
    # header slots only (the object stays lazy): every setter replaces what was there, also by something empty
    {'spec': 1, 'ctor': 'path', 'final': False,
     'ops': [['set_weeks', 0, 'ok', 7, 1], ['set_weeks', 1, 'ok', 1, 10], ['set_weeks', 2, 'ok', 4, 3], ['hdr'],
             ['set_weeks', 0, 'empty', 1, 1], ['set_weeks', 1, 'empty', 1, 1], ['set_weeks', 2, 'empty', 1, 1], ['hdr'],
             ['set_ground', 'ok', 3], ['hdr'], ['set_ground', 'empty', 0], ['set_design', 0, 'full', 1],
             ['set_design', 1, 'full', 1], ['set_design', 2, 'full', 1], ['hdr'], ['set_design', 1, 'empty', 2], ['hdr'],
             ['set_comments', 1, ''], ['set_comments', 2, '0'], ['set_dst', '0', '0'], ['hdr'],
             ['set_loc', R3_LOCS[2]], ['hdr'], ['set_loc', R3_LOCS[3]], ['hdr'],
             # every setter refuses what its validation excludes, and nothing is left behind
             ['set_ground', 'bad', 1], ['set_ground', 'notdict', 1], ['set_weeks', 0, 'bad', 6, 10],
             ['set_weeks', 1, 'bad', 12, 30], ['set_weeks', 2, 'bad', 2, 27], ['set_weeks', 0, 'notdict', 1, 1],
             ['set_weeks', 1, 'notdict', 1, 1], ['set_weeks', 2, 'notdict', 1, 1], ['set_design', 0, 'bad', 9],
             ['set_design', 1, 'bad', 9], ['set_design', 2, 'bad', 9], ['set_design', 0, 'notdict', 9],
             ['set_design', 1, 'notdict', 9], ['set_design', 2, 'notdict', 9], ['set_loc_bad'],
             ['loc_attr', 'latitude', 95.0], ['loc_attr', 'longitude', -200.0], ['loc_attr', 'time_zone', 15],
             ['loc_attr', 'latitude', -90.5], ['hdr'], ['loc_attr', 'elevation', 0], ['loc_attr', 'time_zone', 0],
             ['hdr']]},
    # every sibling of one operation in every unit state (write / write to a path / save; Wea with hours in
    # every container; setters fed text and dictionaries in reverse order)
    {'spec': 1, 'ctor': 'string', 'final': False,
     'ops': [['ip'], ['save'], ['write_path'], ['wea', [1416, 0, 1416], 'gen'], ['wea', [8783], 'iter'],
             ['si'], ['wea', [5, 3], 'map'], ['wea', [7], 'tuple'],
             ['loc_attr', 'latitude', '12.5'], ['loc_attr', 'longitude', ''], ['loc_attr', 'time_zone', ' 3 '],
             ['loc_attr', 'time_zone', 'x'], ['set_design', 0, 'rev', 5], ['set_design', 1, 'rev', 5],
             ['set_design', 2, 'rev', 5], ['set_ground', 'rev', 3], ['hdr'], ['set_weeks', 1, 'ok', 12, 29], ['save']]},
]


def _fixed_hist(i):
    h = R3_FIXED_HIST[i]
    return dict(h, spec=_r3_spec(h['spec']))


def _check_locdict(inp):
    """Dictionary route of the location with rare values (zeros, bounds): an EPW rebuilt from its own
    dictionary (or from a dictionary whose location is replaced) has the same location and writes the
    same LOCATION line / Wea header."""
    from ladybug.epw import EPW
    a = inp['loc']
    base = _baseline(_r3_spec(0))
    e = EPW.from_file_string(base['text']) if 'obj' not in _LOCDICT else _LOCDICT['obj']
    _LOCDICT['obj'] = e
    want = (a['city'], a['state'], a['country'], a['source'], a['station'], float(a['lat']), float(a['lon']),
            float(a['tz']), float(a['elev']))
    sig = {'what': 'location_dict', 'tz_zero': not a['tz'], 'elev_zero': not a['elev'], 'lat_zero': not a['lat'],
           'lon_zero': not a['lon']}
    e.location = _setter_arg(['set_loc', a])
    line = e.header[0]
    want_line = 'LOCATION,' + ','.join(str(x) for x in want)
    if not _loc_line_same(line.strip(), want_line):
        return {'required': 'LOCATION line ' + want_line, 'observed': line.strip(), 'sig': dict(sig, route='setter')}
    for route in ('dict', 'dict_plain'):
        d = e.to_dict()
        if route == 'dict_plain':       # a dictionary written by hand / by another program: plain numbers
            d = dict(d, location={'city': a['city'], 'state': a['state'], 'country': a['country'],
                                  'latitude': a['lat'], 'longitude': a['lon'], 'time_zone': a['tz'],
                                  'elevation': a['elev'], 'station_id': a['station'], 'source': a['source'],
                                  'type': 'Location'})
        e2 = EPW.from_dict(d)
        loc = e2.location
        got = (loc.city, loc.state, loc.country, loc.source, loc.station_id, loc.latitude, loc.longitude,
               loc.time_zone, loc.elevation)
        if got != want:
            return {'required': 'location %r after to_dict -> from_dict' % (want,), 'observed': repr(got),
                    'sig': dict(sig, route=route)}
        if not _loc_line_same(e2.header[0].strip(), want_line):
            return {'required': 'LOCATION line ' + want_line, 'observed': e2.header[0].strip(),
                    'sig': dict(sig, route=route + ':header')}
        wh = e2._get_wea_header().split('\n')
        want_h = ['place %s' % want[0], 'latitude %.2f' % want[5], 'longitude %.2f' % -want[6],
                  'time_zone %d' % (-want[7] * 15), 'site_elevation %.1f' % want[8]]
        if not _wea_head_same(wh[:5], want_h):
            return {'required': 'Wea header %r' % (want_h,), 'observed': repr(wh[:5]), 'sig': dict(sig, route=route + ':wea')}
    # the text route: a file with this LOCATION line
    lines = [want_line] + base['hdr'][1:]
    e3, p3 = _header_only_epw(lines)
    try:
        loc = e3.location
        got = (loc.city, loc.state, loc.country, loc.source, loc.station_id, loc.latitude, loc.longitude,
               loc.time_zone, loc.elevation)
        l3 = e3.header[0].strip()
    finally:
        os.remove(p3)
    if got != want or not _loc_line_same(l3, want_line):
        return {'required': 'location %r read from the text' % (want,), 'observed': '%r / %s' % (got, l3),
                'sig': dict(sig, route='text')}
    return None


_LOCDICT = {}


# --- process order: the same self-checking cases in fresh interpreters, in different orders


def _worker_main():
    """Child process: reads {'cases': [[op, inp], ...]} from stdin, evaluates them in that order in this
    fresh interpreter, prints one JSON list of results (None | failure dict)."""
    import sys
    repo = os.environ.get('LADYBUG_REPO', '/repo')
    if repo not in sys.path:
        sys.path.insert(0, repo)
    job = json.loads(sys.stdin.read())
    out = []
    for op, inp in job['cases']:
        try:
            res = check_case(op, inp)
        except Exception as e:
            res = {'required': 'oracle evaluates', 'observed': 'exception %s: %s' % (type(e).__name__, e),
                   'sig': {'exception': type(e).__name__}}
        out.append(res)
    sys.stdout.write('\n@@R3@@' + json.dumps(out, default=str))


_PENDING = {}


def _order_start(inp):
    """Start the fresh interpreter for one order (runs beside the other oracle cases)."""
    import subprocess
    import sys
    root = os.path.normpath(os.path.join(os.path.dirname(os.path.abspath(__file__)), '..', '..'))
    code = 'import sys; sys.path.insert(0, %r); from harness.props import c01; c01._worker_main()' % root
    p = subprocess.Popen([sys.executable, '-c', code], stdin=subprocess.PIPE, stdout=subprocess.PIPE,
                         stderr=subprocess.PIPE, env=dict(os.environ))
    p.stdin.write(json.dumps({'cases': inp['order']}).encode())
    p.stdin.close()
    p.stdin = None
    return p


def _check_order(inp):
    """Evaluate the cases of `inp['order']` in ONE fresh interpreter in the given order; the first failing case
    is the result (the whole order is the replay input)."""
    key = json.dumps(inp, sort_keys=True)
    p = _PENDING.pop(key, None) or _order_start(inp)
    try:
        out, err = p.communicate(timeout=900)
    finally:
        if p.poll() is None:
            p.kill()
    txt = out.decode('utf-8', 'replace')
    if '@@R3@@' not in txt:
        return {'required': 'the cases run in a fresh interpreter', 'observed': 'worker exit %s: %s' % (
            p.returncode, err.decode('utf-8', 'replace')[-400:]), 'sig': {'what': 'order_worker'}}
    res = json.loads(txt.split('@@R3@@')[1])
    for i, r in enumerate(res):
        if r:
            alone = 'not run'
            if i > 0 and not inp.get('nested'):
                alone = _check_order({'order': [inp['order'][i]], 'nested': True})
            s = dict(r.get('sig') or {})
            s['order_dependent'] = bool(i > 0 and alone is None)
            s['case_op'] = inp['order'][i][0]
            return {'required': 'case %d of the order (%s %s) holds in a fresh interpreter after the %d cases before it: %s'
                                % (i, inp['order'][i][0], _short(inp['order'][i][1]), i, r.get('required')),
                    'observed': '%s%s' % (r.get('observed'), ' [alone in a fresh interpreter the case holds]'
                                          if s['order_dependent'] else ''), 'sig': s}
    return None


def _order_pool(rng, big):
    """Self-checking cases for the process-order layer, rare classes marked."""
    leap_hist = {'spec': _r3_spec(1), 'ctor': 'path', 'final': False,
                 'ops': [['hdr'], ['write'], ['wea', [0, 8783]], ['mos'], ['dict']]}
    plain_hist = {'spec': _r3_spec(0), 'ctor': 'path', 'final': False,
                  'ops': [['write'], ['set_loc', R3_LOCS[0]], ['write'], ['wea', [0, 8759]], ['mos'], ['dict']]}
    fail_hist = {'spec': _r3_spec(0), 'ctor': 'string', 'final': False,
                 'ops': [['write_fail', 6], ['wea', [5, 8760]], ['set_loc_bad'], ['from_dict_bad', 34], ['write']]}
    ip_hist = {'spec': _r3_spec(0), 'ctor': 'path', 'final': False, 'ops': [['ip'], ['write'], ['mos'], ['si'], ['write']]}
    al = {'a': _r4_spec(rng, 'Yes', 'ids'), 'b': _r4_spec(rng, 'No', 'ids', hdr={'design': '2021', 'n_ext': 15}), 'ctor': 'string', 'field': 6}
    al['a']['header'].update(design='2009', ground=[['.5', '1.2', '', '0', ['%d.25' % i for i in range(12)]],
                                                     ['4', '', '1600', '0.85', ['%d.75' % i for i in range(12)]]])
    if not big:
        rare = [('alias', al), ('missing', {'leap': True}), ('objhist', fail_hist), ('objhist', leap_hist),
                ('locdict', {'loc': R3_LOCS[1]})]
        plain = [('objhist', plain_hist), ('locdict', {'loc': R3_LOCS[5]}),
                 ('hdr_roundtrip', {'seed': rng.randrange(10 ** 6)}), ('flags', {'field': 6})]
        return rare, plain
    rare = [('alias', al), ('missing', {'leap': True}), ('objhist', leap_hist), ('objhist', fail_hist), ('objhist', ip_hist),
            ('locdict', {'loc': R3_LOCS[1]}), ('roundtrip', {'file': 'los_angeles_no_leap_field.epw'}),
            ('exports', {'file': 'chicago.epw', 'ip': True})]
    plain = [('missing', {'leap': False}), ('objhist', plain_hist), ('locdict', {'loc': R3_LOCS[5]}),
             ('hdr_roundtrip', {'seed': rng.randrange(10 ** 6)}), ('flags', {'field': 6}),
             ('roundtrip', {'file': 'chicago.epw'}), ('exports', {'file': 'chicago.epw'})]
    return rare, plain


def _orders(rng, big):
    rare, plain = _order_pool(rng, big)
    a = [list(c) for c in rare + plain]                    # rare classes first (leap, failing calls, IP)
    b = [list(c) for c in plain + rare]                    # plain first
    if not big:
        if rng.random() < 0.5:                             # second order: plain first, rare ones reversed or shuffled
            b = [list(c) for c in plain] + [list(c) for c in reversed(rare)]
        return [a, b]
    c = [list(x) for x in rare + plain]
    rng.shuffle(c)
    d = [list(x) for x in reversed(rare)] + [list(x) for x in reversed(plain)]
    return [a, b, c, d]


# --- correspondence of histories with the object state machine (Model/EpwObj.lean, driver op `obj`)


def _slot_contents(e):
    """Canonical content of the 11 header slots, read from the private attributes (no lazy load is triggered)."""
    loc = getattr(e, '_location', None)
    loc_t = None if loc is None else (loc.city, loc.state, loc.country, loc.source, loc.station_id,
                                      float(loc.latitude), float(loc.longitude), float(loc.time_zone),
                                      float(loc.elevation))

    def dd(d):
        return tuple(sorted(d.items())) if isinstance(d, dict) else repr(d)

    def wk(d):
        return tuple(sorted((k, (a.st_month, a.st_day, a.end_month, a.end_day)) for k, a in d.items())) \
            if isinstance(d, dict) else repr(d)

    def gr(d):
        if not isinstance(d, dict):
            return repr(d)
        out = []
        for depth, col in d.items():
            md = col.header.metadata
            out.append((float(depth), (md.get('soil conductivity'), md.get('soil density'), md.get('soil specific heat')),
                        tuple(col.values)))
        return tuple(sorted(out))
    return [loc_t, dd(e._heating_dict), dd(e._cooling_dict), dd(e._extremes_dict), wk(e._extreme_hot_weeks),
            wk(e._extreme_cold_weeks), wk(e._typical_weeks), gr(e._monthly_ground_temps),
            (e.daylight_savings_start, e.daylight_savings_end), e.comments_1, e.comments_2]


def _slot_of_op(op, cur):
    """(slot number, content the accepted setter establishes), from the plain values of the op."""
    name = op[0]
    if name == 'set_loc':
        a = op[1]
        return 0, (a['city'], a['state'], a['country'], a['source'], a['station'], float(a['lat']), float(a['lon']),
                   float(a['tz']), float(a['elev']))
    if name == 'loc_attr':
        t = list(cur[0])
        try:
            t[{'latitude': 5, 'longitude': 6, 'time_zone': 7, 'elevation': 8}[op[1]]] = _num(op[1], op[2])
        except (TypeError, ValueError):
            return 0, None              # text that is not a number: refused, nothing established
        return 0, tuple(t)
    if name == 'set_design':
        arg = _setter_arg(op)
        return 1 + op[1], tuple(sorted(arg.items())) if isinstance(arg, dict) else None
    if name == 'set_weeks':
        if op[2] in ('empty', 'notdict'):
            return 4 + op[1], ()
        st = datetime(2017, op[3], op[4])
        en = st + timedelta(days=2 if op[2] == 'bad' else 6)
        return 4 + op[1], (([R3_HOT, R3_COLD, R3_TYP][op[1]], (st.month, st.day, en.month, en.day)),)
    if name == 'set_ground':
        kind, tag = op[1], op[2]
        if kind not in ('ok', 'rev'):
            return 7, ()
        return 7, tuple((depth, ('1.%d' % (tag % 10), '', '0'), tuple(float(tag % 7 + i + j) + 0.25 for i in range(12)))
                        for j, depth in enumerate([0.5, 2.0][:1 + tag % 2]))
    if name == 'set_comments':
        return 8 + op[1], op[2]
    if name == 'set_dst':
        return 8, (op[1], op[2])
    if name == 'set_loc_bad':
        return 0, None
    raise ValueError(op)


def _run_obj_pair(spec, ctor, ops, base=None):
    """Run a history on the real object and translate it for the model; returns (driver request, impl answer).
    (`base`: text, header lines and leap flag when the caller knows them without reading the file with the code.)"""
    from ladybug.epw import EPW
    base = base or _baseline(spec)
    d = _tmpdir()
    twin, ptw = _header_only_epw(base['hdr'])
    try:
        twin.location
        file_c = _slot_contents(twin)
    finally:
        os.remove(ptw)
    ids = [{repr(file_c[j]): 0} for j in range(11)]       # per slot: content -> id (0 = what the file holds)
    cur = list(file_c)                                     # content the accepted setters established

    def slot_ids(e):
        if not e.is_header_loaded:
            return ['999'] * 11
        return [str(ids[j].get(repr(x), 'unknown')) for j, x in enumerate(_slot_contents(e))]
    if ctor == 'path':
        p = os.path.join(d, 'cobj.epw')
        with open(p, 'w') as f:
            f.write(base['text'])
        e = EPW(p)
    elif ctor == 'dict':
        e = EPW.from_dict(copy.deepcopy(EPW.from_file_string(base['text']).to_dict()))
    else:
        e = EPW.from_file_string(base['text'])
    n = _n_hours(base['si']['leap'])
    ncols = spec.get('ncols', 35)
    toks, out = [], []
    ip = ever_ip = False
    for j, op in enumerate(ops):
        name = op[0]
        if name in ('from_dict_bad',) or (name in ('set_values', 'set_values_bad') and ip):
            continue
        if name == 'loc_attr' and _slot_of_op(op, cur)[1] is None:
            continue            # text that float() rejects (ValueError; the model's refusals are assertion errors): oracle only
        try:
            if name in ('hdr', 'leap'):
                toks.append('H')
                e.location
                res = 'ok'
            elif name == 'load':
                toks.append('L')
                e.dry_bulb_temperature
                res = 'ok'
            elif name == 'field':
                k = op[1] if op[1] >= 0 else 9999
                toks.append('G:%d' % k)
                res = 'ok%d' % _col_fp(_si_ids_of(e, e.import_data_by_field(op[1]), op[1]))
            elif name == 'ip':
                toks.append('I')
                e.convert_to_ip()
                ip = ever_ip = True
                res = 'ok'
            elif name == 'si':
                toks.append('S')
                e.convert_to_si()
                ip = False
                res = 'ok'
            elif name in ('write', 'write_path', 'save'):
                toks.append('W')
                if name == 'write':
                    text = e.to_file_string()
                else:
                    fp_ = os.path.join(d, 'cout.epw')
                    (e.write if name == 'write_path' else e.save)(fp_)
                    with open(fp_) as f:
                        text = f.read()
                res = 'ok%d:%d' % _rows_hash(text) + _leap_written(text)
            elif name == 'write_fail':
                k = op[1] % 35
                toks.append('F:%d' % k)
                if not e.is_data_loaded:
                    e.dry_bulb_temperature
                saved = e._data[k]._values.pop()
                try:
                    text = e.to_file_string()
                    res = 'ok%d:%d' % _rows_hash(text) + _leap_written(text)
                finally:
                    e._data[k]._values.append(saved)
            elif name == 'wea':
                hoys = op[1] if len(op) > 1 else None
                toks.append('E' if hoys is None else 'E:' + ','.join(str(h) for h in hoys))
                wp = os.path.join(d, 'cobj.wea')
                e.to_wea(wp, _shaped(hoys, op[2] if len(op) > 2 and hoys else None))
                with open(wp) as f:
                    ls = f.read().split('\n')[6:-1]
                idx = list(hoys) if hoys else list(range(n))
                hs = []
                for l, r in zip(ls, idx):
                    t = l.split()
                    a, b = int(t[3]), int(t[4])
                    if ever_ip:  # SI values recomputed from IP are truncated by %d: one unit of slack, then the id
                        ea, eb = r * ncols + 15, r * ncols + 16
                        a = ea if abs(a - ea) <= 1 else a
                        b = eb if abs(b - eb) <= 1 else b
                    hs.append(_hash_list([int(t[0]), int(t[1]), int(float(t[2]) - 0.5), a, b]))
                res = 'ok%d:%d' % (len(ls), _hash_list(hs))
            elif name == 'mos':
                toks.append('M')
                mp = e.to_mos(os.path.join(d, 'cobj.mos'))
                with open(mp) as f:
                    ls = [l for l in f.read().split('\n') if l and not l.startswith('#') and not l.startswith('double')]
                cols = list(zip(*[l.split('\t') for l in ls]))
                back = [[int(round(float(x))) for x in cols[0]]]
                for jj, k in enumerate(range(6, e._num_of_fields)):
                    back.append(_si_ids_of(e, e._data[k], k, [float(x) for x in cols[jj + 1]]))
                res = 'ok%d:%d' % (len(ls), _hash_list([_hash_list(list(row)) for row in zip(*back)]))
            elif name == 'dict':
                toks.append('D')
                res = 'ok:' + _fp(EPW.from_dict(copy.deepcopy(e.to_dict())))
            elif name in HEADER_SETTERS:
                valid = _setter_valid(op)
                slot, content = _slot_of_op(op, cur)
                if valid:
                    new_id = ids[slot].setdefault(repr(content), len(ids[slot]))
                else:
                    new_id = 0
                toks.append('T:%d:%d:%d' % (slot, new_id, 1 if valid else 0))
                _apply_header_setter(e, op)
                if valid:
                    cur[slot] = content
                res = 'ok'
            elif name == 'set_values':
                k, tag = op[1], op[2]
                toks.append('V:%d:%d:%d' % (k, tag, n))
                vals = [tag * 1000000 + i + 1 for i in range(n)]
                e.import_data_by_field(k).values = [float(v) for v in vals] if VT[k] == 'float' else vals
                res = 'ok'
            elif name == 'set_values_bad':
                toks.append('V:%d:1:%d' % (op[1], n - op[2]))
                e.import_data_by_field(op[1]).values = [1] * (n - op[2])
                res = 'ok'
            else:
                raise KeyError('history op %r' % (op,))
        except (AssertionError, ValueError, IndexError, TypeError) as ex:
            res = 'err:' + err_name(ex)
        out.append(res + '@' + _fp(e) + 's' + '-'.join(slot_ids(e)))
    lp = {'Yes': 'Y', 'No': 'N'}.get(spec['leap'], 'X')
    nrows = spec.get('nrows', 8784 if spec['leap'] == 'Yes' else 8760)
    req = 'obj %s %d %d %d %s %s' % (lp, nrows, ncols, spec.get('blank', -1), 'P' if ctor == 'path' else 'S', ' '.join(toks))
    return req, ' '.join(out)


def _si_ids_of(e, c, k, vals=None):
    from ladybug.epw import EPWFields
    vals = c._values if vals is None else vals
    want = EPWFields.field_by_number(k).unit
    if c.header.unit != want:
        vals = c.header.data_type.to_unit(list(vals), want, c.header.unit)
    return [int(round(float(v))) for v in vals]


def _corr_objhist(ctx):
    rng = ctx.rng
    drv = ctx.driver()
    cases = [_fixed_hist(i) for i in ((1, 5) if ctx.quick and not ctx.searching else range(len(R3_FIXED_HIST)))]
    for j in range(ctx.n(1, 40)):
        cases.append(_gen_objhist(rng, j % 2, rng.randrange(3, 6 if ctx.quick else 12)))
    # round 6: a file without the leap field, a write / export as the first operation that needs the data
    # (the model prints the leap field it writes above the rows: the flag the body settled)
    firsts = [[['write'], ['mos'], ['write']], [['hdr'], ['save'], ['write_fail', 6], ['write']], [['mos'], ['write_path']],
              [['dict'], ['write']], [['wea', [0, 8783]], ['hdr'], ['write']], [['hdr'], ['ip'], ['write'], ['si'], ['save']]]
    for j, ops in enumerate(firsts):
        if not ctx.quick or ctx.searching or (ctx.seed % 2 == 1 and j == (0, 2, 3, 4)[ctx.seed // 2 % 4]):   # (quick: a short one, odd seeds)
            nr = 8760 if (j + ctx.seed) % 4 == 3 else 8784
            ops = [o if o[0] != 'wea' else ['wea', [0, nr - 1]] for o in ops][:None if not ctx.quick or ctx.searching else 2]
            sp = {'leap': '', 'nrows': nr, 'mode': 'ids', 'seed': 60 + nr % 7}
            t = synth_text(sp)          # (the leap flag of the file is known from the spec: the number of rows)
            cases.append({'spec': sp, 'ctor': 'path', 'ops': ops,
                          'base': {'text': t, 'hdr': [l.strip() for l in t.split('\n')[:8]], 'si': {'leap': nr == 8784}}})
            ctx.count('obj_first_load:' + ops[0][0] + ':' + str(nr))
    req = mo = ''
    for h in cases:
        spec = dict(h['spec'], mode='ids')
        try:
            req, io = _run_obj_pair(spec, h.get('ctor', 'path'), h['ops'], h.get('base'))
        except Exception as ex:
            req, io = None, 'err:' + err_name(ex) + ':' + str(ex)[:200]
        mo = drv.run([req])[0] if req else 'no-request'
        ctx.compared += 1
        ctx.count('op:obj')
        ctx.case(('obj', req), nontrivial=True)
        if mo != io:
            ms, is_ = mo.split(' '), io.split(' ')
            i = next((i for i in range(min(len(ms), len(is_))) if ms[i] != is_[i]), min(len(ms), len(is_)))
            ctx.disagree('obj', {'spec': spec, 'ctor': h.get('ctor', 'path'), 'ops': h['ops'], 'first_differing_step': i},
                         ' '.join(ms[max(0, i - 1):i + 1]), ' '.join(is_[max(0, i - 1):i + 1]))
    ctx.sample({'op': 'obj', 'request': req[:300] if req else None, 'model': mo[:300]})


# ---------------------------------------------------------------------------------------------
# round 4: every constructor / input shape (ctors), aliasing (alias), optional dictionary keys (dictmin)
#
# Branches of the anchored functions and the stratum that reaches each (counted as `branch:...` in evidence):
#   from_file_string        no branch; text with LF / CRLF line ends, exotic characters inside header text   -> ctors, roundtrip
#   _import_data            header not yet loaded (data first) | header loaded before the body (7 lines skipped)
#                           | header only | UnicodeDecodeError fallback (errors='ignore')                    -> ctors (lazy, latin1), objhist
#   _import_header          design: no record | count != 1 | 2009 layout | other layout; each marker found or not
#                           (2017 layout, des_short); weeks: count '' / absent, y/m/d vs m/d dates, hot | cold |
#                           typical | dropped, week over the year end; ground: count '' / 0..3 depths; leap Yes |
#                           No | other; comments with / without commas                                        -> hdr, hdr_roundtrip
#   _import_body            < 35 | 35 | > 35 cells; leap flag absent -> 8784 rows or not (also against the year
#                           stamped in column 0); blank line; int cell through float(); cell that does not
#                           parse (str/float | int); rotation of point-in-time columns                        -> brw, roundtrip
#   header                  three dictionaries present | one missing; 2009 | 2021 keys; each week bucket empty
#                           or not; 0..3 depths                                                               -> hdr, objhist setters
#   to_file_string          data not loaded | loaded; IP | SI; IndexError -> ValueError; finally              -> hist, objhist
#   to_wea                  hoys None | [] | list | tuple | one-shot iterable; path with / without '.wea'; IP   -> objhist wea
#   to_mos / write          path with / without extension                                                     -> objhist
#   from_dict               each optional key present | absent; is_leap_year / is_ip / is_2009_ashrae absent   -> dictmin
#   from_missing_values     hour 0 -> 24 of the day before | sub_hour raises on 1 Jan (-> 31 Dec)             -> missing (both years)
#   _des_dict_check         not a dict | empty | optional keys missing | required key missing                 -> objhist set_design
#   _weeks_check            not a dict | empty | reversed period (7..21 days) | plain (7 days) | not a period -> objhist set_weeks
#   _get_data_by_field      number outside the file                                                           -> objhist field
# Unreachable through the public API: `elif len(st) == 2` falling through with a 1-part date (NameError /
# stale a_per) needs a malformed file; `len(comments) > 0` is always true (split never returns []).


def _meta_t(md):
    return tuple(sorted((str(k), repr(v)) for k, v in md.items()))


def _full_view(e):
    """Everything C01 speaks about, as plain values (loads the data)."""
    s = _snap(e)
    return {'location': s['location'], 'header': s['header'], 'is_ip': s['is_ip'], 'leap': s['leap'],
            'units': s['units'], 'values': s['values'], 'header_data': _header_data(e),
            'field_metadata': tuple(_meta_t(e.import_data_by_field(k).header.metadata)
                                    for k in range(e._num_of_fields)),
            'ground_metadata': {dp: _meta_t(c.header.metadata) for dp, c in e.monthly_ground_temperature.items()},
            'metadata': _meta_t(e.metadata)}


def _view_diff(a, b, skip=()):
    for key in a:
        if key in skip or (a[key] == b[key] and (all(_same_seq(x, y) for x, y in zip(a[key], b[key])) if key == 'values'
                                                 else (key != 'header_data' or _xnorm(a[key]) == _xnorm(b[key])))):
            continue
        if key == 'values':
            k = next((i for i, (x, y) in enumerate(zip(a[key], b[key])) if not _same_seq(x, y)), len(a[key]))
            return 'values[%d]' % k
        if key == 'header':
            # (a latitude / longitude of zero is printed '0' by Location(...) and '0.0' when read from text)
            i = next((i for i, (x, y) in enumerate(zip(a[key], b[key]))
                      if x != y and not (i == 0 and _loc_line_same(x.strip(), y.strip()))), -1)
            if i < 0 and len(a[key]) == len(b[key]):
                continue
            return 'header line %d: %s vs %s' % (i, _short(a[key][i]), _short(b[key][i]))
        if isinstance(a[key], dict):
            k = next((k for k in a[key] if k not in b[key] or a[key][k] != b[key][k] or
                      (key == 'header_data' and _xnorm(a[key][k]) != _xnorm(b[key][k]))), None)
            return '%s[%r]: %s vs %s' % (key, k, _short(a[key].get(k)), _short(b[key].get(k)))
        return '%s: %s vs %s' % (key, _short(a[key]), _short(b[key]))
    return None


def _loc_placeholder(view, ref):
    """Location(...) / Location.from_dict turn an empty state / station into placeholders ('-', None): not a
    number of the EPW.  When that is the only difference the reference's spelling is taken."""
    a, b = view['location'], ref['location']
    if a != b and (tuple(x or '-' for x in a) == tuple(x or '-' for x in b) or
                   [x for x in a if x not in ('-', 'None', None)] == [x for x in b if x]):
        return dict(view, location=b, header=(ref['header'][0],) + tuple(view['header'][1:]))
    return view


def _write_bytes(name, data):
    p = os.path.join(_tmpdir(), name)
    with open(p, 'wb') as f:
        f.write(data)
    return p


def _check_ctors(inp):
    """One EPW text through every way of reading it: from_file_string (LF and CRLF line ends), EPW(path) with the
    header read first or the data read first (UTF-8 file; latin-1 bytes -> decoding fallback), from_dict of the
    dictionary.  All objects are the same EPW, and its text fields are the file's (whatever characters they hold)."""
    from ladybug.epw import EPW
    text = synth_text(inp['spec'])
    lazy = inp.get('lazy', 'data_first')
    sig = {'what': 'constructors', 'lazy': lazy}
    hl = [l.strip() for l in text.split('\n')[:8]]
    lt = hl[0].split(',')
    try:
        ref = EPW.from_file_string(text)
        vref = _full_view(ref)
    except Exception as ex:
        return {'required': 'from_file_string reads a well-formed EPW text (header line 0: %s)' % _short(hl[0]),
                'observed': '%s: %s' % (type(ex).__name__, _short(str(ex))), 'sig': dict(sig, route='string', part='raises')}
    want_txt = {'comments_1': hl[5].split(',', 1)[1] if ',' in hl[5] else '',
                'comments_2': hl[6].split(',', 1)[1] if ',' in hl[6] else '',
                'dst': hl[4].split(',')[2:4], 'city': lt[1].replace('\\', ' ').replace('/', ' '),
                'location_text': lt[2:6]}
    got_txt = {'comments_1': ref.comments_1, 'comments_2': ref.comments_2,
               'dst': [ref.daylight_savings_start, ref.daylight_savings_end], 'city': ref.location.city,
               'location_text': [ref.location.state, ref.location.country, ref.location.source, ref.location.station_id]}
    for key in want_txt:
        if got_txt[key] != want_txt[key]:
            return {'required': 'from_file_string: header field %s = %r' % (key, want_txt[key]),
                    'observed': repr(got_txt[key]), 'sig': dict(sig, route='string', part=key)}
    dv = _header_vs_file(vref['header_data'], hl)
    if dv:
        return {'required': 'from_file_string: header data %s as the file spells it: %s' % (dv[0], _short(dv[1])),
                'observed': _short(vref['header_data'][dv[0]]), 'sig': dict(sig, route='string', part=dv[0])}

    def by_path(data, name, lazy=lazy):
        e = EPW(_write_bytes(name, data))
        if lazy == 'header_first':
            e.location
            e.header
        elif lazy == 'field_first':
            e.import_data_by_field(6)
        return e
    routes = [('path', lambda: by_path(text.encode('utf-8'), 'ct.epw'), vref)]
    if inp.get('crlf'):
        crlf = text.replace('\n', '\r\n')
        routes.append(('string_crlf', lambda: EPW.from_file_string(crlf), vref))
        routes.append(('path_crlf', lambda: by_path(crlf.encode('utf-8'), 'ct_crlf.epw'), vref))
    if inp.get('latin1'):
        # bytes that are not UTF-8: the reader falls back to dropping them
        hi = [c for c in set(text) if ord(c) > 127]
        if hi and all(ord(c) < 256 for c in hi):
            dropped = ''.join(c for c in text if ord(c) < 128)
            vdrop = _full_view(EPW.from_file_string(dropped))
            for lz in ('header_first', 'data_first'):      # both arms of the fallback branch
                routes.append(('path_latin1:' + lz, lambda lz=lz: by_path(text.encode('latin-1'), 'ct_l1.epw', lz), vdrop))
    routes.append(('dict', lambda: EPW.from_dict(copy.deepcopy(ref.to_dict())), vref))
    if inp.get('routes'):
        routes = [r for r in routes if r[0].split(':')[0] in inp['routes']]
    for route, make, want in routes:
        try:
            v = _full_view(make())
        except Exception as ex:
            return {'required': 'the text is read through %s as it is through from_file_string' % route,
                    'observed': '%s: %s' % (type(ex).__name__, _short(str(ex))), 'sig': dict(sig, route=route, part='raises')}
        if route == 'dict':
            v = _loc_placeholder(v, want)
        dd = _view_diff(want, v)
        if dd and route.startswith('path_latin1') and not _view_diff(vref, v):
            dd = None           # (a reader that decodes the bytes as latin-1 instead of dropping them is just as good)
        if dd:
            return {'required': 'the object read through %s equals the one read by from_file_string' % route,
                    'observed': dd, 'sig': dict(sig, route=route, part=dd.split('[')[0].split(':')[0].split(' ')[0])}
    return None


_TOKEN = [0]


def _token():
    _TOKEN[0] += 1
    return 'edit-%d-%d' % (os.getpid(), _TOKEN[0])


def _check_alias(inp):
    """Nothing an EPW hands out is shared with another slot, another object of the class or a later answer:
    every container a getter or an export returns is edited in place; everything else of the object, a second
    object read from another text, and objects made afterwards stay as they were."""
    from ladybug.epw import EPW
    from ladybug.analysisperiod import AnalysisPeriod
    ta, tb = synth_text(inp['a']), synth_text(inp['b'])
    ctor = inp.get('ctor', 'string')
    sig = {'what': 'alias', 'ctor': ctor}

    def make(text, name):
        if ctor == 'path':
            return EPW(_write_bytes(name, text.encode('utf-8')))
        if ctor == 'dict':
            return EPW.from_dict(copy.deepcopy(EPW.from_file_string(text).to_dict()))
        return EPW.from_file_string(text)
    m0 = _full_view(EPW.from_missing_values(inp['a'].get('leap') == 'Yes'))
    a, b = make(ta, 'al_a.epw'), make(tb, 'al_b.epw')
    va0, vb0 = _full_view(a), _full_view(b)

    def bad(step, req, obs, **kw):
        return {'required': req + ' (after the edit %r)' % step, 'observed': obs, 'sig': dict(sig, edit=step, **kw)}

    def others(step, expect_changed):
        """a differs from va0 only in `expect_changed` (keys of the view); b is untouched."""
        va = _full_view(a)
        dd = _view_diff(va0, va, skip=expect_changed)
        if dd:
            return bad(step, 'only %s of the edited object changes' % '/'.join(expect_changed), dd, victim='same_object')
        dd = _view_diff(vb0, _full_view(b))
        if dd:
            return bad(step, 'a second EPW object is not affected', dd, victim='second_object')
        return None
    # -- answers asked twice, the first one kept and edited
    h1 = a.header
    keep = list(h1)
    h1[0] = 'x'
    h1.append('y')
    if list(a.header) != keep:
        return bad('header list', 'EPW.header answers the same again', _short(a.header), victim='later_answer')
    d1 = a.to_dict()
    k1 = copy.deepcopy(d1)
    d2 = a.to_dict()
    if d1 != k1 or d2 != k1:
        return bad('to_dict twice', 'a second to_dict leaves the first result as it was and equals it', 'differs',
                   victim='later_answer')
    d1['data_collections'][0]['values'][0] = -12345          # (to_dict exports copies: /repo 0c2fb64, da53f13)
    d1['data_collections'][6]['header']['metadata'][_token()] = 1
    d1['data_collections'].pop()
    d1['location']['city'] = _token()
    d1['extreme_hot_weeks'][_token()] = 1
    d1['monthly_ground_temps'][-1.0] = 1
    for key in ('metadata', 'heating_dict', 'cooling_dict', 'extremes_dict'):
        d1[key][_token()] = 'edited'
    if a.to_dict() != k1:
        d3 = a.to_dict()
        key = next((k for k in k1 if d3.get(k) != k1[k]), '?')
        return bad('to_dict result', 'editing the lists / dictionaries handed out by to_dict does not reach the object',
                   'third to_dict differs in %r' % key, victim='later_answer', part=key)
    hoys = [3, 1, 3]
    a.to_wea(os.path.join(_tmpdir(), 'al.wea'), hoys)
    if hoys != [3, 1, 3]:
        return bad('to_wea hoys', 'to_wea leaves its argument as it was', repr(hoys), victim='argument')
    r = others('exports', ())
    if r:
        return r
    # -- ground temperatures: the metadata of one depth
    depths = sorted(a.monthly_ground_temperature)
    changed = ['header', 'header_data', 'ground_metadata']
    if len(depths) >= 1:
        tok = _token()
        a.monthly_ground_temperature[depths[0]].header.metadata['soil conductivity'] = tok
        va = _full_view(a)
        for dp in depths[1:]:
            if va['ground_metadata'][dp] != va0['ground_metadata'][dp]:
                return bad('ground metadata', 'the metadata of depth %s stays' % dp, _short(va['ground_metadata'][dp]),
                           victim='other_depth')
        want = ta.split('\n')[3].strip().split(',')
        j = [float(want[2 + 16 * i]) for i in range(len(depths))].index(depths[0])
        # the header line lists the depths in ascending order, each with its own properties and '%.2f' values
        exp = ['GROUND TEMPERATURES', str(len(depths))]
        for dp in depths:
            i = [float(want[2 + 16 * q]) for q in range(len(depths))].index(dp)
            t = want[2 + 16 * i: 18 + 16 * i]
            exp += [str(dp), tok if dp == depths[0] else t[1], t[2], t[3]] + ['%.2f' % float(x) for x in t[4:16]]
        got = va['header'][3].strip().split(',')
        if got != exp:
            k = next((q for q in range(min(len(got), len(exp))) if got[q] != exp[q]), -1)
            return bad('ground metadata', 'GROUND TEMPERATURES line with the edited property at depth %s only' % depths[0],
                       'token %d is %r, expected %r' % (k, got[k] if 0 <= k < len(got) else None,
                                                        exp[k] if 0 <= k < len(exp) else None), victim='header_line')
        r = others('ground metadata', changed)
        if r:
            return r
    # -- one field: metadata, one value
    k = inp.get('field', 6)
    tok = _token()
    a.import_data_by_field(k).header.metadata[tok] = tok
    va = _full_view(a)
    for q in range(len(va['field_metadata'])):
        if q != k and va['field_metadata'][q] != va0['field_metadata'][q]:
            return bad('field metadata', 'the metadata of field %d stays' % q, _short(va['field_metadata'][q]), victim='other_field')
    if va['metadata'] != va0['metadata']:
        return bad('field metadata', 'EPW.metadata stays', _short(va['metadata']), victim='epw_metadata')
    changed.append('field_metadata')
    r = others('field metadata', changed)
    if r:
        return r
    c = a.import_data_by_field(k)
    c[5] = c[5] + 1 if VT[k] != 'str' else 'edited'
    va = _full_view(a)
    for q in range(len(va['values'])):
        if q != k and va['values'][q] != va0['values'][q]:
            return bad('field value', 'the values of field %d stay' % q, 'changed', victim='other_field')
    changed.append('values')
    r = others('field value', changed)
    if r:
        return r
    # -- the dictionaries of the header slots
    hd = lambda: _header_data(a)
    for nm, getter, val in (('heating_dict', lambda: a.heating_design_condition_dictionary, 'v'),
                            ('cooling_dict', lambda: a.cooling_design_condition_dictionary, 'v'),
                            ('extremes_dict', lambda: a.extreme_design_condition_dictionary, 'v'),
                            ('hot_weeks', lambda: a.extreme_hot_weeks, AnalysisPeriod(7, 1, 0, 7, 7, 23)),
                            ('cold_weeks', lambda: a.extreme_cold_weeks, AnalysisPeriod(1, 1, 0, 1, 7, 23)),
                            ('typical_weeks', lambda: a.typical_weeks, AnalysisPeriod(4, 1, 0, 4, 7, 23)),
                            ('ground_temps', lambda: a.monthly_ground_temperature, None)):
        before = hd()
        tok = _token()
        if val is None:
            src = a.monthly_ground_temperature
            if not src:
                continue
            src[-7.5] = src[depths[0]].duplicate()
        else:
            getter()[tok] = val
        after = hd()
        for key in before:
            if key != nm and before[key] != after[key]:
                return bad(nm, 'header slot %s stays' % key, _short(after[key]), victim='other_slot')
        vb = _full_view(b)
        if vb['header_data'] != vb0['header_data']:
            return bad(nm, 'a second EPW object is not affected', _view_diff(vb0, vb), victim='second_object')
    a.location.city = _token()
    a.location.elevation = 4321.5
    if _full_view(b) != vb0:
        return bad('location', 'a second EPW object is not affected', _view_diff(vb0, _full_view(b)), victim='second_object')
    # -- objects made afterwards
    dd = _view_diff(va0, _full_view(make(ta, 'al_c.epw')))
    if dd:
        return bad('all', 'an object read afterwards from the same text is what it was before', dd, victim='later_object')
    dd = _view_diff(va0, _loc_placeholder(_full_view(EPW.from_file_string(ta)), va0))
    if dd:
        return bad('all', 'from_file_string afterwards gives what it gave before', dd, victim='later_object')
    dd = _view_diff(m0, _full_view(EPW.from_missing_values(inp['a'].get('leap') == 'Yes')))
    if dd:
        return bad('all', 'from_missing_values afterwards gives what it gave before', dd, victim='later_object')
    return None


OPTIONAL_DICT_KEYS = ['metadata', 'heating_dict', 'cooling_dict', 'extremes_dict', 'extreme_hot_weeks',
                      'extreme_cold_weeks', 'typical_weeks', 'monthly_ground_temps', 'is_ip', 'daylight_savings_start',
                      'daylight_savings_end', 'comments_1', 'comments_2']
_DICT_SETTER = {'heating_dict': 'heating_design_condition_dictionary', 'cooling_dict': 'cooling_design_condition_dictionary',
                'extremes_dict': 'extreme_design_condition_dictionary', 'extreme_hot_weeks': 'extreme_hot_weeks',
                'extreme_cold_weeks': 'extreme_cold_weeks', 'typical_weeks': 'typical_weeks',
                'monthly_ground_temps': 'monthly_ground_temperature'}
_DICT_DEFAULT = {'daylight_savings_start': '0', 'daylight_savings_end': '0', 'comments_1': '', 'comments_2': ''}


def _check_dictmin(inp):
    """from_dict with optional keys left out: the slots of the absent keys are empty / default, everything else is
    what the dictionary holds (compared with an object built from the full dictionary on which the same slots
    were emptied through the public setters); the argument is left as it was; containers in other shapes
    (tuple of collections) are read alike."""
    from ladybug.epw import EPW
    base = _baseline(inp['spec'])
    src = EPW.from_file_string(base['text'])
    full = copy.deepcopy(src.to_dict())
    drop = list(inp['drop'])
    sig = {'what': 'dict_optional_keys', 'dropped': '+'.join(sorted(drop)) if len(drop) < 3 else '%d keys' % len(drop)}
    d = {k: v for k, v in copy.deepcopy(full).items() if k not in drop}
    if inp.get('shape') == 'tuple':
        d['data_collections'] = tuple(d['data_collections'])
    keep = copy.deepcopy(d)
    try:
        e = EPW.from_dict(d)
    except Exception as ex:
        return {'required': 'from_dict accepts a dictionary without the optional keys %r' % (drop,),
                'observed': '%s: %s' % (type(ex).__name__, _short(str(ex))), 'sig': dict(sig, part='raises')}
    if d != keep:
        return {'required': 'from_dict leaves its argument unchanged', 'observed': 'keys now %r' % sorted(d),
                'sig': dict(sig, part='argument')}
    twin = EPW.from_dict(copy.deepcopy(full))
    for k in drop:
        if k in _DICT_SETTER:
            setattr(twin, _DICT_SETTER[k], {})
        elif k in _DICT_DEFAULT:
            setattr(twin, k, _DICT_DEFAULT[k])
    skip = ('metadata',) if 'metadata' in drop else ()
    dd = _view_diff(_full_view(twin), _full_view(e), skip=skip)
    if dd:
        return {'required': 'absent optional keys %r give empty / default slots and nothing else changes' % (drop,),
                'observed': dd, 'sig': dict(sig, part=dd.split('[')[0].split(':')[0].split(' ')[0])}
    if 'metadata' in drop and e.metadata != {}:
        return {'required': 'absent metadata key gives {}', 'observed': _short(e.metadata), 'sig': dict(sig, part='metadata')}
    return None


LEAP_WEEK_NAME = 'Winter - Week Nearest Min Temperature For Period'


def _check_leapweek(inp):
    """A typical / extreme week of a LEAP-year file, judged in the file's own calendar (2016): the week read has
    the dates the file spells, and it is a week the EPW's own setter accepts (to_dict -> from_dict goes through
    that setter).  (Convention between two modules: the header is read before the leap flag and the weeks are
    built as common-year AnalysisPeriods.)"""
    from ladybug.epw import EPW
    from ladybug.analysisperiod import AnalysisPeriod
    (sm, sd), (em, ed) = inp['start'], inp['end']
    o = rand_header_opts(random.Random(5), leap_tok='Yes')
    o['weeks'] = [[LEAP_WEEK_NAME, 'Extreme', '%d/%d' % (sm, sd), '%d/%d' % (em, ed)]]
    lines = gen_header(random.Random(5), o)
    a, b = datetime(2016, sm, sd), datetime(2016, em, ed)
    spans = (a <= datetime(2016, 2, 29) <= b) if a <= b else False
    sig = {'what': 'leap_week', 'spans_feb29': spans}
    e, p = _header_only_epw(lines)
    try:
        try:
            wk = dict(e.extreme_cold_weeks)
        except Exception as ex:
            return {'required': 'a leap-year file with the week %d/%d - %d/%d is read' % (sm, sd, em, ed),
                    'observed': '%s: %s' % (type(ex).__name__, ex), 'sig': dict(sig, symptom='raises')}
        if e.is_leap_year is not True:
            return {'required': 'is_leap_year True', 'observed': repr(e.is_leap_year), 'sig': dict(sig, symptom='flag')}
        ap = wk.get(LEAP_WEEK_NAME)
        got = None if ap is None else (ap.st_month, ap.st_day, ap.end_month, ap.end_day)
        if got != (sm, sd, em, ed):
            return {'required': 'week %r as the file spells it' % ((sm, sd, em, ed),), 'observed': repr(got),
                    'sig': dict(sig, symptom='dates')}
        try:
            e.extreme_cold_weeks = {k: AnalysisPeriod.from_dict(v.to_dict()) for k, v in wk.items()}
        except AssertionError as ex:
            return {'required': 'the week read from the file is one the weeks setter accepts (EPW.from_dict(to_dict()) '
                                'assigns it through that setter)', 'observed': 'AssertionError: %s' % ex,
                    'sig': dict(sig, symptom='setter_refuses_own_week')}
        if e.header[2].strip().split(',')[2:] != lines[2].split(',')[2:]:
            return {'required': 'weeks line ' + lines[2], 'observed': e.header[2].strip(), 'sig': dict(sig, symptom='line')}
    finally:
        os.remove(p)
    return None


# ---------------------------------------------------------------------------------------------
# round 6: the operation that triggers the lazy load (op firstop)
#
# Class: an output is composed of parts that are rendered at DIFFERENT load states of one object - a refactor
# (method split in two, helper extracted, statements re-ordered) moves the lazy load, or another step that settles
# state, behind the rendering of a part that depends on it.  Visible only when (1) the operation is the FIRST one
# that needs the hourly data - any earlier observation, also a snapshot taken by the check itself, loads it - and
# (2) the file leaves something to the body: the leap flag of a file whose line 5 has none (8784 rows decide).
# Closed by: every export / data read as the first data-loading operation of a lazy EPW(path) in every pre-load state
# (nothing read | location read | header text read | is_leap_year read | a header slot read), NO observation before
# it.  Required (statement: read-write-read identical, writing a fixed point, exports carry the same numbers and never
# change the object): what is written says `Yes` exactly when 8784 rows are written and has the rows of the file; it
# equals what the same operation gives on an object whose data was loaded first; the same operation a second time on
# the same object gives the same again; afterwards the object is the one the loaded route gives.
# Consumers of "load, then render": to_file_string / write / save, to_wea, to_mos, to_dict, convert_to_ip,
# import_data_by_field, every data property.  Branches: to_file_string:data_not_loaded, to_dict:data_not_loaded,
# _get_data_by_field:data_not_loaded, _import_data:header_loaded_before_body | header_not_loaded, _import_body:leap
# flag absent (counted as branch:first_load:*).

FIRST_STATES = ['fresh', 'location', 'header', 'leap', 'slot']
FIRST_OPS = ['write', 'write_path', 'save', 'mos', 'wea', 'wea_hoys', 'dict', 'ip_write', 'ip', 'si', 'field:6', 'field:14',
             'prop:dry_bulb_temperature', 'prop:global_horizontal_radiation', 'prop:years']
_FIRST_REF = {}


def _first_out(e, first, tag, n):
    """Output of one operation as plain values."""
    d = _tmpdir()
    if first == 'write':
        return e.to_file_string()
    if first in ('write_path', 'save'):
        fp = os.path.join(d, 'fo_%s.epw' % tag)
        ret = e.write(fp) if first == 'write_path' else e.save(fp)
        with open(fp) as f:
            t = f.read()
        os.remove(fp)
        return t if ret == t else ('returned text differs from the file', ret[:200])
    if first in ('wea', 'wea_hoys', 'mos'):
        fp = os.path.join(d, 'fo_%s.%s' % (tag, first[:3]))
        if first == 'mos':
            e.to_mos(fp)
        else:
            e.to_wea(fp, None if first == 'wea' else [0, 1416, n - 1])
        with open(fp) as f:
            t = f.read()
        os.remove(fp)
        return t
    if first == 'dict':
        return e.to_dict()
    if first in ('ip', 'si'):   # (the unit conversion itself as the first operation; no write)
        if first == 'si':
            e.convert_to_si()
        elif not e.is_ip:
            e.convert_to_ip()
        return (tuple(e.header), 9 + len(e._data[6]), tuple(c.header.unit for c in e._data), e.is_leap_year)
    if first == 'ip_write':
        if not e.is_ip:
            e.convert_to_ip()
        ls = e.to_file_string().split('\n')
        return (tuple(ls[:8]), len(ls), tuple(c.header.unit for c in e._data))
    if first.startswith('field:'):
        c = e.import_data_by_field(int(first[6:]))
    else:
        c = getattr(e, first[5:])
    return (tuple(c.values), c.header.unit, c.header.analysis_period.is_leap_year, tuple(e.header))


def _first_leap_clause(first, out, rows):
    """What the statement fixes without any second object: the leap line above the rows agrees with their number,
    and the rows written are as many as the file holds.  -> None | (required, observed)"""
    want = 'Yes' if rows == 8784 else 'No'
    if first in ('write', 'write_path', 'save') and isinstance(out, str):
        ls = out.split('\n')
        got = len([l for l in ls[8:] if l.strip()])
        if got != rows:
            return 'the %d rows of the file are written' % rows, '%d rows' % got
        if ls[4].split(',')[1:2] != [want]:
            return 'leap-year field %r above %d rows' % (want, rows), ls[4].strip()
    elif first in ('ip_write', 'ip', 'si'):
        if out[1] - 9 != rows:
            return 'the %d rows of the file are written' % rows, '%d rows' % (out[1] - 9)
        if out[0][4].split(',')[1:2] != [want]:
            return 'leap-year field %r above %d rows' % (want, rows), out[0][4].strip()
    elif first == 'mos':
        ls = out.split('\n')
        hd = [l for l in ls if l.startswith('#HOLIDAYS/DAYLIGHT SAVINGS')]
        tab = [l for l in ls if l and not l.startswith('#') and not l.startswith('double')]
        if len(tab) != rows:
            return 'the %d rows of the file are written' % rows, '%d rows' % len(tab)
        if len(hd) != 1 or hd[0].split(',')[1:2] != [want]:
            return 'leap-year field %r above %d rows' % (want, rows), (hd or ['no such line'])[0].strip()
    elif first == 'wea':
        got = len([l for l in out.split('\n')[6:] if l.strip()])
        if got != rows:
            return 'the %d hours of the file are written' % rows, '%d lines' % got
    elif first == 'dict':
        if out.get('is_leap_year') != (rows == 8784):
            return 'is_leap_year %s in the dictionary of a %d-row file' % (rows == 8784, rows), repr(out.get('is_leap_year'))
    elif first.startswith(('field:', 'prop:')):
        if len(out[0]) != rows or out[2] != (rows == 8784):
            return ('%d values in a %s period' % (rows, 'leap-year' if rows == 8784 else 'common-year'),
                    '%d values, is_leap_year %s' % (len(out[0]), out[2]))
        if out[3][4].split(',')[1:2] != [want]:
            return 'leap-year field %r in the header of the loaded object' % want, out[3][4].strip()
    return None


def _first_differ(a, b):
    if isinstance(a, str) and isinstance(b, str):
        la, lb = a.split('\n'), b.split('\n')
        i = next((i for i, (x, y) in enumerate(zip(la, lb)) if x != y), min(len(la), len(lb)))
        return 'line %d: %s vs %s (%d / %d lines)' % (i, _short(la[i] if i < len(la) else None),
                                                      _short(lb[i] if i < len(lb) else None), len(la), len(lb))
    if isinstance(a, dict) and isinstance(b, dict):
        k = next((k for k in a if k not in b or a[k] != b[k]), None)
        return 'key %r: %s vs %s' % (k, _short(a.get(k)), _short(b.get(k)))
    if isinstance(a, tuple) and isinstance(b, tuple) and len(a) == len(b):
        i = next(i for i, (x, y) in enumerate(zip(a, b)) if x != y)
        return 'part %d: %s vs %s' % (i, _short(a[i]), _short(b[i]))
    return '%s vs %s' % (_short(a), _short(b))


def _check_firstop(inp):
    """`first` is the first operation that needs the hourly data of a lazy EPW(path) brought to `state` without any
    data read (and without any observation by the check)."""
    from ladybug.epw import EPW
    text = text_of(inp)
    state, first = inp.get('state', 'fresh'), inp['first']
    tl = text.split('\n')
    rows = len([l for l in tl[8:] if l.strip()])
    flag = tl[4].strip().split(',')[1:2]
    sig = {'what': 'first_load', 'state': state, 'first': first.split(':')[0],
           'leap_flag_in_file': flag in (['Yes'], ['No']), 'rows': rows}
    key = json.dumps(inp.get('file') or inp['spec'], sort_keys=True)
    if key not in _FIRST_REF:
        _FIRST_REF.clear()
        _FIRST_REF[key] = {'path': _write_bytes('first_%d.epw' % os.getpid(), text.encode('utf-8')), 'out': {}}
    cache = _FIRST_REF[key]

    def ref_out():
        # the same operation on an object whose data is loaded before anything else (one object per operation that
        # changes the unit system, one shared by the exports: they leave the object as it is - ops exports / history)
        if first not in cache['out']:
            if first in ('ip_write', 'ip') or 'ref' not in cache:
                r = EPW.from_file_string(text)
                r.import_data_by_field(0)
                if first not in ('ip_write', 'ip'):
                    cache['ref'] = r
                    cache['view'] = _full_view(r)
            else:
                r = cache['ref']
            cache['out'][first] = _first_out(r, first, 'ref', rows)
        return cache['out'][first]

    def bad(req, obs, **kw):
        return {'required': '%s (%s as the first data-loading operation of EPW(path) after: %s)' % (req, first, state),
                'observed': obs, 'sig': dict(sig, **kw)}
    e = EPW(cache['path'])
    try:
        if state == 'location':
            e.location
        elif state == 'header':
            e.header
        elif state == 'leap':
            e.is_leap_year
        elif state == 'slot':
            e.monthly_ground_temperature
            e.comments_1
        if e.is_data_loaded:
            return None                 # (the header read loads the data in this tree: nothing lazy left to check)
        out = _first_out(e, first, 'obj', rows)
    except Exception as ex:
        return bad('the operation answers', '%s: %s' % (type(ex).__name__, _short(str(ex))), part='raises')
    cl = _first_leap_clause(first, out, rows)
    if cl:
        return bad(cl[0], cl[1], part='leap_line_vs_rows' if 'leap' in cl[0] else 'row_count')
    want = ref_out()
    if out != want:
        return bad('the same answer as with the data loaded first', _first_differ(out, want), part='differs_from_loaded')
    # (the text equals the one written with the data loaded first, whose read-back is op roundtrip's subject)
    if inp.get('light'):
        return None                     # (quick tier: the second answer and the object afterwards on one case per run)
    try:
        again = _first_out(e, first, 'obj2', rows)
    except Exception as ex:
        return bad('the operation answers a second time', '%s: %s' % (type(ex).__name__, _short(str(ex))), part='raises_second')
    if again != out:
        return bad('the same answer from the same object a second time', _first_differ(again, out), part='second_differs')
    if first not in ('ip_write', 'ip'):
        dd = _view_diff(cache['view'], _full_view(e))
        if dd:
            return bad('afterwards the object is the one read with the data loaded first', dd, part='object')
    return None


def _firstop_cases(ctx, rng, big):
    los = {'file': 'los_angeles_no_leap_field.epw'}
    flagless_leap = {'spec': _r4_spec(rng, '', 'canon', nrows=8784, year=rng.choice(['2016', '2023', '1900']))}
    # fixed corpus (every run): the shipped file without the flag; write and MOS (recorded finding) as first operations
    if big:
        yield 'firstop', dict(los, state='fresh', first='write')
    yield 'firstop', dict(los, state='location', first='mos')
    pairs = [(s, f) for s in FIRST_STATES for f in FIRST_OPS if (s, f) not in (('fresh', 'write'), ('location', 'mos'))]
    rng.shuffle(pairs)
    if not big:
        # every consumer of "load, then render" in every run (to_file_string / to_wea / to_dict / convert_to_ip /
        # _get_data_by_field; to_mos above), its siblings and the pre-load states in turn over the seeds; the second
        # answer and the object afterwards are asked of the write
        sd = ctx.seed
        yield 'firstop', dict(los, state=['fresh', 'location', 'header', 'leap', 'slot'][sd % 5] if sd % 2 else 'fresh',
                              first=['write', 'write_path', 'save'][sd % 3], **({} if sd % 2 == 0 else {'light': True}))
        for j, f in enumerate(('wea', 'dict',
                               ['field:6', 'ip', 'wea_hoys', 'si', 'prop:dry_bulb_temperature', 'ip', 'field:14', 'wea_hoys',
                                'si', 'prop:years', 'ip', 'prop:global_horizontal_radiation'][sd % 12])):
            yield 'firstop', dict(los, state=FIRST_STATES[(sd + j) % 5], first=f, light=True)
        return          # (synthetic files without the flag: thorough tier and every search)
    n = 14 if ctx.quick else 40
    for s, f in [(rng.choice(FIRST_STATES), f) for f in FIRST_OPS] + pairs[:n]:      # (every consumer, then a sample)
        yield 'firstop', dict(los, state=s, first=f)
    for s, f in pairs[n:n + n // 2] + [('fresh', 'write'), ('header', 'save'), ('leap', 'mos')]:
        yield 'firstop', dict(flagless_leap, state=s, first=f)
    others = [_r4_spec(rng, '', 'canon', nrows=8760, year='2016'), _r4_spec(rng, 'Yes', 'ids'), _r4_spec(rng, 'No', 'noncanon')]
    for j, sp in enumerate(others):
        for s, f in pairs[-(3 if ctx.quick else 6) * (j + 1):][:3 if ctx.quick else 6] + [('fresh', 'write')]:
            yield 'firstop', {'spec': sp, 'state': s, 'first': f}


_R3_OPS = {'objhist': _check_objhist, 'locdict': _check_locdict, 'order': _check_order, 'ctors': _check_ctors,
           'alias': _check_alias, 'dictmin': _check_dictmin, 'leapweek': _check_leapweek, 'firstop': _check_firstop}


def _r3_oracle_cases(ctx):
    rng = ctx.rng
    big = ctx.searching or not ctx.quick
    for a in R3_LOCS:
        yield 'locdict', {'loc': a}
    for _ in range(8 if not big else 300):
        yield 'locdict', {'loc': _rand_loc(rng)}
    n_hist = 1 if not big else (20 if ctx.quick else 60)      # (a search after a broken tie in the quick tier: 20)
    for i in range(len(R3_FIXED_HIST)):
        yield 'objhist', _fixed_hist(i)
    # refused assignment to a location attribute (repaired in /repo 17b090d: validate, then store)
    yield 'objhist', {'spec': _r3_spec(0), 'ctor': 'path', 'final': False,
                      'ops': [['hdr'], ['loc_attr', 'latitude', 95.0], ['hdr']]}
    if big:
        for nm, v in (('longitude', -200.0), ('time_zone', 15), ('latitude', -90.5)):
            yield 'objhist', {'spec': _r3_spec(0), 'ctor': 'string', 'final': False,
                              'ops': [['write'], ['loc_attr', nm, v], ['write']]}
    for c in _r4_oracle_cases(ctx, rng, big):
        yield c
    for c in _firstop_cases(ctx, random.Random(rng.randrange(10 ** 9)), big):
        yield c
    for j in range(n_hist):
        yield 'objhist', _gen_objhist(rng, (j + ctx.seed) % 4, rng.randrange(3, 6 if not big else 12))
    for inp in _PENDING_INPUTS:
        yield 'order', inp


_PENDING_INPUTS = []


def _r4_spec(rng, lp, mode, exotic=0, hdr=None, **kw):
    s = {'leap': lp, 'mode': mode, 'seed': rng.randrange(10 ** 6)}
    s['header'] = rand_header_opts(random.Random(s['seed']), leap_tok=lp, exotic=exotic)
    if lp == '':
        s['nrows'] = rng.choice([8760, 8784])
    if mode != 'ids':
        s['year'] = rng.choice(['2017', '2016', '1988', '1900', '0', '2023'])
        s['eqv'] = rng.randrange(1000)
    s['header'].update(hdr or {})
    s.update(kw)
    return s


def _every_exotic_spec():
    """Fixed corpus: every exotic character inside the text fields of one header."""
    s = {'leap': 'No', 'mode': 'ids', 'seed': 11}
    o = rand_header_opts(random.Random(11), leap_tok='No')
    o.update(c1='x' + 'x'.join(EXOTIC_ALL) + 'x', c2='caf\xe9\u2028, second\x0cpart,,\x85', city='S\xe3o\u2029Paulo\x1cAP',
             state='B\x85W', source='TMY\x0bx', country='D\u2028E', station='10\x1d7290')
    o['weeks'] = [['Summer\u2028Max', 'Extreme', '7/13', '7/19'], ['Winter\x0cMin', 'Extreme', '12/28', '1/3'],
                  ['Spring\x85Week', 'Typical', '2015/04/01', '2015/04/07']]
    o['ground'] = [['2', '1\u2028.2', '', '0.85', ['%d.00' % i for i in range(12)]],
                   ['.5', '', '16\x0c00', '', ['%d.50' % i for i in range(12)]]]
    s['header'] = o
    return s


def _r4_oracle_cases(ctx, rng, big):
    """Round 4: constructors / input shapes, aliasing, optional dictionary keys."""
    # (quick tier: a subset of the routes per case; together they still cover every route)
    yield 'ctors', dict({'spec': _every_exotic_spec(), 'lazy': 'header_first', 'crlf': True},
                        **({} if big else {'routes': ['path', 'string_crlf', 'dict']}))
    s = _r4_spec(rng, 'No', 'ids')
    s['header'].update(c1='Caf\xe9 data', city='Z\xfcrich', state='\xd6')
    yield 'ctors', dict({'spec': s, 'latin1': True, 'lazy': rng.choice(['header_first', 'data_first'])},
                        **({} if big else {'routes': ['path_latin1']}))
    # files without the leap flag (rare branch of _import_body: the NUMBER OF ROWS decides): the year stamped on the
    # rows disagrees with the length (typical years are stitched from months of many years) or agrees with it
    flagless = [(8784, '2023'), (8760, '2016'), (8760, '0'), (8784, '1900'), (8760, '2000'), (8784, '2024'), (8760, '2017')]
    for j, (nr, yr) in enumerate(flagless):
        # (quick: the lazy routes of files without the flag are op firstop's; ONE case whose stamped year disagrees
        #  with the number of rows stays in every quick run - both disagreeing shapes alternate over the seeds - so
        #  that the branch 'the row count decides, not the stamped year' is reached without a search)
        if big or j == ctx.seed % 2:
            yield 'ctors', dict({'spec': _r4_spec(rng, '', 'canon', nrows=nr, year=yr), 'lazy': ['data_first', 'header_first'][j % 2]},
                                **({} if big and not ctx.quick else {'routes': ['path']}))
    for j in range(1 if not big else (6 if ctx.quick else 18)):
        lp = ['Yes', '', 'No'][(j + ctx.seed) % 3]
        yield 'ctors', dict({'spec': _r4_spec(rng, lp, rng.choice(['ids', 'canon', 'noncanon']), exotic=rng.choice([0, 1, 2, 2])),
                             'lazy': ['header_first', 'data_first', 'field_first'][(j + ctx.seed // 3) % 3],
                             'crlf': rng.random() < 0.4}, **({} if big else {'routes': ['path', 'path_crlf']}))
    for j in range(1 if not big else (3 if ctx.quick else 9)):
        two = {'ground': [['.5', '1.2', '', '0', ['%d.25' % i for i in range(12)]],
                          ['4', '', '1600', '0.85', ['%d.75' % i for i in range(12)]]]}
        a = _r4_spec(rng, rng.choice(['No', 'Yes']), 'ids')
        if j % 2 == 0:
            a['header'].update(two)
        yield 'alias', {'a': a, 'b': _r4_spec(rng, 'No', 'canon', hdr={'design': '2009'}),
                        'ctor': ['string', 'path', 'dict'][(j + ctx.seed) % 3], 'field': rng.choice([6, 0, 5, 14, 33, 20])}
    drops = [list(OPTIONAL_DICT_KEYS), rng.sample(OPTIONAL_DICT_KEYS, 1)][:2 if big or ctx.seed % 3 == 0 else 1]   # (quick: budget)
    if big:
        drops += [[k] for k in OPTIONAL_DICT_KEYS] + [rng.sample(OPTIONAL_DICT_KEYS, rng.randrange(2, 6)) for _ in range(3)]
    for j, drop in enumerate(drops):
        yield 'dictmin', {'spec': _r3_spec(1 + (j + ctx.seed) % 2), 'drop': drop, 'shape': ['tuple', 'list'][j % 2]}
    for _ in range(300 if not big else 3000):
        yield 'hdr_roundtrip', {'seed': rng.randrange(10 ** 9), 'exotic': rng.choice([1, 2])}
    # weeks of leap-year files in the leap calendar: clear of 29 Feb, and the recorded finding (spanning 29 Feb)
    for st, en in (((7, 13), (7, 19)), ((12, 29), (1, 4)), ((1, 1), (1, 7)), ((3, 1), (3, 7)), ((2, 22), (2, 28)),
                   ((2, 26), (3, 3)), ((2, 23), (2, 29)), ((2, 29), (3, 6))):
        yield 'leapweek', {'start': list(st), 'end': list(en)}
    for _ in range(5 if not big else 60):
        a = datetime(2016, 1, 1) + timedelta(days=rng.randrange(366))
        b = a + timedelta(days=6)
        if not a <= datetime(2016, 2, 29) <= b:
            yield 'leapweek', {'start': [a.month, a.day], 'end': [b.month, b.day]}


def _start_orders(ctx):
    """Launch the process-order interpreters (at most 4) so that they run beside the in-process cases."""
    del _PENDING_INPUTS[:]
    big = ctx.searching or not ctx.quick
    for order in _orders(random.Random(ctx.rng.randrange(10 ** 9)), big):
        inp = {'order': order}
        _PENDING_INPUTS.append(inp)
        _PENDING[json.dumps(inp, sort_keys=True)] = _order_start(inp)
        ctx.count('order_first:' + order[0][0])


replay = check_case

KNOWN_INPUTS = [
    ('flags', {'field': 9}),
    ('roundtrip', {'file': 'tokyo.epw'}),
    ('roundtrip', {'file': 'mannheim.epw'}),
]


def _oracle_cases(ctx):
    rng = ctx.rng
    big = ctx.searching or not ctx.quick
    for k in range(35):
        yield 'flags', {'field': k}
    for leap in (False, True):
        yield 'missing', {'leap': leap}
    files = list(SHIPPED) if big else ['chicago.epw', 'tokyo.epw', 'mannheim.epw']
    for f in files:
        yield 'roundtrip', {'file': f}
    for a, b in (('3/8', '11/1'), ('3/10', '11/3'), ('3/29', '10/25'), ('10/4', '4/5'), ('0', '0'), ('10/30', '3/20'),
                 (' 3/ 8', '11/ 1'), ('03/10', '11/03'), ('Last Sunday in March', 'Last Sunday in October')):
        yield 'hdr_roundtrip', {'seed': 7, 'override': {'dst_start': a, 'dst_end': b}}
    for _ in range(400 if not big else 4000):
        yield 'hdr_roundtrip', {'seed': rng.randrange(10 ** 9)}
    yield 'exports', {'file': 'chicago.epw'}
    yield 'exports', {'file': 'chicago.epw', 'ip': True}
    specs = _synth_specs(ctx, rng)
    for s in specs:
        rows = s.get('nrows', 8784 if s['leap'] == 'Yes' else 8760)
        lines = rows + (1 if s.get('blank', -1) >= 0 else 0)
        want = 8784 if (s['leap'] == 'Yes' or (s['leap'] == '' and lines == 8784)) else 8760
        if rows != want or s.get('ncols', 35) < 35:
            continue                # not a well-formed EPW text (rejected on import: correspondence covers it)
        yield 'roundtrip', {'spec': s}
    yield 'exports', {'spec': specs[1]}
    canon = [s for s in specs if s['mode'] == 'canon' and s['leap'] in ('Yes', 'No') and 'nrows' not in s
             and s.get('blank', -1) < 0]
    if canon:       # (thorough tier / search) the exports of a canonical file whose columns hold 0.0 next to -0.0
        yield 'exports', {'spec': canon[0]}
    if big:
        for f in SHIPPED[1:]:
            yield 'exports', {'file': f}
        for _ in range(6):
            s = {'leap': rng.choice(['No', 'Yes']), 'mode': rng.choice(['ids', 'canon', 'noncanon']),
                 'seed': rng.randrange(10 ** 6)}
            s['header'] = rand_header_opts(random.Random(s['seed']), leap_tok=s['leap'])
            if s['mode'] != 'ids':
                s['eqv'] = rng.randrange(1000)
            yield 'roundtrip', {'spec': s}
    yield 'history', {'spec': {'leap': 'No', 'mode': 'ids', 'seed': 1},
                      'ops': ['H', 'W', 'E', 'M', 'D', 'I', 'W', 'F6', 'B', 'E', 'S', 'W']}
    if big or ctx.seed % 4 == 1:       # (quick: the first write of this file is op firstop's in every run)
        yield 'history', {'spec': 'los_angeles_no_leap_field.epw', 'ops': ['H', 'W', 'I', 'B', 'F14', 'W']}
    for _ in range((1 if ctx.seed % 4 != 1 else 0) if not big else 25):
        lp = rng.choice(['No', 'Yes', ''])          # ('': the body settles the leap flag, 8784 or 8760 rows)
        yield 'history', {'spec': dict({'leap': lp, 'mode': rng.choice(['ids', 'canon']), 'seed': rng.randrange(1000),
                                        'eqv': rng.randrange(1000)}, **({'nrows': rng.choice([8784, 8784, 8760])} if lp == '' else {})),
                          'ops': _rand_hist(rng, 5 if not big else 7)}


def _count_hist(ctx, cases):
    for op, inp in cases:
        if op == 'objhist':
            ctx.count('objhist_ctor:' + inp.get('ctor', 'path'))
            ctx.count('objhist_leap:' + str(inp['spec'].get('leap')))
            for o in inp['ops']:
                nm = o[0] + (':' + str(o[2]) if o[0] in ('set_design', 'set_weeks') else ':' + str(o[1]) if o[0] in (
                    'set_ground', 'loc_attr') else '')
                ctx.count('objhist_op:' + nm)
        elif op == 'locdict':
            a = inp['loc']
            for k in ('lat', 'lon', 'tz', 'elev'):
                if not a[k]:
                    ctx.count('locdict_zero:' + k)
        elif op == 'ctors':
            ctx.count('branch:import:' + inp.get('lazy', 'data_first'))
            ctx.count('branch:import:line_ends_' + ('crlf+lf' if inp.get('crlf') else 'lf'))
            if inp.get('latin1'):
                ctx.count('branch:import:decode_fallback')
            if any(ord(c) > 127 or c in '\x0b\x0c\x1c\x1d\x1e' for c in json.dumps(inp['spec']['header'], ensure_ascii=False)):
                ctx.count('branch:import:exotic_header_text')
            for b in _body_branches(inp['spec'], inp['spec'].get('nrows', 8784 if inp['spec']['leap'] == 'Yes' else 8760)):
                ctx.count('branch:' + b)
        elif op == 'dictmin':
            for k in inp['drop']:
                ctx.count('branch:from_dict:absent:' + k)
            ctx.count('branch:from_dict:collections_as_' + inp.get('shape', 'list'))
        elif op == 'alias':
            ctx.count('alias_ctor:' + inp.get('ctor', 'string'))
        elif op == 'firstop':
            ctx.count('firstop_state:' + inp.get('state', 'fresh'))
            ctx.count('firstop_first:' + inp['first'])
            ctx.count('branch:first_load:' + ('leap_flag_absent' if 'file' in inp or inp['spec']['leap'] == '' else 'leap_flag_given'))
            ctx.count('branch:first_load:header_' + ('not_loaded' if inp.get('state', 'fresh') == 'fresh' else 'loaded_before_body'))
        elif op == 'roundtrip' and 'spec' in inp:
            sp = inp['spec']
            nl = sp.get('nrows', 8784 if sp['leap'] == 'Yes' else 8760) + (1 if sp.get('blank', -1) >= 0 else 0)
            for b in _body_branches(sp, nl):
                ctx.count('branch:' + b)
        elif op == 'hdr_roundtrip' and inp.get('exotic'):
            ctx.count('hdr_roundtrip_exotic')
        if op == 'objhist':
            for o in inp['ops']:
                if o[0] == 'wea':
                    ctx.count('branch:wea:hoys_' + ('none' if len(o) < 2 or o[1] is None else 'empty' if not o[1] else
                                                    (o[2] if len(o) > 2 else 'list')))
                elif o[0] == 'set_weeks' and o[2] == 'ok':
                    ctx.count('branch:weeks_check:' + ('reversed' if (o[3], o[4]) >= (12, 26) else 'plain'))
                elif o[0] == 'loc_attr' and isinstance(o[2], str):
                    ctx.count('branch:location_setter:text_' + ('accepted' if _setter_valid(o) else 'refused'))
                elif o[0] in ('set_design', 'set_ground') and 'rev' in o[1:3]:
                    ctx.count('branch:setter_dict_in_reverse_order')
        yield op, inp


def oracle(ctx):
    _start_orders(ctx)
    run_oracle_cases(ctx, _count_hist(ctx, _r3_oracle_cases(ctx)), check_case)
    run_oracle_cases(ctx, _count_hist(ctx, _oracle_cases(ctx)), check_case)
    for p in list(_PENDING.values()):
        p.kill()
    _PENDING.clear()


LEVEL_TEXT = ('Machine-checked Lean 4 theorems over an executable model of epw.py: the two rotations are mutually '
              'inverse on every list; what _import_body stores is the parsed table transposed with the point-in-time '
              'columns rotated, hence write(read) reproduces the rows cell for cell in canonical form for 8760/8784 (any '
              'N) rows and write-read-write is a fixed point; every cell of a point-in-time field sits at index '
              '(r+1) mod N whose date-time is the stamped hour (24 -> 0:00 next day, last row -> 1 Jan 0:00) and '
              'radiation/illuminance cells stay at index r; to_file_string/to_wea leave the state unchanged also on the '
              'error path; parseHeader(renderHeader h) = h for all eight header lines (location, design conditions in '
              'both key layouts or absent, any number of weeks and ground depths, leap/DST fields, comments) under '
              'exactly stated side conditions, with counterexamples where the format loses information; the stamps of '
              'from_missing_values are the EPW stamps for every row of both years; Wea/MOS lines carry the values of '
              'the same index; from_dict(to_dict) returns the same data. Object histories: on the state machine of all public '
              'operations (reads, exports, unit conversions, header-slot setters, value assignment, refused calls) every '
              'history ends in the loaded state of the object on which only the accepted state changes were performed '
              '(C01_history_refines_fresh), a call that answers with an error leaves every observation unchanged '
              '(C01_refused_preserves), reads are pure and commute (C01_read_pure, C01_reads_commute). Input shapes: a text is cut '
              'into lines at line feeds only, whatever other characters the header holds (C01_lines_split_only_at_newline, '
              'C01_file_sections); to_wea answers each requested hour on its own, so order, repetition and container of the '
              'hours do not matter (C01_wea_hoys_pointwise, C01_wea_all_hours); every depth of the ground-temperature line '
              'keeps its own soil properties in any spelling of the file (C01_ground_each_depth_own_properties). '
              'Equal values of different text: every written token is str of the value of that very cell (C01_write_cellwise, '
              'C01_write_cell_own_text); a memoised column is the plain column whenever the memo key is at least as fine as the '
              'text (C01_memo_write_sound) and Python equality is not such a key - 0.0 == -0.0, 1 == 1.0 - so a write memoised '
              'by value loses the sign of zero (C01_equal_values_different_text_counterexample, C01_memo_by_equality_counterexample, '
              'C01_signed_zero_roundtrip). Load states: an operation that needs the hourly data gives the same answer and next state '
              'whatever was loaded before (C01_first_load_same_step, C01_first_load_same_answer); the leap field and header slots '
              'of a written text are those of the loaded object, for a not-yet-loaded object the flag the rows settle '
              '(C01_first_write_header_from_loaded); a write that renders the header before the data load differs exactly on '
              'files whose header field is not the flag of the rows (C01_header_before_load_counterexample). '
              'The field table is regenerated from epw.py on '
              'every run and the model is compared with the real class on shipped and synthetic full-size files, '
              'header blocks and operation histories.')
LEVEL_NOTE = ('Trusted: Lean kernel; axioms propext/Classical.choice/Quot.sound only; the field-table extractor; the '
              'correspondence run (agreement on generated inputs only); CPython number parsing/printing (hypotheses '
              'Codec.Lawful for body cells, per-token codec facts in Hdr.Canonical for the header; evaluated in the '
              'kernel for a concrete header in the driver\'s decimal codec); comma split/join (header theorems at token '
              'level); IP/SI conversion is C06\'s; nested to_dict forms of Location/AnalysisPeriod/MonthlyCollection are '
              'C07\'s. Recorded findings: ground temperatures are rewritten with 2 decimals, incomplete design '
              'conditions are dropped (both with counterexample theorems), atmospheric pressure is not treated as '
              'point-in-time; in leap-year files a typical / extreme week containing 29 Feb is read in the common-year calendar '
              '(6 days, moved end day, or unreadable header).')
TECHNIQUE = ('Lean 4 proof (list induction, getElem extensionality, omega; C08 calendar theorems) about a '
             'value-parametric model tied to epw.py by a regenerated field table and differential correspondence')
