"""C20 — Sky-dome subdivisions tile the hemisphere; sky projections are consistent.

Model: lean/Ladybug/Model/Dome.lean, Model/Proj.lean; theorems: lean/Ladybug/Props/C20.lean;
driver: drv_c20.  Tie: translator (Gen/DomeTables from viewsphere.py) + correspondence on the ops below.

The model describes viewsphere.py *after* the two proposed repairs fixes/C20_patch_area_angle.patch and
fixes/C20_solid_angle_slot.patch; on a tree without them the check reports the violation.
"""
import math
import struct
from datetime import datetime
from fractions import Fraction

from harness import core
from harness.core import compare_batch, err_name, run_oracle_cases

PROP = 'C20'
PROOF_MODULES = ['Ladybug.Props.C20']
GREP_MODULES = ['Ladybug.Py', 'Ladybug.DrvCore', 'Ladybug.Model.Dome', 'Ladybug.Model.Proj',
                'Ladybug.Gen.DomeTables', 'Ladybug.Proofs.C20Lemmas', 'Ladybug.Proofs.C20Field', 'Ladybug.Drv.C20']
RULE = ('correspondence: division counts 1..6 (thorough 1..8) x subdivide_in_place, malformed counts 0/-1, '
        'azimuth/altitude counts from {1,2,3,18,72,144} and random 1..144, offset angles 0..90 incl. the '
        'half-row rounding boundaries, nan/inf/negative offsets, every read order of the two solid-angle '
        'tables up to length 4, all ordered pairs + random sequences + full permutations of the eleven lazy '
        'tregenza_*/reinhart_* properties on fresh objects and on a fresh module singleton, projections of points on spheres of random radius/origin incl. horizon and '
        'zenith; integer structure compared exactly, projections bit-exact, weights within 1e-12 relative. '
        'oracle: the statement evaluated on the real meshes/vectors/weights (true solid angle of every generated '
        'face from its own vertices). A case is non-trivial when the implementation returns a value; distinct = '
        'distinct (op, input)')
TRUSTED_BASE = [
    'translator tools/extract/dome_tables.py: copies TREGENZA/REINHART_PATCHES_PER_ROW and the two coefficient '
    'tables (decimal spelling) from viewsphere.py',
    'modelled, not verified: ladybug_geometry (Vector3D.rotate/rotate_xy, Mesh3D face normals, remove_faces, '
    'join_meshes) - vertex coordinates and face normals are not modelled; that every vector is unit, points up '
    'and lies inside its own patch is a sampled sub-claim evaluated on the real meshes',
    'sin() of the accumulated row angle is an abstract sequence in the theorems (any values); the link between '
    'the tabulated decimal coefficients and sin-values is numerical (sampled), only their sum is proved',
    'projection theorems are over the reals; float evaluation is compared bit-exactly with the model, the '
    'float/real gap is not proved',
]
ASSUMPTIONS = ['fixes/C20_patch_area_angle.patch and fixes/C20_solid_angle_slot.patch are applied to the tree '
               'under check (without them the check reports the violation they repair)',
               'the inverse projection formulas are the textbook ones (ladybug has no inverse projection)']

TWO_PI = 2 * math.pi


def extract(ctx):
    from tools.extract import dome_tables
    ctx.tables = dome_tables.extract()


def _fbits(x):
    return '%016x' % struct.unpack('<Q', struct.pack('<d', float(x)))[0]


def _unbits(s):
    return struct.unpack('<d', struct.pack('<Q', int(s, 16)))[0]


def _b(x):
    return '1' if x else '0'


def _vs():
    from ladybug.viewsphere import ViewSphere
    return ViewSphere()


def _flag_args(n, ip):
    """Call signature: the flag is passed only when set, so that the default path is exercised."""
    return (n, True) if ip else (n,)


def _weights_take_flag():
    """Whether the weight functions of the tree under check can be asked for subdivide_in_place weights
    (fixes/C20_patch_area_angle.patch adds the parameter; without it there are no in-place weights to check)."""
    import inspect
    from ladybug.viewsphere import ViewSphere
    try:
        return all('subdivide_in_place' in inspect.signature(getattr(ViewSphere, f)).parameters
                   for f in ('dome_patch_weights', 'sphere_patch_weights', 'horizontal_radial_patch_weights'))
    except (TypeError, ValueError, AttributeError):
        return False


LAZY_PROPS = ['tregenza_dome_vectors', 'tregenza_sphere_vectors', 'tregenza_dome_mesh',
              'tregenza_dome_mesh_high_res', 'tregenza_sphere_mesh', 'tregenza_solid_angles',
              'reinhart_dome_vectors', 'reinhart_sphere_vectors', 'reinhart_dome_mesh',
              'reinhart_sphere_mesh', 'reinhart_solid_angles']
_REFS = {}


def _vec_key(vecs):
    return tuple((v.x, v.y, v.z) for v in vecs)


def _mesh_key(m):
    return (tuple((q.x, q.y, q.z) for q in m.vertices), tuple(tuple(f) for f in m.faces))


def _refs():
    """Reference contents built with the plain functions dome_patches / sphere_patches on a throw-away
    object (they do not touch any cache slot): {(kind, n, in_place): key}."""
    if not _REFS:
        from ladybug.viewsphere import ViewSphere
        vs = ViewSphere()
        for n, ip in ((1, False), (2, False), (3, True), (3, False), (2, True)):
            m, v = vs.dome_patches(n, ip)
            _REFS[('dome_mesh', n, ip)] = _mesh_key(m)
            _REFS[('dome_vectors', n, ip)] = _vec_key(v)
        for n in (1, 2):
            m, v = vs.sphere_patches(n)
            _REFS[('sphere_mesh', n, False)] = _mesh_key(m)
            _REFS[('sphere_vectors', n, False)] = _vec_key(v)
        for n, rows, coef in ((1, ViewSphere.TREGENZA_PATCHES_PER_ROW, ViewSphere.TREGENZA_COEFFICIENTS),
                              (2, ViewSphere.REINHART_PATCHES_PER_ROW, ViewSphere.REINHART_COEFFICIENTS)):
            t = []
            for a, c in zip(coef, tuple(rows) + (1,)):
                t += [a] * c
            _REFS[('solid_angles', n, False)] = tuple(t)
    return _REFS


def _fingerprint(obj):
    """`<kind>:<n>:<in_place>:<count>` of what a lazy property returned, by comparing it with the reference
    contents; `unknown_*:<count>` when it is none of them."""
    if obj is None:
        return 'none'
    if hasattr(obj, 'faces') and hasattr(obj, 'vertices'):
        key, kinds, count = _mesh_key(obj), ('dome_mesh', 'sphere_mesh'), len(obj.faces)
    elif isinstance(obj, (tuple, list)) and obj and hasattr(obj[0], 'z'):
        key, kinds, count = _vec_key(obj), ('dome_vectors', 'sphere_vectors'), len(obj)
    elif isinstance(obj, (tuple, list)):
        key, kinds, count = tuple(obj), ('solid_angles',), len(obj)
    else:
        return 'unknown_object:' + type(obj).__name__
    for (kind, n, ip), ref in _refs().items():
        if kind in kinds and ref == key:
            return '%s:%d:%s:%d' % (kind, n, _b(ip), count)
    return 'unknown_%s:%d' % (kinds[0], count)


def _lazy_object(singleton):
    """A fresh ViewSphere, or the module-level singleton `view_sphere` of a freshly executed private copy of
    the module (so that the singleton starts with empty slots without reloading ladybug.viewsphere)."""
    import ladybug.viewsphere as lv
    if not singleton:
        return lv.ViewSphere(), lv.ViewSphere
    import importlib.util
    spec = importlib.util.spec_from_file_location('_c20_viewsphere_copy', lv.__file__)
    mod = importlib.util.module_from_spec(spec)
    spec.loader.exec_module(mod)
    return mod.view_sphere, mod.ViewSphere


def _lazy_sequences(ctx, rng, pairs):
    """Read orders: all ordered pairs (incl. repeated reads), random longer sequences, permutations of all
    eleven properties on the singleton."""
    out = []
    if pairs:
        out += [{'order': [a, b], 'singleton': False} for a in LAZY_PROPS for b in LAZY_PROPS]
    for _ in range(ctx.n(10, 150)):
        k = rng.randrange(3, 9)
        out.append({'order': [rng.choice(LAZY_PROPS) for _ in range(k)], 'singleton': rng.random() < 0.3})
    for _ in range(ctx.n(4, 40)):
        perm = list(LAZY_PROPS)
        rng.shuffle(perm)
        out.append({'order': perm, 'singleton': True})
    return out


# ---------------------------------------------------------------------------------------------
# correspondence


def compare_floats(ctx, op, cases, model_line, impl_fn, tol, key=None):
    """Like core.compare_batch, for responses `ok <float bits>...`: compared numerically (relative tol)."""
    lines = [model_line(c) for c in cases]
    outs = ctx.driver().run(lines)
    for c, line, mo in zip(cases, lines, outs):
        try:
            io = impl_fn(c)
        except Exception as e:
            io = 'err:' + err_name(e)
        ctx.compared += 1
        ctx.count('op:' + op)
        ctx.case((op, key(c) if key else line), nontrivial=not io.startswith('err:'))
        if io.startswith('err:'):
            ctx.count('err_results')
        same = mo == io
        if not same and mo.startswith('ok') and io.startswith('ok'):
            a, b = mo.split()[1:], io.split()[1:]
            if len(a) == len(b):
                same = True
                for x, y in zip(a, b):
                    if x == y:
                        continue
                    fx, fy = _unbits(x), _unbits(y)
                    if not (abs(fx - fy) <= tol * max(abs(fx), abs(fy), 1e-300)):
                        same = False
                        break
        if not same:
            ctx.disagree(op, {'case': c, 'line': line}, mo[:300], io[:300])
    if cases:
        ctx.sample({'op': op, 'request': lines[0], 'model': outs[0][:120]})


def _show_shape(mesh, vecs):
    return 'ok %d %d %d %s' % (len(mesh.vertices), len(mesh.faces), len(vecs),
                               ' '.join(','.join(str(i) for i in f) for f in mesh.faces))


def _measure_layout(mesh):
    """Row structure of a dome mesh read off its vertices: (rows, den) with row i spanning the altitudes
    [i pi/den, (i+1) pi/den]; None when the quads do not form such rows."""
    vs = mesh.vertices
    rows, lows, highs = [], [], []
    for f in mesh.faces:
        if len(f) != 4:
            continue
        lo, hi = vs[f[0]].z, vs[f[1]].z
        if rows and abs(lo - lows[-1]) < 1e-9 and abs(hi - highs[-1]) < 1e-9:
            rows[-1] += 1
        else:
            rows.append(1)
            lows.append(lo)
            highs.append(hi)
    if not rows or not (0 < highs[0] < 1):
        return None
    den = int(round(math.pi / math.asin(highs[0])))
    for i, (lo, hi) in enumerate(zip(lows, highs)):
        if abs(lo - math.sin(i * math.pi / den)) > 1e-9 or abs(hi - math.sin((i + 1) * math.pi / den)) > 1e-9:
            return None
    return rows, den


def _show_table(t):
    fr = [Fraction(repr(float(x))) for x in t]
    runs = []
    for x in fr:
        if runs and runs[-1][0] == x:
            runs[-1][1] += 1
        else:
            runs.append([x, 1])

    def rat(q):
        return '%d' % q.numerator if q.denominator == 1 else '%d/%d' % (q.numerator, q.denominator)
    return '%d:%s' % (len(fr), ';'.join('%s*%d' % (rat(q), k) for q, k in runs))


def _sun(alt, az):
    from ladybug.sunpath import Sun
    return Sun(datetime(2017, 6, 21, 12), alt, az, False, False, 0)


def _division_cases(ctx):
    top = 6 if ctx.quick else 8
    ns = list(range(1, top + 1))
    return [(n, ip) for n in ns for ip in (False, True)]


def _offsets(ctx, rng, n, ip):
    """Offset angles: plain, and the rounding boundaries (k + 1/2) rows of the band."""
    rows = 7 * n if n != 1 else 7
    den = (2 * rows + n) if ip else (2 * rows + 1)
    out = [0, 0.0, 1, 5, 6, 12, 30, 45, 60, 89, 90, 90.0, 30.5]
    for _ in range(ctx.n(6, 30)):
        k = rng.randrange(0, rows + 2)
        edge = (k + 0.5) * 180.0 / den
        out += [edge, edge + rng.choice([1e-9, -1e-9, 1e-13, -1e-13]), rng.uniform(0, 90)]
    return out


def correspondence(ctx):
    from ladybug.viewsphere import ViewSphere
    from ladybug.compass import Compass
    from ladybug_geometry.geometry3d.pointvector import Point3D
    from ladybug_geometry.geometry2d.pointvector import Point2D
    rng = ctx.rng
    vs = ViewSphere()
    div = _division_cases(ctx)
    bad_div = [(0, False), (0, True), (-1, False), (-1, True)]

    # --- row layout
    cases = list(range(-2, 13))
    compare_batch(ctx, 'rows', cases, lambda c: 'rows %d' % c,
                  lambda c: 'ok ' + ' '.join(str(x) for x in ViewSphere._patch_row_count_array(c)))

    def impl_layout(c):
        m, _ = vs.dome_patches(c[0], c[1])
        r = _measure_layout(m)
        if r is None:
            return 'ok inconsistent'
        return 'ok %d %d %s' % (len(r[0]), r[1], ' '.join(str(x) for x in r[0]))
    compare_batch(ctx, 'layout', div, lambda c: 'layout %d %s' % (c[0], _b(c[1])), impl_layout)

    # --- mesh index structure, vector counts
    for c in div:
        ctx.count('division_count:%d' % c[0])
    compare_batch(ctx, 'dome', div + bad_div, lambda c: 'dome %d %s' % (c[0], _b(c[1])),
                  lambda c: _show_shape(*vs.dome_patches(c[0], c[1])))
    sph = [c for c in div if c[0] <= (4 if ctx.quick else 8)] + bad_div
    compare_batch(ctx, 'sphere', sph, lambda c: 'sphere %d %s' % (c[0], _b(c[1])),
                  lambda c: _show_shape(*vs.sphere_patches(c[0], c[1])))
    special = [1, 2, 3, 18, 72, 144]
    rad = [(a, b) for a in special for b in special if a * b <= (5000 if ctx.quick else 30000)]
    rad += [(rng.randrange(1, 145), rng.randrange(1, 145)) for _ in range(ctx.n(6, 60))]
    rad = [c for c in rad if c[0] * c[1] <= (5000 if ctx.quick else 30000)]
    rad += [(0, 3), (3, 0), (0, 0), (1, 1), (5, 1), (144, 1)]
    for c in rad:
        ctx.count('radial:alt=1' if c[1] == 1 else 'radial:zero' if 0 in c else 'radial:regular')
    compare_batch(ctx, 'radial', rad, lambda c: 'radial %d %d' % c,
                  lambda c: _show_shape(*vs.dome_radial_patches(c[0], c[1])))

    # --- weights (floats)
    flag = _weights_take_flag()
    ctx.count('weights_api:with_subdivide_in_place' if flag else 'weights_api:default_mode_only')
    wdiv = div + [(-1, False), (-1, True), (0, False), (0, True)]
    if not flag:
        wdiv = [c for c in wdiv if not c[1]]
    compare_floats(ctx, 'weights', wdiv, lambda c: 'weights %d %s' % (c[0], _b(c[1])),
                   lambda c: 'ok ' + ' '.join(_fbits(x) for x in vs.dome_patch_weights(*_flag_args(*c))),
                   1e-12)
    compare_floats(ctx, 'sphere_weights', wdiv, lambda c: 'sphere_weights %d %s' % (c[0], _b(c[1])),
                   lambda c: 'ok ' + ' '.join(_fbits(x) for x in vs.sphere_patch_weights(*_flag_args(*c))),
                   1e-12)
    rw = [c for c in rad if c[0] * c[1] <= 5000]
    compare_floats(ctx, 'radial_weights', rw, lambda c: 'radial_weights %d %d' % c,
                   lambda c: 'ok ' + ' '.join(_fbits(x) for x in vs.dome_radial_patch_weights(c[0], c[1])),
                   1e-12)

    # --- horizontal band: counts and weights
    oc = []
    for n, ip in [c for c in div if c[0] <= (3 if ctx.quick else 6)]:
        for off in _offsets(ctx, rng, n, ip):
            oc.append((off, n, ip))
    oc += [(-12.0, 1, False), (-30, 2, True), (120.0, 1, False), (float('nan'), 1, False),
           (float('inf'), 1, False), (30, 0, True), (30, 0, False)]
    for c in oc:
        ctx.count('offset:malformed' if not (isinstance(c[0], (int, float)) and 0 <= c[0] <= 90) else 'offset:0..90')

    def line3(op):
        return lambda c: '%s %s %d %s' % (op, _fbits(c[0]), c[1], _b(c[2]))

    def impl_offset_patches(c):
        m, v = vs.horizontal_radial_patches(c[0], c[1], c[2])
        return 'ok %d %d' % (len(v), len(m.faces))

    def impl_offset_weights(c):
        args = (c[0], c[1], True) if c[2] else (c[0], c[1])
        return 'ok ' + ' '.join(_fbits(x) for x in vs.horizontal_radial_patch_weights(*args))
    kf = lambda c: (repr(c[0]), c[1], c[2])
    compare_batch(ctx, 'offset_patches', oc, line3('offset_patches'), impl_offset_patches, key=kf)
    compare_floats(ctx, 'offset_weights', [c for c in oc if flag or not c[2]], line3('offset_weights'),
                   impl_offset_weights, 1e-12, key=kf)

    # --- tabulated solid angles: every read order on a fresh object
    seqs = [[]]
    for ln in range(1, 5):
        seqs += [[(k >> i) & 1 for i in range(ln)] for k in range(2 ** ln)]
    seqs = [s for s in seqs if s]

    def impl_reads(seq):
        o = ViewSphere()
        return 'ok ' + ' '.join(_show_table(o.reinhart_solid_angles if b else o.tregenza_solid_angles)
                                for b in seq)
    compare_batch(ctx, 'sa_reads', seqs, lambda s: 'sa_reads ' + ' '.join(str(b) for b in s), impl_reads,
                  key=lambda s: tuple(s))

    # --- all lazily built properties: read orders on fresh objects and on the (fresh) module singleton
    lz = [{'order': ['tregenza_dome_mesh_high_res', 'tregenza_dome_vectors'], 'singleton': True}]
    lz += _lazy_sequences(ctx, rng, pairs=True)
    for c in lz:
        ctx.count('lazy_reads:singleton' if c['singleton'] else 'lazy_reads:fresh_object')
        ctx.count('lazy_reads:length_%s' % (len(c['order']) if len(c['order']) < 3 else '3+'))

    def impl_lazy(c):
        o, _ = _lazy_object(c['singleton'])
        return 'ok ' + ' '.join(_fingerprint(getattr(o, name)) for name in c['order'])
    compare_batch(ctx, 'lazy_reads', lz, lambda c: 'lazy_reads ' + ' '.join(c['order']), impl_lazy,
                  key=lambda c: (c['singleton'], tuple(c['order'])))

    # --- projections (bit-exact)
    pts = list(_proj_points(rng, ctx.n(3000, 40000)))
    compare_floats(ctx, 'ortho', pts, lambda c: 'ortho ' + ' '.join(_fbits(x) for x in c['p']),
                   lambda c: _show_pt2(Compass.point3d_to_orthographic(Point3D(*c['p']))), 0.0,
                   key=lambda c: repr(c))
    zero_den = [{'p': [1.0, 2.0, -5.0], 'r': 5.0, 'o': [0.0, 0.0, 0.0]},
                {'p': [0.5, 0.25, 1.0], 'r': 1.0, 'o': [0.0, 0.0, 2.0]}]
    compare_floats(ctx, 'stereo', pts + zero_den,
                   lambda c: 'stereo ' + ' '.join(_fbits(x) for x in c['p'] + [c['r']] + c['o']),
                   lambda c: _show_pt2(Compass.point3d_to_stereographic(Point3D(*c['p']), c['r'], Point3D(*c['o']))),
                   0.0, key=lambda c: repr(c))
    suns = []
    for _ in range(ctx.n(1500, 20000)):
        alt = rng.choice([0, 90, 0.0, 45, rng.uniform(0, 90), rng.uniform(-90, 90)])
        az = rng.choice([0, 90, 180, 270, 360, rng.uniform(0, 360)])
        r = rng.choice([100, 1, 1.0, 0.5, rng.uniform(0.01, 1e4)])
        ox, oy = rng.choice([(0, 0), (0.0, 0.0), (rng.uniform(-1e3, 1e3), rng.uniform(-1e3, 1e3))])
        suns.append((alt, az, r, ox, oy))

    def sun_line(op):
        def f(c):
            v = _sun(c[0], c[1]).sun_vector_reversed
            return op + ' ' + ' '.join(_fbits(x) for x in (v.x, v.y, v.z, c[2], c[3], c[4]))
        return f
    compare_floats(ctx, 'pos2d_ortho', suns, sun_line('pos2d_ortho'),
                   lambda c: _show_pt2(_sun(c[0], c[1]).position_2d('Orthographic', Point2D(c[3], c[4]), c[2])),
                   0.0, key=lambda c: repr(c))
    compare_floats(ctx, 'pos2d_stereo', suns, sun_line('pos2d_stereo'),
                   lambda c: _show_pt2(_sun(c[0], c[1]).position_2d('stereographic', Point2D(c[3], c[4]), c[2])),
                   0.0, key=lambda c: repr(c))


def _show_pt2(p):
    return 'ok %s %s' % (_fbits(p.x), _fbits(p.y))


def _proj_points(rng, count):
    """Points on upper hemispheres of random radius/origin, built with stdlib trigonometry."""
    for i in range(count):
        r = rng.choice([1.0, 100.0, 0.001, 1e6, rng.uniform(0.01, 1e4)])
        if rng.random() < 0.4:
            o = [0.0, 0.0, 0.0]
        else:
            o = [rng.choice([0.0, rng.uniform(-100, 100) * r, rng.uniform(0.1, 3) * r * rng.choice([-1, 1])])
                 for _ in range(3)]
        t = rng.random()
        alt = 0.0 if t < 0.1 else math.pi / 2 if t < 0.2 else rng.uniform(0, math.pi / 2)
        az = rng.choice([0.0, math.pi / 2, math.pi, rng.uniform(0, TWO_PI)])
        p = [o[0] + r * math.cos(alt) * math.sin(az), o[1] + r * math.cos(alt) * math.cos(az),
             o[2] + r * abs(math.sin(alt))]
        yield {'p': p, 'r': r, 'o': o}


# ---------------------------------------------------------------------------------------------
# property oracle: the statement of C20 evaluated on the real code, independent of the model


def _az(x, y):
    """Azimuth clockwise from north (+y)."""
    return math.atan2(x, y) % TWO_PI


def _face_cell(verts, face):
    """(az_start, az_width, z_lo, z_hi) of a quad (a, b, c, d) = (lower-left, upper-left, upper-right,
    lower-right) or of a cap triangle (left, apex, right), measured on the vertices themselves."""
    if len(face) == 4:
        a, b, c, d = (verts[i] for i in face)
        a0, a1 = _az(a.x, a.y), _az(d.x, d.y)
        z_lo, z_hi = min(a.z, d.z), max(b.z, c.z)
    else:
        a, apex, d = (verts[i] for i in face)
        a0, a1 = _az(a.x, a.y), _az(d.x, d.y)
        z_lo, z_hi = min(a.z, d.z), apex.z
    width = (a1 - a0) % TWO_PI
    if width < 1e-12:
        width = TWO_PI            # one patch around the whole circle
    return a0, width, z_lo, z_hi


def _vector_problem(v, cell, strict_up=True):
    a0, width, z_lo, z_hi = cell
    mag = math.sqrt(v.x * v.x + v.y * v.y + v.z * v.z)
    if abs(mag - 1) > 1e-9:
        return 'not unit (%r)' % mag
    if (v.z <= 0) if strict_up else (v.z < -1e-12):
        return 'not in the upper hemisphere (z=%r)' % v.z
    if not (z_lo - 1e-9 <= v.z <= z_hi + 1e-9):
        return 'altitude outside its patch (z=%r not in [%r, %r])' % (v.z, z_lo, z_hi)
    if math.hypot(v.x, v.y) > 1e-9 and width < TWO_PI - 1e-9:
        d = (_az(v.x, v.y) - a0) % TWO_PI
        if d > width + 1e-9 and d < TWO_PI - 1e-9:
            return 'azimuth outside its patch'
    return None


def _dome_solid_angles(mesh, patch_count):
    """True solid angle of every generated patch (from the mesh vertices): quads one by one, the trailing
    triangles together form the zenith patch."""
    verts, faces = mesh.vertices, mesh.faces
    quads = faces[:patch_count - 1]
    tris = faces[patch_count - 1:]
    if any(len(f) != 4 for f in quads) or any(len(f) != 3 for f in tris) or not tris:
        return None
    omegas = []
    for f in quads:
        a0, width, z_lo, z_hi = _face_cell(verts, f)
        omegas.append(width * (z_hi - z_lo))
    ring = [verts[f[0]].z for f in tris]
    if max(ring) - min(ring) > 1e-9:
        return None
    omegas.append(TWO_PI * (1 - sum(ring) / len(ring)))
    return omegas


def _proportional(weights, omegas, tol=1e-9):
    ratios = [w / o for w, o in zip(weights, omegas)]
    lo, hi = min(ratios), max(ratios)
    return (hi - lo) <= tol * abs(hi), lo, hi


def _mean_one(ws, tol=1e-9):
    return abs(sum(ws) / len(ws) - 1) <= tol


def check_case(op, inp):
    from ladybug.viewsphere import ViewSphere
    from ladybug.compass import Compass
    from ladybug_geometry.geometry3d.pointvector import Point3D
    from ladybug_geometry.geometry2d.pointvector import Point2D
    vs = ViewSphere()

    def bad(what, required, observed, **extra):
        sig = {'what': what}
        sig.update(extra)
        return {'required': required, 'observed': observed, 'sig': sig}

    if op in ('dome', 'sphere'):
        n, ip = inp['n'], bool(inp['in_place'])
        base = {'n': n, 'in_place': ip}
        want = 144 * n * n + 1
        mesh, vecs = vs.dome_patches(n, ip)
        if len(vecs) != want:
            return bad('patch_count', want, len(vecs), **base)
        if len(mesh.faces) != 144 * n * n + 6 * n:
            return bad('face_count', 144 * n * n + 6 * n, len(mesh.faces), **base)
        omegas = _dome_solid_angles(mesh, want)
        if omegas is None:
            return bad('mesh_rows', 'quads then zenith triangles with a level top ring', 'other', **base)
        if abs(sum(omegas) - TWO_PI) > 1e-9:
            return bad('tiling', 'solid angles of the generated patches sum to 2 pi', sum(omegas), **base)
        # sampled sub-claim: unit, upward, inside its own patch
        for i, v in enumerate(vecs[:-1]):
            pr = _vector_problem(v, _face_cell(mesh.vertices, mesh.faces[i]))
            if pr:
                return bad('vector', 'unit vector inside patch %d' % i, pr, **base)
        z = vecs[-1]
        if (z.x, z.y, z.z) != (0, 0, 1):
            return bad('vector', 'zenith vector (0,0,1)', (z.x, z.y, z.z), **base)
        if ip and not _weights_take_flag():
            if op == 'dome':
                return None          # no in-place weights can be requested from this tree
        if op == 'dome':
            ws = vs.dome_patch_weights(*_flag_args(n, ip))
            if len(ws) != len(vecs):
                return bad('weights_aligned', len(vecs), len(ws), **base)
            if not _mean_one(ws):
                return bad('weights_mean', 1, sum(ws) / len(ws), **base)
            ok, lo, hi = _proportional(ws, omegas)
            if not ok:
                return bad('weights_vs_mesh', 'weight / true solid angle of the generated patch is constant',
                           'ratio ranges over [%r, %r] (x %.4f)' % (lo, hi, hi / lo), **base)
            return None
        smesh, svecs = vs.sphere_patches(n, ip)
        if len(svecs) != 2 * want or len(smesh.faces) != 2 * len(mesh.faces):
            return bad('sphere_count', (2 * want, 2 * len(mesh.faces)), (len(svecs), len(smesh.faces)), **base)
        for i in range(want):
            t, m, d = svecs[i], svecs[want + i], vecs[i]
            if (t.x, t.y, t.z) != (d.x, d.y, d.z) or (m.x, m.y, m.z) != (d.x, d.y, -d.z):
                return bad('sphere_mirror', 'sphere = dome ++ mirrored dome', 'vector %d differs' % i, **base)
        nv = len(mesh.vertices)
        for i in range(0, nv, max(1, nv // 50)):
            t, m = smesh.vertices[i], smesh.vertices[nv + i]
            if (m.x, m.y, m.z) != (t.x, t.y, -t.z):
                return bad('sphere_mirror', 'mirrored vertex', 'vertex %d differs' % i, **base)
        if ip and not _weights_take_flag():
            return None
        ws = vs.sphere_patch_weights(*_flag_args(n, ip))
        if len(ws) != len(svecs):
            return bad('weights_aligned', len(svecs), len(ws), **base)
        if not _mean_one(ws):
            return bad('weights_mean', 1, sum(ws) / len(ws), **base)
        ok, lo, hi = _proportional(ws, omegas + omegas)
        if not ok:
            return bad('weights_vs_mesh', 'weight / true solid angle of the generated patch is constant',
                       'ratio ranges over [%r, %r] (x %.4f)' % (lo, hi, hi / lo), **base)
        return None

    if op == 'radial':
        az, alt = inp['azimuth_count'], inp['altitude_count']
        base = {'altitude_count': alt if alt <= 1 else '>1'}
        try:
            mesh, vecs = vs.dome_radial_patches(az, alt)
        except Exception as e:
            return bad('raises', '%d x %d cells' % (az, alt), 'raises %s' % type(e).__name__,
                       error=type(e).__name__, **base)
        if len(vecs) != az * alt or len(mesh.faces) != az * alt:
            return bad('radial_count', az * alt, (len(vecs), len(mesh.faces)), **base)
        cells = [_face_cell(mesh.vertices, f) for f in mesh.faces]
        omegas = [c[1] * (c[3] - c[2]) for c in cells]
        if abs(sum(omegas) - TWO_PI) > 1e-9:
            return bad('tiling', 'cells sum to 2 pi', sum(omegas), **base)
        if az >= 3:     # with 1 or 2 azimuth cells the flat faces are degenerate: no normal to speak of
            # (the statement asks "inside its own patch" of the Tregenza-type domes only; the flat-face normal
            # of a wide radial cell lies below the cell, so only unit length and z > 0 are sampled here)
            for i, v in enumerate(vecs):
                pr = _vector_problem(v, (0.0, TWO_PI, -1.0, 1.0))
                if pr:
                    return bad('vector', 'unit upward vector for cell %d' % i, pr, **base)
        ws = vs.dome_radial_patch_weights(az, alt)
        if len(ws) != len(vecs):
            return bad('weights_aligned', len(vecs), len(ws), **base)
        ok, lo, hi = _proportional(ws, omegas)
        if not ok:
            return bad('weights_vs_mesh', 'weight / true solid angle of the generated cell is constant',
                       'ratio ranges over [%r, %r]' % (lo, hi), **base)
        # dome_radial_patch_weights normalises to *sum* one (asserted by the repository's own test)
        if abs(sum(ws) - 1) > 1e-9:
            return bad('weights_sum', 1, sum(ws), **base)
        return None

    if op == 'offset':
        off, n, ip = inp['offset_angle'], inp['n'], bool(inp['in_place'])
        base = {'n': n, 'in_place': ip}
        mesh, vecs = vs.horizontal_radial_patches(off, n, ip)
        if len(mesh.faces) != len(vecs):
            return bad('offset_faces', len(vecs), len(mesh.faces), **base)
        half = len(vecs) // 2
        for i in range(half):
            m = vecs[half + i]
            if (m.x, m.y, m.z) != (vecs[i].x, vecs[i].y, -vecs[i].z):
                return bad('sphere_mirror', 'lower band mirrors the upper band', 'vector %d' % i, **base)
        if ip and not _weights_take_flag():
            return None
        args = (off, n, True) if ip else (off, n)
        ws = vs.horizontal_radial_patch_weights(*args)
        if len(ws) != len(vecs):
            return bad('weights_aligned', len(vecs), len(ws), **base)
        if not _mean_one(ws):
            return bad('weights_mean', 1, sum(ws) / len(ws), **base)
        half = len(vecs) // 2
        omegas = []
        for i in range(half):
            cell = _face_cell(mesh.vertices, mesh.faces[i])
            omegas.append(cell[1] * (cell[3] - cell[2]))
            pr = _vector_problem(vecs[i], cell)
            if pr:
                return bad('vector', 'unit vector inside patch %d' % i, pr, **base)
            m = vecs[half + i]
            if (m.x, m.y, m.z) != (vecs[i].x, vecs[i].y, -vecs[i].z):
                return bad('sphere_mirror', 'lower band mirrors the upper band', 'vector %d' % i, **base)
        ok, lo, hi = _proportional(ws, omegas + omegas)
        if not ok:
            return bad('weights_vs_mesh', 'weight / true solid angle of the generated patch is constant',
                       'ratio ranges over [%r, %r] (x %.4f)' % (lo, hi, hi / lo), **base)
        return None

    if op == 'tables':
        order = inp['order']
        o = ViewSphere()
        got = {}
        for b in order:
            t = o.reinhart_solid_angles if b else o.tregenza_solid_angles
            if not isinstance(t, (tuple, list)):
                return bad('table_aligned', 'a table of solid angles', repr(t)[:60],
                           table='reinhart' if b else 'tregenza',
                           first_read='reinhart' if order[0] else 'tregenza')
            got[b] = tuple(t)
        for b in sorted(got):
            name = 'reinhart' if b else 'tregenza'
            n = 2 if b else 1
            base = {'table': name, 'first_read': 'reinhart' if order[0] else 'tregenza'}
            mesh, vecs = vs.dome_patches(n)
            if len(got[b]) != len(vecs):
                return bad('table_aligned', '%s table has %d entries' % (name, len(vecs)), len(got[b]), **base)
            omegas = _dome_solid_angles(mesh, len(vecs))
            ok, lo, hi = _proportional(got[b], omegas, 1e-6)
            if not ok or abs(lo - 1) > 1e-6:
                return bad('table_vs_mesh', 'tabulated solid angle = true solid angle of the generated patch '
                           '(1e-6)', 'ratio ranges over [%r, %r]' % (lo, hi), **base)
            if abs(sum(got[b]) - TWO_PI) > 1e-6:
                return bad('table_sum', TWO_PI, sum(got[b]), **base)
        return None

    if op == 'lazy':
        order, singleton = inp['order'], bool(inp.get('singleton'))
        o, cls = _lazy_object(singleton)
        plain = cls()        # the plain functions on another object: what the properties must agree with
        n_of = {'tregenza': 1, 'reinhart': 2}

        def required(name):
            fam, rest = name.split('_', 1)
            n = n_of[fam]
            pc = 144 * n * n + 1
            if rest == 'dome_vectors':
                return pc, _vec_key(plain.dome_patches(n)[1])
            if rest == 'sphere_vectors':
                return 2 * pc, _vec_key(plain.sphere_patches(n)[1])
            if rest == 'dome_mesh':
                return pc - 1 + 6 * n, _mesh_key(plain.dome_patches(n)[0])
            if rest == 'dome_mesh_high_res':      # 3 x 3 quads per patch, 18 triangles for the zenith patch
                return 144 * 9 + 18, _mesh_key(plain.dome_patches(3, True)[0])
            if rest == 'sphere_mesh':
                return 2 * (pc - 1 + 6 * n), _mesh_key(plain.sphere_patches(n)[0])
            return pc, None                        # solid angles: one per vector

        def observe(name, before):
            val = getattr(o, name)
            count, ref = required(name)
            base = {'property': name, 'singleton': singleton}
            if val is None:
                return bad('lazy_property', '%s with %d entries' % (name, count), 'None', **base)
            got = len(val.faces) if hasattr(val, 'faces') else len(val)
            if got != count:
                return bad('lazy_property', '%s has %d entries' % (name, count),
                           '%d entries after reading %s' % (got, before or 'nothing'), **base)
            if ref is not None:
                key = _mesh_key(val) if hasattr(val, 'faces') else _vec_key(val)
                if key != ref:
                    return bad('lazy_property', '%s equals the result of the plain function' % name,
                               'different content after reading %s' % (before or 'nothing'), **base)
            return None
        seen = []
        for name in order:
            res = observe(name, seen)
            if res:
                return res
            seen.append(name)
        # afterwards: vectors, mesh, tabulated solid angles and weights of each family align one-to-one
        for fam, n in sorted(n_of.items()):
            for name in (fam + '_dome_vectors', fam + '_dome_mesh', fam + '_solid_angles'):
                res = observe(name, seen)
                if res:
                    return res
            vecs, mesh = getattr(o, fam + '_dome_vectors'), getattr(o, fam + '_dome_mesh')
            sa, ws = getattr(o, fam + '_solid_angles'), o.dome_patch_weights(n)
            base = {'property': fam + '_dome_vectors', 'singleton': singleton}
            if not (len(vecs) == len(sa) == len(ws)):
                return bad('lazy_aligned', 'one vector per solid angle and weight',
                           (len(vecs), len(sa), len(ws)), **base)
            normals = mesh.face_normals
            for i in range(len(vecs) - 1):
                if (vecs[i].x, vecs[i].y, vecs[i].z) != (normals[i].x, normals[i].y, normals[i].z):
                    return bad('lazy_aligned', 'vector %d is the normal of patch %d of the mesh' % (i, i),
                               'differs after reading %s' % seen, **base)
        return None

    if op in ('proj', 'sun2d'):
        r = inp['r']
        if op == 'proj':
            p, o = inp['p'], inp['o']
            po = Compass.point3d_to_orthographic(Point3D(*p))
            ps = Compass.point3d_to_stereographic(Point3D(*p), r, Point3D(*o))
        else:
            s = _sun(inp['altitude'], inp['azimuth'])
            o = [inp['ox'], inp['oy'], 0.0]
            q = s.position_3d(Point3D(*o), r)
            p = [q.x, q.y, q.z]
            # position_3d itself: on the sphere around the origin, at the sun's azimuth/altitude
            ar, zr = math.radians(inp['altitude']), math.radians(inp['azimuth'])
            want = [o[0] + r * math.cos(ar) * math.sin(zr), o[1] + r * math.cos(ar) * math.cos(zr),
                    r * math.sin(ar)]
            if max(abs(a - b) for a, b in zip(p, want)) > 1e-9 * (r + abs(o[0]) + abs(o[1])):
                return bad('position_3d', want, p, projection='none')
            po = s.position_2d('Orthographic', Point2D(o[0], o[1]), r)
            ps = s.position_2d('Stereographic', Point2D(o[0], o[1]), r)
        c = [p[0] - o[0], p[1] - o[1], p[2] - o[2]]
        scale = r + abs(o[0]) + abs(o[1]) + abs(o[2])
        for name, q in (('orthographic', po), ('stereographic', ps)):
            ix, iy = q.x - o[0], q.y - o[1]
            rho = math.hypot(ix, iy)
            if rho > r + 1e-9 * scale:
                return bad('outside_circle', 'image within radius %r of the compass centre' % r, rho,
                           projection=name)
            cr = math.hypot(c[0], c[1])
            if cr > 1e-7 * r and c[2] >= -1e-12 * r:
                cross = ix * c[1] - iy * c[0]
                dot = ix * c[0] + iy * c[1]
                if abs(cross) > 1e-7 * (rho * cr + scale * 1e-9) + 1e-9 * scale * cr or dot < 0:
                    return bad('azimuth', 'image on the ray of (x, y)', (ix, iy, c[0], c[1]), projection=name)
            if name == 'orthographic':
                z2 = r * r - ix * ix - iy * iy
                back = [q.x, q.y, o[2] + math.sqrt(max(z2, 0.0))]
                tol = 1e-5 * scale
            else:
                u, v = ix / r, iy / r
                d = 1 + u * u + v * v
                back = [o[0] + r * 2 * u / d, o[1] + r * 2 * v / d, o[2] + r * (1 - u * u - v * v) / d]
                tol = 1e-8 * scale
            if max(abs(a - b) for a, b in zip(back, p)) > tol:
                return bad('inverse', p, back, projection=name)
        return None
    raise ValueError('unknown op ' + op)


replay = check_case


def _oracle_cases(ctx):
    rng = ctx.rng
    big = ctx.searching or not ctx.quick
    # fixed corpus (includes the example inputs of the findings and of the repaired defects)
    yield 'radial', {'azimuth_count': 3, 'altitude_count': 1}
    yield 'tables', {'order': [0, 1]}
    yield 'tables', {'order': [1, 0]}
    yield 'tables', {'order': [0]}
    yield 'tables', {'order': [1]}
    yield 'dome', {'n': 2, 'in_place': False}
    yield 'offset', {'offset_angle': 45, 'n': 2, 'in_place': True}
    yield 'lazy', {'order': ['tregenza_dome_mesh_high_res', 'tregenza_dome_vectors'], 'singleton': True}
    yield 'lazy', {'order': ['tregenza_dome_vectors', 'tregenza_dome_mesh_high_res'], 'singleton': False}
    yield 'lazy', {'order': ['reinhart_sphere_mesh', 'reinhart_dome_vectors', 'tregenza_sphere_vectors'],
                   'singleton': False}
    for c in _lazy_sequences(ctx, rng, pairs=big):
        yield 'lazy', c
    top = 8 if big else 6
    for n in range(1, top + 1):
        for ip in (False, True):
            yield 'dome', {'n': n, 'in_place': ip}
            if n <= (6 if big else 3):
                yield 'sphere', {'n': n, 'in_place': ip}
    special = [1, 2, 3, 18, 72, 144]
    cap = 30000 if big else 6000
    pairs = [(a, b) for a in special for b in special if b > 1 and a * b <= cap]
    pairs += [(rng.randrange(1, 145), rng.randrange(2, 145)) for _ in range(60 if big else 8)]
    for a, b in pairs:
        if a * b <= cap:
            yield 'radial', {'azimuth_count': a, 'altitude_count': b}
    for n in range(1, (5 if big else 3) + 1):
        for ip in (False, True):
            offs = [6, 12, 30, 45, 60, 89, 90] + [round(rng.uniform(13, 90), 3) for _ in range(10 if big else 2)]
            for off in offs:
                yield 'offset', {'offset_angle': off, 'n': n, 'in_place': ip}
    for c in _proj_points(rng, 40000 if big else 4000):
        yield 'proj', c
    for _ in range(10000 if big else 1500):
        alt = rng.choice([0, 90, 45, rng.uniform(0, 90)])
        az = rng.choice([0, 90, 180, 270, rng.uniform(0, 360)])
        r = rng.choice([100, 1, rng.uniform(0.01, 1e4)])
        ox, oy = rng.choice([(0.0, 0.0), (rng.uniform(-10, 10) * r, rng.uniform(-10, 10) * r)])
        yield 'sun2d', {'altitude': alt, 'azimuth': az, 'r': r, 'ox': ox, 'oy': oy}


def oracle(ctx):
    def counted(op, inp):
        res = check_case(op, inp)
        if op in ('dome', 'sphere', 'radial', 'offset'):
            ctx.subclaim('vectors_unit_upward_inside_own_patch',
                         not (res and res['sig'].get('what') == 'vector'))
        if op == 'tables':
            ctx.subclaim('tabulated_coefficients_match_mesh_solid_angles_1e-6',
                         not (res and res['sig'].get('what') in ('table_vs_mesh', 'table_sum')))
        return res
    run_oracle_cases(ctx, _oracle_cases(ctx), counted)


LEVEL_TEXT = ('Machine-checked Lean 4 theorems over an executable model of viewsphere.py / compass.py: for every '
              'division count n >= 1 the dome has 144 n^2 + 1 patches and as many vectors and weights, the sphere '
              'is the dome followed by its mirror image (twice the length), radial domes have azimuth x altitude '
              'cells (altitude_count >= 2; the code fails for 1: known finding), the patch areas telescope to 2 pi '
              'for any row angles so the weights average to one, the weights use the same row angle as the generated '
              'mesh (after the proposed repair), the two solid-angle tables are independent of read order (after '
              'the proposed repair) and sum to 2 pi within 1e-6; over the reals both projections map the upper '
              'hemisphere into the compass circle, keep the azimuth ray and are inverted by the inverse formulas. '
              'Row tables and coefficients are regenerated from viewsphere.py on every run; the model is compared '
              'with the real code (mesh topology exactly, projections bit-exactly, weights to 1e-12).')
LEVEL_NOTE = ('Trusted: Lean kernel; axioms propext/Classical.choice/Quot.sound only; the table extractor; the '
              'correspondence run (generated inputs only); ladybug_geometry. Sampled only (not proved): every '
              'generated vector is unit, upward and inside its own patch; tabulated coefficients equal the true '
              'solid angles of the generated patches to 1e-6; float vs real arithmetic.')
TECHNIQUE = ('Lean 4 proof (list induction / telescoping sums over a field, field_simp/nlinarith over the reals, '
             'decide on the regenerated tables) about a model tied to the code by regenerated tables and '
             'differential correspondence')
