"""C20 — Sky-dome subdivisions tile the hemisphere; sky projections are consistent.

Model: lean/Ladybug/Model/Dome.lean, Model/Proj.lean; theorems: lean/Ladybug/Props/C20.lean;
driver: drv_c20.  Tie: translators (Gen/DomeTables from viewsphere.py, Gen/CompassSetters from compass.py) + correspondence on the ops below.

The model describes viewsphere.py *after* the two proposed repairs fixes/C20_patch_area_angle.patch and
fixes/C20_solid_angle_slot.patch; on a tree without them the check reports the violation.

Round 3 (histories, failure paths, process order, cooperating sites, rare classes):
  * `hist`      operation histories on ONE ViewSphere (fresh object / module singleton of a freshly executed
                private copy of viewsphere.py, so class- and module-level state starts from nothing): property
                reads, calls of every plain method with equal / flag-flipped / other arguments, the same question
                repeated, refused calls (division / azimuth / altitude counts given as float, Fraction, str, None,
                list; zero and negative counts; nan / inf / zero / text offsets; a single altitude row), the caller
                editing a list it was handed, a second object of the same class.  Step by step the model's object
                state machine (Model/DomeObj.lean, driver op `hist`) is compared with the real object, and the
                oracle requires every step to answer exactly as a brand-new object of a brand-new module copy does
                (content, not only sizes) and as the statement says (144 n^2 + 1 ...).
  * `compass`   one Compass: radius / center / spacing_factor / north_angle assignments (accepted and refused),
                duplicate(), between reads of the stereographic / orthographic altitude circles and label points
                (consumers of the projections); driver op `chist` (CompassObj state machine).
  * `procorder` a slice of the oracle stream (histories on the REAL module and its singleton, single-call cases,
                projections) is run in 2 (quick) to 4 fresh interpreters side by side, each in another order (refused
                calls and rare classes first / shuffled / common first); the replay `{"order": [...]}` is the shortest
                order found that still fails in a fresh interpreter.
  * `polyline2d`, `projseq`, `sunseq`, call forms of `proj` / `sun2d`: the untouched consumers of the projections
                (Sunpath.day_polyline2d, one point on several spheres, one Sun asked for several origins / radii /
                projections incl. north angles, default / keyword / lower-case argument forms).
In the check process itself histories run on private module copies only, and they come first in the oracle
stream, so that the first failing input reported is self-contained.

Round 4 (override gaps / siblings, aliasing and one-shot iterables, conventions, numeric edges, input shapes,
rarely taken branches):
  * aliasing (f): the caller edits EVERY container it is handed - the lists of the weight functions, the row layout
    also for division_count 1 (class constant), and whatever a lazy property returns (`read; scribble; read; renew;
    read`) - and asks again on the same and on a second object; `containers`: every sequence argument of the anchored
    code (polylines of Sunpath._project_polyline_to_2d, angles of Compass.label_points_from_angles /
    ticks_from_angles, the row layout of _patch_count_in_radial_offset) as list / tuple / generator / iter / map /
    filter / zip-derived generator / dict view (non-sorted insertion order) / deque, asked twice.
  * input shapes (i): subdivide_in_place as any truthy / falsy object (1, 'yes', [0], 2.5, 'False' / 0, None, '', [],
    0.0) positionally and by keyword; division_count 1 given as True; offset angles as int / float / Fraction /
    Decimal / bool; Compass radius / spacing_factor / north_angle and the constructor radius as text (plain, padded,
    exponent form, underscore, non-ASCII digits, sign), bytes, Fraction, Decimal, bool, and text that float()
    refuses or that parses to a refused number ('nan', '-3'); projection arguments as Vector3D / duck-typed points,
    Fraction radius, Point3D / Vector2D origins, upper- and mixed-case projection names.
  * numeric edges (h): EVERY altitude count 2..144 and every azimuth count 1..144 of the radial domes (float row
    angles differ from count to count), every half-row offset (k + 1/2) rows of the horizontal band for every row
    (quotients exactly on a half: 30 degrees on the Tregenza dome is one) and a hair to either side, sphere radii
    and compass radii 1e-12 .. 1e+16 with origins of the same magnitude (relative tolerances throughout).
  * conventions (g): the band must end within half a row of the offset angle GIVEN IN DEGREES (measured on the mesh:
    `band_extent`), Sunpath objects with a north angle in `polyline2d`, monthly and analemma paths in half of the cases.
  * siblings (e): ViewSphere and Compass have no subclasses; the sibling functions the statement makes agree are
    compared: dome / sphere / band weights against the same mesh solid angles, tregenza_* / reinhart_* getters against
    the plain functions, Sun.position_2d / Sunpath.day_ / monthly_day_ / hourly_analemma_polyline2d against the
    projected 3D paths, orthographic_ / stereographic_altitude_circles and _points.
  * branches (j) of the anchored functions, each reached by a counted stratum (`branch:<function>:<arm>` in evidence):
      _patch_row_count_array      count == 1 (class tuple) | count > 1 (list comprehension) | count < 1 (empty list)
      dome_patches                vertical angle in_place | default; (`if subdivide_in_place: correction_angle * n`
                                  is a statement without effect: both arms behave alike - nothing to reach)
      _dome_patch_areas           vert_angle in_place | default
      _patch_count_in_radial_offset  vert_angle in_place | default; rows[:k] with k < 0 (slice from the end) | k = 0
                                  (empty band: the callers fail) | 0 < k < rows | k >= rows (slice past the end);
                                  quotient exactly on a half
      dome_radial_patches         row loop not entered (altitude_count <= 1: IndexError, known finding) | rows;
                                  azimuth_count < 3 (flat faces) | >= 3
      _dome_radial_patch_areas    no rows (altitude_count < 1) | rows
      the 11 lazy getters         slot empty (build) | slot filled by itself | slot filled by the sibling getter
      Compass numeric setters     accepted | float() refuses | assert refuses;  center: Point2D | refused
      *_altitude_points           _north_angle == 0 (no rotation) | rotated
      point3d_to_stereographic    radius / origin defaults | given; pole (ZeroDivisionError)
      Sun.position_2d, Sunpath._project_polyline_to_2d   orthographic | stereographic | unsupported name (raise)
      Sunpath.day_polyline2d      arc | no arc (sun never up: None);   Sun._calculate_sun_vector  north 0 | rotated
    Not reachable through the public API: none of the above; `Compass.north_vector` setter and `__eq__/__hash__` are
    outside the statement.
"""
import json
import math
import os
import struct
import subprocess
import sys
from datetime import datetime
from fractions import Fraction

from harness import core
from harness.core import compare_batch, err_name, run_oracle_cases

PROP = 'C20'
PROOF_MODULES = ['Ladybug.Props.C20']
GREP_MODULES = ['Ladybug.Py', 'Ladybug.DrvCore', 'Ladybug.Model.Dome', 'Ladybug.Model.Proj',
                'Ladybug.Model.DomeObj', 'Ladybug.Gen.DomeTables', 'Ladybug.Gen.CompassSetters', 'Ladybug.Proofs.C20Lemmas', 'Ladybug.Proofs.C20Field', 'Ladybug.Proofs.C20Hist', 'Ladybug.Drv.C20']
RULE = ('correspondence: division counts 1..6 (thorough 1..8) x subdivide_in_place, malformed counts 0/-1, '
        'azimuth/altitude counts from {1,2,3,18,72,144} and random 1..144, offset angles 0..90 incl. the '
        'half-row rounding boundaries, nan/inf/negative offsets, every read order of the two solid-angle '
        'tables up to length 4, all ordered pairs + random sequences + full permutations of the eleven lazy '
        'tregenza_*/reinhart_* properties on fresh objects and on a fresh module singleton, projections of points on spheres of random radius/origin incl. horizon and '
        'zenith; integer structure compared exactly, projections bit-exact, weights within 1e-12 relative; '
        'operation histories on one ViewSphere (reads, calls with equal / flipped / other arguments, repeated '
        'questions, refused calls of every malformed class first, edited result lists, a second object) against '
        'the model state machine step by step; histories of Compass setters (accepted / refused) and duplicate() '
        'against the Compass state machine. '
        'oracle: the statement evaluated on the real meshes/vectors/weights (true solid angle of every generated '
        'face from its own vertices); every history step must equal the answer of a brand-new object in a '
        'brand-new module copy; a slice of the stream is re-run in fresh interpreters in 2-4 different orders '
        '(refused / rare cases first); consumers of the projections (day_polyline2d, altitude circles, one Sun / '
        'one point asked several questions, default and keyword call forms). '
        'round 4: every returned container edited by the caller and asked again; every sequence argument as list / '
        'tuple / generator / iter / map / filter / dict view / deque; the flag as any truthy / falsy object, counts as '
        'True, angles as Fraction / Decimal, compass numbers as text / bytes / Fraction / Decimal; every altitude and '
        'azimuth count 1..144 of the radial domes; every half-row offset of the band (and the band must end within half '
        'a row of the offset); radii 1e-12..1e+16; counted branch strata of the anchored functions. '
        'A case is non-trivial when the implementation returns a value; distinct = '
        'distinct (op, input)')
TRUSTED_BASE = [
    'translator tools/extract/dome_tables.py: copies TREGENZA/REINHART_PATCHES_PER_ROW and the two coefficient '
    'tables (decimal spelling) from viewsphere.py',
    'translator tools/extract/compass_setters.py: Compass.ALTITUDES and, per numeric setter, whether the assert '
    'precedes the store (statement order of the setter body)',
    'modelled, not verified: ladybug_geometry (Vector3D.rotate/rotate_xy, Mesh3D face normals, remove_faces, '
    'join_meshes) - vertex coordinates and face normals are not modelled; that every vector is unit, points up '
    'and lies inside its own patch is a sampled sub-claim evaluated on the real meshes',
    'sin() of the accumulated row angle is an abstract sequence in the theorems (any values); the link between '
    'the tabulated decimal coefficients and sin-values is numerical (sampled), only their sum is proved',
    'projection theorems are over the reals; float evaluation is compared bit-exactly with the model, the '
    'float/real gap is not proved',
]
ASSUMPTIONS = ['fixes/C20_patch_area_angle.patch and fixes/C20_solid_angle_slot.patch are applied to the tree '
               'under check (without them the check reports the violation they repair)',
               'the inverse projection formulas are the textbook ones (ladybug has no inverse projection)']

TWO_PI = 2 * math.pi


def extract(ctx):
    from tools.extract import dome_tables, compass_setters
    ctx.tables = dome_tables.extract()
    ctx.compass = compass_setters.extract()


def _fbits(x):
    return '%016x' % struct.unpack('<Q', struct.pack('<d', float(x)))[0]


def _unbits(s):
    return struct.unpack('<d', struct.pack('<Q', int(s, 16)))[0]


def _b(x):
    return '1' if x else '0'


CONTAINERS = ['list', 'tuple', 'generator', 'iter', 'map', 'dict_keys', 'deque', 'filter', 'zip_first']


def _as_container(items, kind):
    """The same items in another container / as a one-shot iterable (kinds f and i)."""
    items = list(items)
    if kind == 'list':
        return list(items)
    if kind == 'tuple':
        return tuple(items)
    if kind == 'generator':
        return (x for x in items)
    if kind == 'iter':
        return iter(items)
    if kind == 'map':
        return map(lambda x: x, items)
    if kind == 'filter':
        return filter(lambda x: True, items)
    if kind == 'zip_first':
        return (a for a, _ in zip(items, items))
    if kind == 'deque':
        import collections
        return collections.deque(items)
    if kind == 'dict_keys':           # insertion order, built in non-sorted order; items must be hashable and distinct
        return dict((x, None) for x in items).keys() if len(set(map(id, items))) == len(items) and \
            all(getattr(x, '__hash__', None) for x in items) and len(set(items)) == len(items) else tuple(items)
    raise ValueError(kind)


def _number_as(x, kind):
    """The number x handed over as another type (kind i: input shapes); text and bytes for float()-ing setters."""
    from decimal import Decimal
    if kind == 'int':
        return int(x)
    if kind == 'float':
        return float(x)
    if kind == 'fraction':
        return Fraction(x)
    if kind == 'decimal':
        return Decimal(repr(x)) if isinstance(x, float) else Decimal(x)
    if kind == 'bool':
        return bool(x)
    if kind == 'bytes':
        return str(x).encode('ascii')
    if kind == 'text':
        return repr(x)
    if kind == 'text_padded':
        return '  %r\n' % (x,)
    if kind == 'text_exp':
        return '%e' % x if float('%e' % x) == x else repr(float(x))
    raise ValueError(kind)


def _vs():
    from ladybug.viewsphere import ViewSphere
    return ViewSphere()


def _flag_args(n, ip):
    """Call signature: the flag is passed only when set, so that the default path is exercised."""
    return (n, True) if ip else (n,)


def _weights_take_flag():
    """Whether the weight functions of the tree under check can be asked for subdivide_in_place weights
    (fixes/C20_patch_area_angle.patch adds the parameter; without it there are no in-place weights to check)."""
    import inspect
    from ladybug.viewsphere import ViewSphere
    try:
        return all('subdivide_in_place' in inspect.signature(getattr(ViewSphere, f)).parameters
                   for f in ('dome_patch_weights', 'sphere_patch_weights', 'horizontal_radial_patch_weights'))
    except (TypeError, ValueError, AttributeError):
        return False


LAZY_PROPS = ['tregenza_dome_vectors', 'tregenza_sphere_vectors', 'tregenza_dome_mesh',
              'tregenza_dome_mesh_high_res', 'tregenza_sphere_mesh', 'tregenza_solid_angles',
              'reinhart_dome_vectors', 'reinhart_sphere_vectors', 'reinhart_dome_mesh',
              'reinhart_sphere_mesh', 'reinhart_solid_angles']
_REFS = {}


def _vec_key(vecs):
    return tuple((v.x, v.y, v.z) for v in vecs)


def _mesh_key(m):
    return (tuple((q.x, q.y, q.z) for q in m.vertices), tuple(tuple(f) for f in m.faces))


def _refs():
    """Reference contents built with the plain functions dome_patches / sphere_patches on a throw-away
    object (they do not touch any cache slot): {(kind, n, in_place): key}."""
    if not _REFS:
        from ladybug.viewsphere import ViewSphere
        vs = ViewSphere()
        for n, ip in ((1, False), (2, False), (3, True), (3, False), (2, True)):
            m, v = vs.dome_patches(n, ip)
            _REFS[('dome_mesh', n, ip)] = _mesh_key(m)
            _REFS[('dome_vectors', n, ip)] = _vec_key(v)
        for n in (1, 2):
            m, v = vs.sphere_patches(n)
            _REFS[('sphere_mesh', n, False)] = _mesh_key(m)
            _REFS[('sphere_vectors', n, False)] = _vec_key(v)
        for n, rows, coef in ((1, ViewSphere.TREGENZA_PATCHES_PER_ROW, ViewSphere.TREGENZA_COEFFICIENTS),
                              (2, ViewSphere.REINHART_PATCHES_PER_ROW, ViewSphere.REINHART_COEFFICIENTS)):
            t = []
            for a, c in zip(coef, tuple(rows) + (1,)):
                t += [a] * c
            _REFS[('solid_angles', n, False)] = tuple(t)
    return _REFS


def _fingerprint(obj):
    """`<kind>:<n>:<in_place>:<count>` of what a lazy property returned, by comparing it with the reference
    contents; `unknown_*:<count>` when it is none of them."""
    if obj is None:
        return 'none'
    if hasattr(obj, 'faces') and hasattr(obj, 'vertices'):
        key, kinds, count = _mesh_key(obj), ('dome_mesh', 'sphere_mesh'), len(obj.faces)
    elif isinstance(obj, (tuple, list)) and obj and hasattr(obj[0], 'z'):
        key, kinds, count = _vec_key(obj), ('dome_vectors', 'sphere_vectors'), len(obj)
    elif isinstance(obj, (tuple, list)):
        key, kinds, count = tuple(obj), ('solid_angles',), len(obj)
    else:
        return 'unknown_object:' + type(obj).__name__
    for (kind, n, ip), ref in _refs().items():
        if kind in kinds and ref == key:
            return '%s:%d:%s:%d' % (kind, n, _b(ip), count)
    return 'unknown_%s:%d' % (kinds[0], count)


def _lazy_object(singleton):
    """A fresh ViewSphere, or the module-level singleton `view_sphere` of a freshly executed private copy of
    the module (so that the singleton starts with empty slots without reloading ladybug.viewsphere)."""
    import ladybug.viewsphere as lv
    if not singleton:
        return lv.ViewSphere(), lv.ViewSphere
    import importlib.util
    spec = importlib.util.spec_from_file_location('_c20_viewsphere_copy', lv.__file__)
    mod = importlib.util.module_from_spec(spec)
    spec.loader.exec_module(mod)
    return mod.view_sphere, mod.ViewSphere


def _lazy_sequences(ctx, rng, pairs):
    """Read orders: all ordered pairs (incl. repeated reads), random longer sequences, permutations of all
    eleven properties on the singleton."""
    out = []
    if pairs:
        out += [{'order': [a, b], 'singleton': False} for a in LAZY_PROPS for b in LAZY_PROPS]
    for _ in range(ctx.n(10, 150)):
        k = rng.randrange(3, 9)
        out.append({'order': [rng.choice(LAZY_PROPS) for _ in range(k)], 'singleton': rng.random() < 0.3})
    for _ in range(ctx.n(4, 40)):
        perm = list(LAZY_PROPS)
        rng.shuffle(perm)
        out.append({'order': perm, 'singleton': True})
    return out



# ---------------------------------------------------------------------------------------------
# histories on ONE object and in ONE process (round 3)
#
# Consumers of every modelled producer (each is exercised by a correspondence op and/or an oracle op):
#   _patch_row_count_array  -> dome_patches, sphere_patches, horizontal_radial_patches, dome_patch_weights,
#                              sphere_patch_weights, horizontal_radial_patch_weights (ops rows/layout/dome/
#                              sphere/weights/sphere_weights/offset_*; hist), the 11 lazy properties (lazy, hist)
#   _dome_patch_areas       -> dome_patch_weights, sphere_patch_weights, horizontal_radial_patch_weights
#   dome_patches            -> sphere_patches, horizontal_radial_patches, tregenza_/reinhart_dome_* ,
#                              tregenza_dome_mesh_high_res
#   sphere_patches          -> tregenza_/reinhart_sphere_*
#   _generate_bottom_from_top -> sphere_patches, horizontal_radial_patches
#   _patch_count_in_radial_offset -> horizontal_radial_patches, horizontal_radial_patch_weights
#   _dome_radial_patch_areas -> dome_radial_patch_weights
#   TREGENZA_/REINHART_ tables -> tregenza_/reinhart_solid_angles (tables, lazy, hist)
#   Compass.point3d_to_stereographic -> Sun.position_2d (sun2d, pos2d_stereo), Sunpath._project_polyline_to_2d
#                              (day_polyline2d: polyline2d), Compass.stereographic_altitude_circles / _points (compass)
#   Compass.point3d_to_orthographic -> Sun.position_2d, Sunpath._project_polyline_to_2d,
#                              (derived) Compass.orthographic_altitude_circles / _points (compass)
#   Sun.position_3d         -> Sun.position_2d (sun2d), Sunpath.day_arc3d (polyline2d)

CALL_FNS = ['rows', 'dome', 'sphere', 'weights', 'sweights', 'offset', 'offsetw', 'radial', 'radialw']
LIST_FNS = ['rows', 'weights', 'sweights', 'offsetw', 'radialw']        # hand out a list the caller may edit
DOME_FNS = ['rows', 'dome', 'sphere', 'weights', 'sweights', 'offset', 'offsetw']
BAD_KINDS = ['float', 'fraction', 'str', 'none', 'list']
SCRIBBLES = ['double', 'clear', 'set0', 'append']
# in the check process itself histories run on private module copies only (self-contained replays, and the
# real module is not disturbed for the single-call cases); the real module / singleton is used in the
# fresh interpreters of the process-order runs, where the replay carries the whole order
OBJECT_KINDS = ['copy', 'copy', 'copy_singleton']


TRUTHY = [1, 'yes', [0], 2.5, 'False']
FALSY = [0, None, '', [], 0.0]


def _flag_shape(value, i):
    """The subdivide_in_place flag as another object of the same truth value (kind i: input shapes)."""
    pool = TRUTHY if value else FALSY
    return pool[i % len(pool)]


def _spoil(n, kind):
    """An argument equal to / made from the count `n` but of a type the methods cannot use."""
    return {'float': float(n), 'fraction': Fraction(n), 'str': str(n), 'none': None, 'list': [n]}[kind]


def _bad_kinds_for(n):
    # 1.0 and Fraction(1) compare equal to 1 and are accepted by the code as it is: not refused
    return [k for k in BAD_KINDS if not (n == 1 and k in ('float', 'fraction'))]


def _op_call(fn, *a, **extra):
    d = {'k': 'call', 'fn': fn, 'a': list(a)}
    d.update(extra)
    return d


def _op_tok(op):
    """The model's token for one step."""
    if op['k'] == 'read':
        return 'read:' + op['p']
    if op['k'] in ('scribble', 'renew'):
        return op['k']
    if op.get('bad'):
        return 'bad:' + op['fn']
    fn, a = op['fn'], op['a']
    if fn == 'rows':
        return 'rows:%d' % a[0]
    if fn in ('dome', 'sphere', 'weights', 'sweights'):
        return '%s:%d:%s' % (fn, a[0], _b(a[1]))
    if fn in ('offset', 'offsetw'):
        return '%s:%s:%d:%s' % (fn, _fbits(a[0]), a[1], _b(a[2]))
    return '%s:%d:%d' % (fn, a[0], a[1])


def _hist_object(kind):
    """(object, class): `copy*` = a freshly executed private copy of the module (class- and module-level
    state pristine), `real*` = ladybug.viewsphere itself (state shared with everything this process did)."""
    import ladybug.viewsphere as lv
    if kind == 'real':
        return lv.ViewSphere(), lv.ViewSphere
    if kind == 'real_singleton':
        return lv.view_sphere, lv.ViewSphere
    mod = _module_copy()
    return (mod.view_sphere if kind == 'copy_singleton' else mod.ViewSphere()), mod.ViewSphere


def _module_copy():
    """A freshly executed private copy of ladybug/viewsphere.py: its class, class attributes, module
    globals and singleton start from nothing."""
    import importlib.util
    import ladybug.viewsphere as lv
    spec = importlib.util.spec_from_file_location('_c20_viewsphere_copy', lv.__file__)
    mod = importlib.util.module_from_spec(spec)
    spec.loader.exec_module(mod)
    return mod


def _do_call(o, cls, op):
    fn, a = op['fn'], list(op['a'])
    pos = 1 if fn in ('offset', 'offsetw') else 0
    if op.get('bad'):
        if op['bad'] == 'offset_str':
            a[0] = 'x'
        else:
            if op.get('bad_pos') is not None:        # radial: altitude_count instead of azimuth_count
                pos = op['bad_pos']
            a[pos] = _spoil(a[pos], op['bad'])
    kw = {}
    shaped = op.get('fshape') is not None and fn in DOME_FNS and fn != 'rows'
    if shaped:                        # the flag handed over as another truthy / falsy object than True / False
        a[-1] = _flag_shape(a[-1], op['fshape'])
    if op.get('kw') and fn in DOME_FNS and fn != 'rows':
        kw['subdivide_in_place'] = a.pop() if shaped else bool(a.pop())
    elif fn in ('dome', 'sphere', 'weights', 'sweights', 'offset', 'offsetw') and not a[-1] and not op.get('flag') \
            and not shaped:
        a.pop()                       # the flag is passed only when set (default path), unless asked for
    if fn == 'rows':
        return cls._patch_row_count_array(a[0])
    meth = {'dome': 'dome_patches', 'sphere': 'sphere_patches', 'weights': 'dome_patch_weights',
            'sweights': 'sphere_patch_weights', 'offset': 'horizontal_radial_patches',
            'offsetw': 'horizontal_radial_patch_weights', 'radial': 'dome_radial_patches',
            'radialw': 'dome_radial_patch_weights'}[fn]
    return getattr(o, meth)(*a, **kw)


def _summarise(fn, val):
    """(summary token as the model prints it, canonical content)."""
    if fn == 'rows':
        return 'rows:%d:%d' % (len(val), sum(val)), tuple(val)
    if fn in ('dome', 'sphere', 'radial', 'offset'):
        mesh, vecs = val
        canon = (_mesh_key(mesh), _vec_key(vecs))
        if fn == 'offset':
            return 'band:%d:%d' % (len(vecs), len(mesh.faces)), canon
        return 'shape:%d:%d:%d' % (len(mesh.vertices), len(mesh.faces), len(vecs)), canon
    return 'len:%d' % len(val), tuple(val)


def _exec_step(o, cls, op, state):
    """Execute one step; returns (summary, canonical content | None)."""
    if op['k'] == 'scribble':
        last = state.get('last')
        if isinstance(last, list):
            how = op.get('how', 'double')
            if how == 'double':
                last.extend(list(last))
            elif how == 'clear':
                del last[:]
            elif how == 'set0' and last:
                last[0] = 1e9
            else:
                last.append(7)
        return 'unit', None
    try:
        if op['k'] == 'read':
            val = getattr(o, op['p'])
            state['last'] = val
            if val is None:
                return 'none', None
            key = _mesh_key(val) if hasattr(val, 'faces') else \
                _vec_key(val) if (val and hasattr(val[0], 'z')) else tuple(val)
            return _fingerprint(val), key
        val = _do_call(o, cls, op)
        state['last'] = val
        return _summarise(op['fn'], val)
    except Exception as e:
        return 'err:' + err_name(e), None


_FRESH = {}


def _fresh_step(op):
    """The same step on a brand-new object of a brand-new private module copy (nothing happened before)."""
    key = json.dumps(op, sort_keys=True)
    if key not in _FRESH:
        mod = _module_copy()
        _FRESH[key] = _exec_step(mod.ViewSphere(), mod.ViewSphere, op, {})
    return _FRESH[key]


def _required_summary(op):
    """What the statement itself requires of a valid step (None where it says nothing)."""
    if op['k'] != 'call' or op.get('bad'):
        return None
    fn, a = op['fn'], op['a']
    if fn in ('radial', 'radialw'):
        az, alt = a
        if az < 1 or alt < 2:
            return None
        return 'len:%d' % (az * alt) if fn == 'radialw' else 'shape:%d:%d:%d' % (2 * (az + 1) * (alt - 1) + 1,
                                                                                 az * alt, az * alt)
    n = a[1] if fn in ('offset', 'offsetw') else a[0]
    if n < 1 or fn in ('offset', 'offsetw'):
        return None
    pc = 144 * n * n + 1
    rows = 7 * n if n != 1 else 7
    nv = 2 * (pc - 1) + 2 * rows + 1
    return {'rows': 'rows:%d:%d' % (rows, pc - 1), 'dome': 'shape:%d:%d:%d' % (nv, pc - 1 + 6 * n, pc),
            'sphere': 'shape:%d:%d:%d' % (2 * nv, 2 * (pc - 1 + 6 * n), 2 * pc),
            'weights': 'len:%d' % pc, 'sweights': 'len:%d' % (2 * pc)}[fn]


def _run_history(inp):
    """Summaries of all steps of a history (for the correspondence)."""
    o, cls = _hist_object(inp.get('object', 'copy'))
    state, out = {}, []
    for op in inp['ops']:
        if op['k'] == 'renew':
            o = cls()
            out.append('unit')
        else:
            out.append(_exec_step(o, cls, op, state)[0])
    return out


def _check_history(inp, bad):
    """History oracle: every step answers exactly as on a fresh object (in particular after refused calls and
    after the caller edited a list it was handed), and as the statement requires."""
    kind = inp.get('object', 'copy')
    o, cls = _hist_object(kind)
    state, refused, scribbled, done = {}, False, False, []
    for i, op in enumerate(inp['ops']):
        tok = _op_tok(op)
        if op['k'] == 'renew':                 # another object of the same class (same process, same module)
            o = cls()
            done.append(tok)
            continue
        got = _exec_step(o, cls, op, state)
        if op['k'] == 'scribble':
            scribbled = True
            done.append(tok)
            continue
        want = _fresh_step(op)
        fn = op.get('fn', 'read')
        sig = dict(fn=fn, after_refused=refused, after_scribble=scribbled)
        req = _required_summary(op)
        if req is not None and got[0] != req:
            return bad('history_statement', 'step %d %s gives %s' % (i, tok, req),
                       '%s after %s' % (got[0], done or 'nothing'), **sig)
        if got[0] != want[0]:
            return bad('history', 'step %d %s answers as on a fresh object: %s' % (i, tok, want[0]),
                       '%s after %s' % (got[0], done or 'nothing'), **sig)
        if got[1] != want[1]:
            return bad('history', 'step %d %s returns the same content as on a fresh object' % (i, tok),
                       'different content after %s' % (done or 'nothing'), **sig)
        if got[0].startswith('err:'):
            refused = True
        done.append(tok)
    return None


def _histories(ctx, rng, full):
    """Generated operation histories (JSON-able). `full`: the systematic families completely."""
    flag = _weights_take_flag()
    out = []

    def add(ops, obj=None, stratum='random'):
        ops = [op for op in ops if flag or not (op.get('fn') in ('weights', 'sweights', 'offsetw')
                                                  and op['a'][-1] is True)]
        out.append(({'object': obj or rng.choice(OBJECT_KINDS), 'ops': ops}, stratum))

    def call(fn, n, ip, **extra):
        off = extra.pop('off', None)
        extra = {k: v for k, v in extra.items() if v}
        if fn == 'rows':
            return _op_call('rows', n, **extra)
        if fn in ('offset', 'offsetw'):
            return _op_call(fn, rng.choice([30, 45, 60, 90, 12, 30.0]) if off is None else off, n, ip, **extra)
        return _op_call(fn, n, ip, **extra)

    # (1) ordered pairs of methods on the same / flipped-flag / other-count arguments, asked again afterwards
    pair_fns = ['dome', 'sphere', 'weights', 'sweights', 'offset', 'offsetw', 'rows']
    pairs = [(a, b, rel) for a in pair_fns for b in pair_fns for rel in ('same', 'flip', 'other')]
    if not full:
        pairs = rng.sample(pairs, 30)
    for a, b, rel in pairs:
        heavy = a in ('dome', 'sphere', 'offset') or b in ('dome', 'sphere', 'offset')
        n = rng.choice([1, 1, 2, 2, 2, 3] if full else [1, 1, 2, 2, 2]) if heavy else rng.randrange(1, 7)
        ip = rng.random() < 0.5
        n2, ip2 = (n, ip) if rel == 'same' else (n, not ip) if rel == 'flip' else (n % (2 if heavy else 6) + 1, ip)
        off = rng.choice([30, 45, 60])
        add([call(a, n, ip, off=off), call(b, n2, ip2, off=off), call(a, n, ip, off=off)] +
            ([call(b, n2, ip2, off=off)] if full or not heavy else []), stratum='pair:' + rel)
    for fn in ('offset', 'offsetw'):            # the same band function asked for another offset / flag / count
        for other in ('offset', 'offsetw'):
            n = rng.choice([1, 2, 2, 3])
            ip = rng.random() < 0.5
            o1, o2 = rng.sample([12, 30, 45, 60, 75, 90], 2)
            add([call(fn, n, ip, off=o1), call(other, n, ip, off=o2), call(fn, n, ip, off=o1),
                 call(other, n, ip, off=o1), call(fn, n, not ip, off=o1)], stratum='pair:other_offset')
    for _ in range(ctx.n(4, 20)):               # radial domes: other azimuth / altitude counts, then again
        az, alt = rng.choice([1, 2, 3, 5, 12]), rng.choice([2, 3, 4, 9])
        ops = [_op_call(f, a, b) for f in ('radial', 'radialw')
               for a, b in ((az, alt), (az + 1, alt), (az, alt + 1), (alt, az + 1), (az, alt))]
        rng.shuffle(ops)
        add(ops, stratum='pair:radial')
    # (2) a refused call first (wrong type equal to the count, zero, negative, nan ...), then valid ones
    for n in range(1, 7):
        for kind in _bad_kinds_for(n):
            fa = rng.choice(DOME_FNS if n <= (3 if full else 2) else ['rows', 'weights', 'sweights', 'offsetw'])
            ip = rng.random() < 0.5
            ops = [call(fa, n, ip, bad=kind)]
            after = ['rows', 'weights', 'sweights', 'offsetw'] + \
                (['dome', 'sphere', 'offset'] if n <= (3 if full else 2) else [])
            rng.shuffle(after)
            ops += [call(f, n, rng.random() < 0.5) for f in after[:rng.randrange(2, 5)]]
            if n <= 2:
                ops.append({'k': 'read', 'p': rng.choice(LAZY_PROPS)})
            add(ops, stratum='refused_first:type')
    for n0 in (0, -1):
        for fa in ('dome', 'sphere', 'weights', 'offset', 'offsetw'):
            n = rng.choice([1, 2, 3])
            add([call(fa, n0, rng.random() < 0.5), call(fa, n, False), call('weights', n, False),
                 call('rows', n, False)], stratum='refused_first:zero_negative')
    for off in (float('nan'), float('inf'), 0, 0.0, 1e-9):
        n = rng.choice([1, 2])
        add([call('offset', n, False, off=off), call('offsetw', n, False, off=off), call('offset', n, False, off=30),
             call('offsetw', n, False, off=30), call('dome', n, False)], stratum='refused_first:offset')
    add([_op_call('offset', 30, 2, False, bad='offset_str'), _op_call('offsetw', 30, 2, False, bad='offset_str'),
         _op_call('offset', 30, 2, False), _op_call('offsetw', 30, 2, False)], stratum='refused_first:offset')
    for az, alt in ((0, 3), (3, 0), (3, 1), (5, 1)):
        add([_op_call('radial', az, alt), _op_call('radialw', az, alt), _op_call('radial', max(az, 3), 4),
             _op_call('radialw', max(az, 3), 4)], stratum='refused_first:radial')
    for kind in ('float', 'str', 'none', 'fraction'):
        for pos in (0, 1):
            az, alt = rng.choice([3, 4, 7]), rng.choice([2, 3, 5])
            first = [_op_call('radial', az, alt, bad=kind, bad_pos=pos), _op_call('radialw', az, alt, bad=kind, bad_pos=pos)]
            rng.shuffle(first)
            add(first + [_op_call('radialw', az, alt), _op_call('radial', az, alt),
                         _op_call('radialw', az + 1, alt), _op_call('radialw', az, alt + 1)],
                stratum='refused_first:radial')
    # (3) the caller edits a list it was handed
    for fn in LIST_FNS:
        for how in SCRIBBLES:
            n = rng.choice([1, 1, 2, 3, 4])       # 1: the Tregenza layout is a class constant (a tuple today)
            first = _op_call('radialw', n + 2, n + 1) if fn == 'radialw' else call(fn, n, False, off=45)
            others = [call(f, n, False, off=45) for f in rng.sample(['rows', 'weights', 'sweights', 'offsetw'], 2)]
            add([first, {'k': 'scribble', 'how': how}, dict(first)] + others +
                ([call('dome', n, False)] if n <= 3 else []), stratum='scribble')
    for i, p in enumerate(LAZY_PROPS):     # ... or a container a property handed out (tuples today: no edit possible)
        how = SCRIBBLES[(i + rng.randrange(4)) % 4]
        add([{'k': 'read', 'p': p}, {'k': 'scribble', 'how': how}, {'k': 'read', 'p': p}, {'k': 'renew'},
             {'k': 'read', 'p': p}], stratum='scribble:read')
    # (3b) input shapes: the flag as another truthy / falsy object, the count 1 given as True
    for fn in ('dome', 'sphere', 'weights', 'sweights', 'offset', 'offsetw'):
        for ip in (True, False):
            n = rng.choice(([1, 2, 2, 3] if full else [1, 2, 2]) if fn in ('dome', 'sphere', 'offset') else [1, 2, 3, 4, 5])
            add([call(fn, n, ip, off=45, fshape=1 + rng.randrange(5), kw=rng.random() < 0.3), call(fn, n, ip, off=45),
                 call(fn, n, not ip, off=45, fshape=1 + rng.randrange(5))], stratum='shape:flag')
    for fn in DOME_FNS:
        ip = rng.random() < 0.5
        add([call(fn, True, ip, off=45), call(fn, 1, ip, off=45)] +
            ([call(fn, 2, ip, off=45)] if full or fn not in ('dome', 'sphere', 'offset') else []),
            stratum='shape:count_true')
    # (4) the same question several times; reads and calls mixed
    for fn in ('sweights', 'weights', 'sphere', 'dome', 'offsetw', 'offset', 'rows'):
        n = rng.choice([1, 2, 3])
        ip = rng.random() < 0.5
        add([call(fn, n, ip, off=60)] * 3, stratum='repeated')
    add([call('sweights', 2, False), call('weights', 2, False), call('sweights', 2, False)], 'copy', 'repeated')
    add([call('sphere', 2, True), {'k': 'read', 'p': 'reinhart_sphere_vectors'}, call('sphere', 2, True),
         {'k': 'read', 'p': 'reinhart_dome_mesh'}, call('sphere', 2, False)], stratum='reads_and_calls')
    add([{'k': 'read', 'p': 'reinhart_dome_vectors'}, call('sphere', 2, True), call('dome', 2, True),
         {'k': 'read', 'p': 'tregenza_dome_mesh_high_res'}, call('dome', 3, True), call('dome', 3, False)],
        stratum='reads_and_calls')
    for p in LAZY_PROPS:           # what one object read must not show up in another object's slots
        q = rng.choice(LAZY_PROPS)
        add([{'k': 'read', 'p': p}, {'k': 'renew'}, {'k': 'read', 'p': q}, {'k': 'read', 'p': p}],
            stratum='second_object')
    for _ in range(ctx.n(18, 200)):
        ops = []
        for _ in range(rng.randrange(3, 9)):
            t = rng.random()
            n = rng.choice([1, 1, 2, 2, 3])
            if t < 0.3:
                ops.append({'k': 'read', 'p': rng.choice(LAZY_PROPS)})
            elif t < 0.35:
                ops.append({'k': 'renew'})
            elif t < 0.42:
                ops.append({'k': 'scribble', 'how': rng.choice(SCRIBBLES)})
            elif t < 0.55:
                f = rng.choice(DOME_FNS)
                ops.append(call(f, n, rng.random() < 0.5, bad=rng.choice(_bad_kinds_for(n))))
            elif t < 0.6:
                ops.append(call(rng.choice(DOME_FNS), rng.choice([0, -1]), rng.random() < 0.5))
            elif t < 0.7:
                az, alt = rng.choice([1, 2, 3, 7]), rng.choice([1, 2, 3, 5])
                ops.append(_op_call(rng.choice(['radial', 'radialw']), az, alt))
            else:
                ops.append(call(rng.choice(DOME_FNS), n, rng.random() < 0.5, kw=rng.random() < 0.3,
                                flag=rng.random() < 0.3))
        add(ops, stratum='reads_and_calls')
    return out


# --- Compass: one object, setters (accepted and refused) between reads of the altitude circles

COMPASS_ALTS = (10, 20, 30, 40, 50, 60, 70, 80)


def _cval(op):
    """The object handed to a numeric setter: the number itself, or the same number as text / bytes / Fraction /
    Decimal / bool (`as`), or a text given literally."""
    return _number_as(op['v'], op['as']) if op.get('as') else op['v']


def _cnum(op):
    """The number a `float(value)`-ing setter is given (stdlib float of what is handed over); None when float()
    itself refuses it."""
    try:
        return float(_cval(op))
    except (TypeError, ValueError):
        return None


def _compass_tok(op):
    k = op['k']
    if k == 'setr':
        x = _cnum(op)
        return 'setr_text' if x is None else 'setr:' + _fbits(x)
    if k == 'sets':
        return 'sets:' + _fbits(_cnum(op))
    if k == 'setc':
        return 'setc_other' if op.get('other') else 'setc:%s:%s' % (_fbits(op['x']), _fbits(op['y']))
    return k           # reads / reado / dup


def _compass_apply(c, op):
    from ladybug_geometry.geometry2d.pointvector import Point2D
    k = op['k']
    if k == 'setr':
        c.radius = _cval(op)
    elif k == 'sets':
        c.spacing_factor = _cval(op)
    elif k == 'setc':
        c.center = (op['x'], op['y']) if op.get('other') else Point2D(op['x'], op['y'])


def _compass_circles(c, which):
    arcs = c.stereographic_altitude_circles if which == 'reads' else c.orthographic_altitude_circles
    return arcs


def _run_compass_history(inp):
    from ladybug.compass import Compass
    from ladybug_geometry.geometry2d.pointvector import Point2D
    c = Compass(inp['r0'], Point2D(inp['cx0'], inp['cy0']))
    out = []
    for op in inp['ops']:
        try:
            if op['k'] == 'dup':
                c = c.duplicate()
                out.append('done')
            elif op['k'] in ('reads', 'reado'):
                arcs = _compass_circles(c, op['k'])
                out.append('circles:%s:%s:%s' % (_fbits(arcs[0].c.x), _fbits(arcs[0].c.y),
                                                 ','.join(_fbits(a.r) for a in arcs)))
            else:
                _compass_apply(c, op)
                out.append('done')
        except Exception as e:
            out.append('err:' + err_name(e))
    return out


def _check_compass(inp, bad):
    """After every step the altitude circles are the images of the altitude rings of the compass the user has
    established (last accepted radius / center): centred on the center, radius = distance of the projected ring
    from the center (own formulas), inside the compass circle; the label points sit 1 % of the radius inside."""
    from ladybug.compass import Compass
    from ladybug_geometry.geometry2d.pointvector import Point2D
    c = Compass(inp['r0'], Point2D(inp['cx0'], inp['cy0']))
    R, cx, cy = float(inp['r0']), float(inp['cx0']), float(inp['cy0'])
    refused_attr, done = None, []
    for i, op in enumerate(inp['ops']):
        k = op['k']
        if k in ('setr', 'sets', 'setc', 'setn', 'dup'):
            try:
                if k == 'dup':
                    c = c.duplicate()
                elif k == 'setn':
                    c.north_angle = _cval(op)
                else:
                    _compass_apply(c, op)
                if k == 'setr':
                    R = _cnum(op)
                elif k == 'setc':
                    cx, cy = float(op['x']), float(op['y'])
            except Exception:
                refused_attr = {'setr': 'radius', 'sets': 'spacing_factor', 'setc': 'center',
                                'setn': 'north_angle', 'dup': refused_attr or 'duplicate'}[k]
        done.append(_compass_tok(op))
        sig = dict(after_refused=refused_attr or 'none')
        for name, f in (('stereographic', lambda a: math.cos(a) / (1 + math.sin(a))), ('orthographic', math.cos)):
            want = [R * f(math.radians(a)) for a in COMPASS_ALTS]
            try:
                arcs = getattr(c, name + '_altitude_circles')
                pts = getattr(c, name + '_altitude_points')
                got = [(a.c.x, a.c.y, a.r) for a in arcs]
                gp = [math.hypot(q.x - cx, q.y - cy) for q in pts]
            except Exception as e:
                if refused_attr:
                    return bad('refused_setter_kept', 'a refused assignment leaves the compass as it was: %s '
                               'altitude circles of radius %r around (%r, %r)' % (name, R, cx, cy),
                               'raises %s after %s' % (type(e).__name__, done), attr=refused_attr, projection=name)
                return bad('compass_circles', '%s altitude circles' % name, 'raises %s after %s'
                           % (type(e).__name__, done), projection=name, **sig)
            tol = 1e-9 * (abs(R) + abs(cx) + abs(cy))
            if len(got) != len(want) or len(gp) != len(want):
                return bad('compass_circles', '%d %s altitude circles and labels' % (len(want), name),
                           (len(got), len(gp)), projection=name, **sig)
            for j, (w, g, d) in enumerate(zip(want, got, gp)):
                if abs(g[0] - cx) > tol or abs(g[1] - cy) > tol or abs(g[2] - w) > tol or g[2] > R + tol \
                        or abs(d - (w - 0.01 * R)) > tol:
                    what = 'refused_setter_kept' if refused_attr else 'compass_circles'
                    extra = dict(attr=refused_attr) if refused_attr else sig
                    return bad(what, '%s circle of altitude %d: centre (%r, %r) radius %r, label at %r'
                               % (name, COMPASS_ALTS[j], cx, cy, w, w - 0.01 * R),
                               'centre (%r, %r) radius %r, label at %r after %s' % (g[0], g[1], g[2], d, done),
                               projection=name, **extra)
    return None


def _compass_histories(ctx, rng):
    out = []
    for i in range(ctx.n(40, 400)):
        r0 = rng.choice([100, 1, 1.0, 0.5, rng.uniform(0.01, 1e4), '100', ' 2.5e1 ', 1e-9, 1e12])
        cx0, cy0 = rng.choice([(0, 0), (0.0, 0.0), (rng.uniform(-1e3, 1e3), rng.uniform(-1e3, 1e3)), (5.0, 5.0)])
        if isinstance(r0, float) and (r0 < 1e-6 or r0 > 1e9):
            cx0, cy0 = cx0 * r0, cy0 * r0          # magnitudes: the whole scene tiny / huge
        ops = []
        for _ in range(rng.randrange(1, 7)):
            t = rng.random()
            if t < 0.35:
                ops.append({'k': 'setr', 'v': rng.choice([1, 100, 0.25, rng.uniform(0.01, 1e4)])})
            elif t < 0.6:
                ops.append({'k': 'setc', 'x': rng.choice([0.0, rng.uniform(-1e3, 1e3)]),
                            'y': rng.choice([0.0, rng.uniform(-1e3, 1e3)])})
            elif t < 0.7:
                ops.append({'k': 'sets', 'v': rng.choice([0.15, 1, rng.uniform(0.01, 2)])})
            elif t < 0.8:
                ops.append({'k': 'setc', 'x': 1.0, 'y': 2.0, 'other': True})         # refused: not a Point2D
            elif t < 0.9:
                ops.append({'k': 'setr', 'v': 'wide'})                               # refused: not a number
            else:
                ops.append({'k': 'sets', 'v': rng.choice([0.3, 2, 0, -1])})     # 0 / -1: refused
            if rng.random() < 0.3:        # input shapes: the number as text / bytes / Fraction / Decimal / bool
                last = ops[-1]
                if last['k'] in ('setr', 'sets') and not isinstance(last['v'], str):
                    v = last['v']
                    kinds = ['text', 'text_padded', 'text_exp', 'fraction', 'decimal'] + \
                        (['bytes'] if v == int(v) else []) + (['bool'] if v == 1 else [])
                    last['as'] = rng.choice(kinds)
                    if last['as'] == 'bytes':
                        last['v'] = int(v)
                    ctx.count('compass_shape:' + last['as'])
            elif rng.random() < 0.1:      # text spelt with an underscore / non-ASCII digits / exponent / refused text
                ops.append({'k': 'setr', 'v': rng.choice(['1_0', '\u0663', '1E2', '2.5e-1', '+7', 'nan', '-3', '1,5',
                                                            '', '0x10'][:9 if i % 2 else 10])})
                ctx.count('compass_shape:literal_text')
            if rng.random() < 0.25:
                ops.append({'k': 'dup'})
            ops.append({'k': rng.choice(['reads', 'reado'])})
        out.append({'r0': r0, 'cx0': cx0, 'cy0': cy0, 'ops': ops})
    # refused radius (zero / negative): the code keeps the refused number (known finding) - a few only
    for v in (-5, 0, -0.0, -1e-9)[:ctx.n(2, 4)]:
        out.append({'r0': 100, 'cx0': 0.0, 'cy0': 0.0,
                    'ops': [{'k': 'reads'}, {'k': 'setr', 'v': v}, {'k': 'reads'}, {'k': 'reado'}]})
    return out


# --- process-order independence: the same cases in fresh interpreters, in different orders

_ROOT = os.path.dirname(os.path.dirname(os.path.dirname(os.path.abspath(__file__))))


def _worker_main():
    """Entry point of a fresh interpreter: evaluate the cases read from stdin in the given order."""
    sys.path.insert(0, os.environ.get('LADYBUG_REPO', '/repo'))
    data = json.load(sys.stdin)
    out = []
    for i, (op, inp) in enumerate(data['cases']):
        try:
            res = check_case(op, inp)
        except Exception as e:
            res = {'required': 'the case evaluates', 'observed': 'exception %s: %s' % (type(e).__name__, e),
                   'sig': {'what': 'raises', 'exception': type(e).__name__}}
        if res:
            out.append([i, res])
            if len(out) >= 3:
                break
    sys.stdout.write('\n@@C20WORKER@@' + json.dumps(out, default=str))


def _run_in_fresh_process(cases):
    """First failures [[index, result], ...] of the ordered cases in a fresh interpreter."""
    code = ('import sys; sys.path.insert(0, %r); from harness.props import c20; c20._worker_main()' % _ROOT)
    env = dict(os.environ)
    env.setdefault('LADYBUG_REPO', core.REPO)
    pr = subprocess.run([sys.executable, '-c', code], input=json.dumps({'cases': cases}), env=env,
                        capture_output=True, text=True, timeout=600)
    if '@@C20WORKER@@' not in pr.stdout:
        return [[-1, {'required': 'the interpreter finishes the cases', 'observed': (pr.stderr or pr.stdout)[-400:],
                      'sig': {'what': 'process_died'}}]]
    return json.loads(pr.stdout.split('@@C20WORKER@@')[-1])


def _check_process_order(inp, bad):
    res = _run_in_fresh_process(inp['order'])
    if not res:
        return None
    i, r = res[0]
    sig = dict(r.get('sig') or {})
    what = sig.pop('what', 'failure')
    sig.pop('op', None)
    sig['case_op'] = inp['order'][i][0] if i >= 0 else 'none'
    return bad('in_process_order:' + what, 'case %d (%s) of the order holds in a fresh process: %s'
               % (i, json.dumps(inp['order'][i], default=str)[:300] if i >= 0 else '-', r.get('required')),
               r.get('observed'), **sig)


def _shrink_order(order, index):
    """Try to cut the order down to the failing case and (one of) the earlier cases it depends on."""
    fail = order[index]
    if _run_in_fresh_process([fail]):
        return [fail]
    prefix = order[:index]
    tries = 0
    while len(prefix) > 1 and tries < 5:
        half = len(prefix) // 2
        tries += 1
        if _run_in_fresh_process(prefix[half:] + [fail]):
            prefix = prefix[half:]
        elif _run_in_fresh_process(prefix[:half] + [fail]):
            prefix = prefix[:half]
        else:
            break
    return prefix + [fail]

# ---------------------------------------------------------------------------------------------
# correspondence


def compare_floats(ctx, op, cases, model_line, impl_fn, tol, key=None):
    """Like core.compare_batch, for responses `ok <float bits>...`: compared numerically (relative tol)."""
    lines = [model_line(c) for c in cases]
    outs = ctx.driver().run(lines)
    for c, line, mo in zip(cases, lines, outs):
        try:
            io = impl_fn(c)
        except Exception as e:
            io = 'err:' + err_name(e)
        ctx.compared += 1
        ctx.count('op:' + op)
        ctx.case((op, key(c) if key else line), nontrivial=not io.startswith('err:'))
        if io.startswith('err:'):
            ctx.count('err_results')
        same = mo == io
        if not same and mo.startswith('ok') and io.startswith('ok'):
            a, b = mo.split()[1:], io.split()[1:]
            if len(a) == len(b):
                same = True
                for x, y in zip(a, b):
                    if x == y:
                        continue
                    fx, fy = _unbits(x), _unbits(y)
                    if not (abs(fx - fy) <= tol * max(abs(fx), abs(fy), 1e-300)):
                        same = False
                        break
        if not same:
            ctx.disagree(op, {'case': c, 'line': line}, mo[:300], io[:300])
    if cases:
        ctx.sample({'op': op, 'request': lines[0], 'model': outs[0][:120]})


def _show_shape(mesh, vecs):
    return 'ok %d %d %d %s' % (len(mesh.vertices), len(mesh.faces), len(vecs),
                               ' '.join(','.join(str(i) for i in f) for f in mesh.faces))


def _measure_layout(mesh):
    """Row structure of a dome mesh read off its vertices: (rows, den) with row i spanning the altitudes
    [i pi/den, (i+1) pi/den]; None when the quads do not form such rows."""
    vs = mesh.vertices
    rows, lows, highs = [], [], []
    for f in mesh.faces:
        if len(f) != 4:
            continue
        lo, hi = vs[f[0]].z, vs[f[1]].z
        if rows and abs(lo - lows[-1]) < 1e-9 and abs(hi - highs[-1]) < 1e-9:
            rows[-1] += 1
        else:
            rows.append(1)
            lows.append(lo)
            highs.append(hi)
    if not rows or not (0 < highs[0] < 1):
        return None
    den = int(round(math.pi / math.asin(highs[0])))
    for i, (lo, hi) in enumerate(zip(lows, highs)):
        if abs(lo - math.sin(i * math.pi / den)) > 1e-9 or abs(hi - math.sin((i + 1) * math.pi / den)) > 1e-9:
            return None
    return rows, den


def _show_table(t):
    fr = [Fraction(repr(float(x))) for x in t]
    runs = []
    for x in fr:
        if runs and runs[-1][0] == x:
            runs[-1][1] += 1
        else:
            runs.append([x, 1])

    def rat(q):
        return '%d' % q.numerator if q.denominator == 1 else '%d/%d' % (q.numerator, q.denominator)
    return '%d:%s' % (len(fr), ';'.join('%s*%d' % (rat(q), k) for q, k in runs))


def _sun(alt, az):
    from ladybug.sunpath import Sun
    return Sun(datetime(2017, 6, 21, 12), alt, az, False, False, 0)


def _division_cases(ctx):
    top = 6 if ctx.quick else 8
    ns = list(range(1, top + 1))
    return [(n, ip) for n in ns for ip in (False, True)]


def _offsets(ctx, rng, n, ip):
    """Offset angles: plain, and the rounding boundaries (k + 1/2) rows of the band."""
    rows = 7 * n if n != 1 else 7
    den = (2 * rows + n) if ip else (2 * rows + 1)
    out = [0, 0.0, 1, 5, 6, 12, 30, 45, 60, 89, 90, 90.0, 30.5]
    for _ in range(ctx.n(6, 30)):
        k = rng.randrange(0, rows + 2)
        edge = (k + 0.5) * 180.0 / den
        out += [edge, edge + rng.choice([1e-9, -1e-9, 1e-13, -1e-13]), rng.uniform(0, 90)]
    return out


def correspondence(ctx):
    from ladybug.viewsphere import ViewSphere
    from ladybug.compass import Compass
    from ladybug_geometry.geometry3d.pointvector import Point3D
    from ladybug_geometry.geometry2d.pointvector import Point2D
    rng = ctx.rng
    vs = ViewSphere()
    div = _division_cases(ctx)
    bad_div = [(0, False), (0, True), (-1, False), (-1, True)]

    # --- row layout
    cases = list(range(-2, 13))
    compare_batch(ctx, 'rows', cases, lambda c: 'rows %d' % c,
                  lambda c: 'ok ' + ' '.join(str(x) for x in ViewSphere._patch_row_count_array(c)))

    def impl_layout(c):
        m, _ = vs.dome_patches(c[0], c[1])
        r = _measure_layout(m)
        if r is None:
            return 'ok inconsistent'
        return 'ok %d %d %s' % (len(r[0]), r[1], ' '.join(str(x) for x in r[0]))
    compare_batch(ctx, 'layout', div, lambda c: 'layout %d %s' % (c[0], _b(c[1])), impl_layout)

    # --- mesh index structure, vector counts
    for c in div:
        ctx.count('division_count:%d' % c[0])
    compare_batch(ctx, 'dome', div + bad_div, lambda c: 'dome %d %s' % (c[0], _b(c[1])),
                  lambda c: _show_shape(*vs.dome_patches(c[0], c[1])))
    sph = [c for c in div if c[0] <= (4 if ctx.quick else 8)] + bad_div
    compare_batch(ctx, 'sphere', sph, lambda c: 'sphere %d %s' % (c[0], _b(c[1])),
                  lambda c: _show_shape(*vs.sphere_patches(c[0], c[1])))
    special = [1, 2, 3, 18, 72, 144]
    rad = [(a, b) for a in special for b in special if a * b <= (5000 if ctx.quick else 30000)]
    rad += [(rng.randrange(1, 145), rng.randrange(1, 145)) for _ in range(ctx.n(6, 60))]
    rad = [c for c in rad if c[0] * c[1] <= (5000 if ctx.quick else 30000)]
    rad += [(rng.choice([1, 2, 3, 5]), alt) for alt in range(2, 145)]       # every altitude count (numeric edges)
    rad += [(az, rng.choice([2, 3, 4])) for az in range(1, 145, 1 if not ctx.quick else 3)]
    rad += [(0, 3), (3, 0), (0, 0), (1, 1), (5, 1), (144, 1)]
    for c in rad:
        ctx.count('radial:alt=1' if c[1] == 1 else 'radial:zero' if 0 in c else 'radial:regular')
    compare_batch(ctx, 'radial', rad, lambda c: 'radial %d %d' % c,
                  lambda c: _show_shape(*vs.dome_radial_patches(c[0], c[1])))

    # --- weights (floats)
    flag = _weights_take_flag()
    ctx.count('weights_api:with_subdivide_in_place' if flag else 'weights_api:default_mode_only')
    wdiv = div + [(-1, False), (-1, True), (0, False), (0, True)]
    if not flag:
        wdiv = [c for c in wdiv if not c[1]]
    compare_floats(ctx, 'weights', wdiv, lambda c: 'weights %d %s' % (c[0], _b(c[1])),
                   lambda c: 'ok ' + ' '.join(_fbits(x) for x in vs.dome_patch_weights(*_flag_args(*c))),
                   1e-12)
    compare_floats(ctx, 'sphere_weights', wdiv, lambda c: 'sphere_weights %d %s' % (c[0], _b(c[1])),
                   lambda c: 'ok ' + ' '.join(_fbits(x) for x in vs.sphere_patch_weights(*_flag_args(*c))),
                   1e-12)
    rw = [c for c in rad if c[0] * c[1] <= 5000]
    compare_floats(ctx, 'radial_weights', rw, lambda c: 'radial_weights %d %d' % c,
                   lambda c: 'ok ' + ' '.join(_fbits(x) for x in vs.dome_radial_patch_weights(c[0], c[1])),
                   1e-12)

    # --- horizontal band: counts and weights
    oc = []
    for n, ip in [c for c in div if c[0] <= (3 if ctx.quick else 6)]:
        for off in _offsets(ctx, rng, n, ip):
            oc.append((off, n, ip))
    oc += [(-12.0, 1, False), (-30, 2, True), (120.0, 1, False), (float('nan'), 1, False),
           (float('inf'), 1, False), (30, 0, True), (30, 0, False)]
    for c in oc:
        ctx.count('offset:malformed' if not (isinstance(c[0], (int, float)) and 0 <= c[0] <= 90) else 'offset:0..90')

    def line3(op):
        return lambda c: '%s %s %d %s' % (op, _fbits(c[0]), c[1], _b(c[2]))

    def impl_offset_patches(c):
        m, v = vs.horizontal_radial_patches(c[0], c[1], c[2])
        return 'ok %d %d' % (len(v), len(m.faces))

    def impl_offset_weights(c):
        args = (c[0], c[1], True) if c[2] else (c[0], c[1])
        return 'ok ' + ' '.join(_fbits(x) for x in vs.horizontal_radial_patch_weights(*args))
    kf = lambda c: (repr(c[0]), c[1], c[2])
    compare_batch(ctx, 'offset_patches', oc, line3('offset_patches'), impl_offset_patches, key=kf)
    compare_floats(ctx, 'offset_weights', [c for c in oc if flag or not c[2]], line3('offset_weights'),
                   impl_offset_weights, 1e-12, key=kf)

    # --- tabulated solid angles: every read order on a fresh object
    seqs = [[]]
    for ln in range(1, 5):
        seqs += [[(k >> i) & 1 for i in range(ln)] for k in range(2 ** ln)]
    seqs = [s for s in seqs if s]

    def impl_reads(seq):
        o = ViewSphere()
        return 'ok ' + ' '.join(_show_table(o.reinhart_solid_angles if b else o.tregenza_solid_angles)
                                for b in seq)
    compare_batch(ctx, 'sa_reads', seqs, lambda s: 'sa_reads ' + ' '.join(str(b) for b in s), impl_reads,
                  key=lambda s: tuple(s))

    # --- all lazily built properties: read orders on fresh objects and on the (fresh) module singleton
    lz = [{'order': ['tregenza_dome_mesh_high_res', 'tregenza_dome_vectors'], 'singleton': True}]
    lz += _lazy_sequences(ctx, rng, pairs=True)
    for c in lz:
        ctx.count('lazy_reads:singleton' if c['singleton'] else 'lazy_reads:fresh_object')
        ctx.count('lazy_reads:length_%s' % (len(c['order']) if len(c['order']) < 3 else '3+'))

    def impl_lazy(c):
        o, _ = _lazy_object(c['singleton'])
        return 'ok ' + ' '.join(_fingerprint(getattr(o, name)) for name in c['order'])
    compare_batch(ctx, 'lazy_reads', lz, lambda c: 'lazy_reads ' + ' '.join(c['order']), impl_lazy,
                  key=lambda c: (c['singleton'], tuple(c['order'])))


    # --- histories on ONE object: the model's object state machine vs the real object, step by step
    hs = _histories(ctx, rng, full=not ctx.quick)
    if ctx.quick and not ctx.searching:      # the oracle runs a full set of its own; here every second one
        hs = hs[::2]
    for h, stratum in hs:
        ctx.count('hist:' + stratum)
        ctx.count('hist_object:' + h['object'])
    compare_batch(ctx, 'hist', [h for h, _ in hs if h['ops']],
                  lambda c: 'hist ' + ' '.join(_op_tok(o) for o in c['ops']),
                  lambda c: 'ok ' + ' '.join(_run_history(c)), key=lambda c: json.dumps(c, sort_keys=True, default=str))

    # --- one Compass object: setters (accepted / refused) and reads of the altitude circles
    chs = _compass_histories(ctx, rng)
    lines = ['chist %s %s %s %s' % (_fbits(c['r0']), _fbits(c['cx0']), _fbits(c['cy0']),
                                    ' '.join(_compass_tok(o) for o in c['ops'])) for c in chs]
    outs = ctx.driver().run(lines)
    for c, line, mo in zip(chs, lines, outs):
        try:
            io = 'ok ' + ' '.join(_run_compass_history(c))
        except Exception as e:
            io = 'err:' + err_name(e)
        ctx.compared += 1
        ctx.count('op:chist')
        ctx.case(('chist', line))
        if not _same_chist(mo, io):
            ctx.disagree('chist', {'case': c, 'line': line}, mo[:300], io[:300])

    # --- projections (bit-exact)
    pts = list(_proj_points(rng, ctx.n(3000, 40000)))
    compare_floats(ctx, 'ortho', pts, lambda c: 'ortho ' + ' '.join(_fbits(x) for x in c['p']),
                   lambda c: _show_pt2(Compass.point3d_to_orthographic(Point3D(*c['p']))), 0.0,
                   key=lambda c: repr(c))
    zero_den = [{'p': [1.0, 2.0, -5.0], 'r': 5.0, 'o': [0.0, 0.0, 0.0]},
                {'p': [0.5, 0.25, 1.0], 'r': 1.0, 'o': [0.0, 0.0, 2.0]}]
    compare_floats(ctx, 'stereo', pts + zero_den,
                   lambda c: 'stereo ' + ' '.join(_fbits(x) for x in c['p'] + [c['r']] + c['o']),
                   lambda c: _show_pt2(Compass.point3d_to_stereographic(Point3D(*c['p']), c['r'], Point3D(*c['o']))),
                   0.0, key=lambda c: repr(c))
    suns = []
    for _ in range(ctx.n(1500, 20000)):
        alt = rng.choice([0, 90, 0.0, 45, rng.uniform(0, 90), rng.uniform(-90, 90)])
        az = rng.choice([0, 90, 180, 270, 360, rng.uniform(0, 360)])
        r = rng.choice([100, 1, 1.0, 0.5, rng.uniform(0.01, 1e4)])
        ox, oy = rng.choice([(0, 0), (0.0, 0.0), (rng.uniform(-1e3, 1e3), rng.uniform(-1e3, 1e3))])
        suns.append((alt, az, r, ox, oy))

    def sun_line(op):
        def f(c):
            v = _sun(c[0], c[1]).sun_vector_reversed
            return op + ' ' + ' '.join(_fbits(x) for x in (v.x, v.y, v.z, c[2], c[3], c[4]))
        return f
    compare_floats(ctx, 'pos2d_ortho', suns, sun_line('pos2d_ortho'),
                   lambda c: _show_pt2(_sun(c[0], c[1]).position_2d('Orthographic', Point2D(c[3], c[4]), c[2])),
                   0.0, key=lambda c: repr(c))
    compare_floats(ctx, 'pos2d_stereo', suns, sun_line('pos2d_stereo'),
                   lambda c: _show_pt2(_sun(c[0], c[1]).position_2d('stereographic', Point2D(c[3], c[4]), c[2])),
                   0.0, key=lambda c: repr(c))


def _same_chist(mo, io, tol=1e-12):
    a, b = mo.split(), io.split()
    if len(a) != len(b):
        return False
    for x, y in zip(a, b):
        if x == y:
            continue
        if not (x.startswith('circles:') and y.startswith('circles:')):
            return False
        fx = [_unbits(t) for t in x[8:].replace(':', ',').split(',')]
        fy = [_unbits(t) for t in y[8:].replace(':', ',').split(',')]
        if len(fx) != len(fy) or any(abs(p - q) > tol * max(abs(p), abs(q), 1e-300) for p, q in zip(fx, fy)):
            return False
    return True


def _show_pt2(p):
    return 'ok %s %s' % (_fbits(p.x), _fbits(p.y))


def _proj_points(rng, count):
    """Points on upper hemispheres of random radius/origin, built with stdlib trigonometry."""
    for i in range(count):
        r = rng.choice([1.0, 100.0, 0.001, 1e6, rng.uniform(0.01, 1e4), rng.uniform(0.01, 1e4),
                        rng.choice([1e-12, 1e-9, 1e-6, 1e9, 1e12, 1e16])])     # magnitudes 1e-12 .. 1e+16
        if rng.random() < 0.4:
            o = [0.0, 0.0, 0.0]
        else:
            o = [rng.choice([0.0, rng.uniform(-100, 100) * r, rng.uniform(0.1, 3) * r * rng.choice([-1, 1])])
                 for _ in range(3)]
        t = rng.random()
        alt = 0.0 if t < 0.1 else math.pi / 2 if t < 0.2 else rng.uniform(0, math.pi / 2)
        az = rng.choice([0.0, math.pi / 2, math.pi, rng.uniform(0, TWO_PI)])
        p = [o[0] + r * math.cos(alt) * math.sin(az), o[1] + r * math.cos(alt) * math.cos(az),
             o[2] + r * abs(math.sin(alt))]
        yield {'p': p, 'r': r, 'o': o}


# ---------------------------------------------------------------------------------------------
# property oracle: the statement of C20 evaluated on the real code, independent of the model


def _az(x, y):
    """Azimuth clockwise from north (+y)."""
    return math.atan2(x, y) % TWO_PI


def _face_cell(verts, face):
    """(az_start, az_width, z_lo, z_hi) of a quad (a, b, c, d) = (lower-left, upper-left, upper-right,
    lower-right) or of a cap triangle (left, apex, right), measured on the vertices themselves."""
    if len(face) == 4:
        a, b, c, d = (verts[i] for i in face)
        a0, a1 = _az(a.x, a.y), _az(d.x, d.y)
        z_lo, z_hi = min(a.z, d.z), max(b.z, c.z)
    else:
        a, apex, d = (verts[i] for i in face)
        a0, a1 = _az(a.x, a.y), _az(d.x, d.y)
        z_lo, z_hi = min(a.z, d.z), apex.z
    width = (a1 - a0) % TWO_PI
    if width < 1e-12:
        width = TWO_PI            # one patch around the whole circle
    return a0, width, z_lo, z_hi


def _vector_problem(v, cell, strict_up=True):
    a0, width, z_lo, z_hi = cell
    mag = math.sqrt(v.x * v.x + v.y * v.y + v.z * v.z)
    if abs(mag - 1) > 1e-9:
        return 'not unit (%r)' % mag
    if (v.z <= 0) if strict_up else (v.z < -1e-12):
        return 'not in the upper hemisphere (z=%r)' % v.z
    if not (z_lo - 1e-9 <= v.z <= z_hi + 1e-9):
        return 'altitude outside its patch (z=%r not in [%r, %r])' % (v.z, z_lo, z_hi)
    if math.hypot(v.x, v.y) > 1e-9 and width < TWO_PI - 1e-9:
        d = (_az(v.x, v.y) - a0) % TWO_PI
        if d > width + 1e-9 and d < TWO_PI - 1e-9:
            return 'azimuth outside its patch'
    return None


def _dome_solid_angles(mesh, patch_count):
    """True solid angle of every generated patch (from the mesh vertices): quads one by one, the trailing
    triangles together form the zenith patch."""
    verts, faces = mesh.vertices, mesh.faces
    quads = faces[:patch_count - 1]
    tris = faces[patch_count - 1:]
    if any(len(f) != 4 for f in quads) or any(len(f) != 3 for f in tris) or not tris:
        return None
    omegas = []
    for f in quads:
        a0, width, z_lo, z_hi = _face_cell(verts, f)
        omegas.append(width * (z_hi - z_lo))
    ring = [verts[f[0]].z for f in tris]
    if max(ring) - min(ring) > 1e-9:
        return None
    omegas.append(TWO_PI * (1 - sum(ring) / len(ring)))
    return omegas


def _proportional(weights, omegas, tol=1e-9):
    ratios = [w / o for w, o in zip(weights, omegas)]
    lo, hi = min(ratios), max(ratios)
    return (hi - lo) <= tol * abs(hi), lo, hi


def _mean_one(ws, tol=1e-9):
    return abs(sum(ws) / len(ws) - 1) <= tol


def check_case(op, inp):
    from ladybug.viewsphere import ViewSphere
    from ladybug.compass import Compass
    from ladybug_geometry.geometry3d.pointvector import Point3D
    from ladybug_geometry.geometry2d.pointvector import Point2D
    vs = ViewSphere()

    def bad(what, required, observed, **extra):
        sig = {'what': what}
        sig.update(extra)
        return {'required': required, 'observed': observed, 'sig': sig}

    if op in ('dome', 'sphere'):
        n, ip = inp['n'], bool(inp['in_place'])
        # `flag`: the object handed over as subdivide_in_place (any truthy / falsy object; default: the bool)
        fl = inp['flag'] if 'flag' in inp else ip
        wargs = (n, fl) if 'flag' in inp else _flag_args(n, ip)
        base = {'n': n, 'in_place': ip}
        if 'flag' in inp:
            base['flag_type'] = type(fl).__name__
        want = 144 * n * n + 1
        mesh, vecs = vs.dome_patches(n, fl)
        if len(vecs) != want:
            return bad('patch_count', want, len(vecs), **base)
        if len(mesh.faces) != 144 * n * n + 6 * n:
            return bad('face_count', 144 * n * n + 6 * n, len(mesh.faces), **base)
        omegas = _dome_solid_angles(mesh, want)
        if omegas is None:
            return bad('mesh_rows', 'quads then zenith triangles with a level top ring', 'other', **base)
        if abs(sum(omegas) - TWO_PI) > 1e-9:
            return bad('tiling', 'solid angles of the generated patches sum to 2 pi', sum(omegas), **base)
        if ip:
            # subdividing in place: every n-th row boundary is a Tregenza row boundary (k pi / 15), so that the
            # n x n sub-patches lie inside their own Tregenza patch
            lay = _measure_layout(mesh)
            if lay is None or lay[1] != 15 * n or len(lay[0]) != 7 * n:
                return bad('in_place_rows', '%d rows pi / %d apart (Tregenza rows cut into %d)' % (7 * n, 15 * n, n),
                           'other' if lay is None else '%d rows pi / %d apart' % (len(lay[0]), lay[1]), **base)
        # sampled sub-claim: unit, upward, inside its own patch
        for i, v in enumerate(vecs[:-1]):
            pr = _vector_problem(v, _face_cell(mesh.vertices, mesh.faces[i]))
            if pr:
                return bad('vector', 'unit vector inside patch %d' % i, pr, **base)
        z = vecs[-1]
        if (z.x, z.y, z.z) != (0, 0, 1):
            return bad('vector', 'zenith vector (0,0,1)', (z.x, z.y, z.z), **base)
        if ip and not _weights_take_flag():
            if op == 'dome':
                return None          # no in-place weights can be requested from this tree
        if op == 'dome':
            ws = vs.dome_patch_weights(*wargs)
            if len(ws) != len(vecs):
                return bad('weights_aligned', len(vecs), len(ws), **base)
            if not _mean_one(ws):
                return bad('weights_mean', 1, sum(ws) / len(ws), **base)
            ok, lo, hi = _proportional(ws, omegas)
            if not ok:
                return bad('weights_vs_mesh', 'weight / true solid angle of the generated patch is constant',
                           'ratio ranges over [%r, %r] (x %.4f)' % (lo, hi, hi / lo), **base)
            return None
        smesh, svecs = vs.sphere_patches(n, fl)
        if len(svecs) != 2 * want or len(smesh.faces) != 2 * len(mesh.faces):
            return bad('sphere_count', (2 * want, 2 * len(mesh.faces)), (len(svecs), len(smesh.faces)), **base)
        for i in range(want):
            t, m, d = svecs[i], svecs[want + i], vecs[i]
            if (t.x, t.y, t.z) != (d.x, d.y, d.z) or (m.x, m.y, m.z) != (d.x, d.y, -d.z):
                return bad('sphere_mirror', 'sphere = dome ++ mirrored dome', 'vector %d differs' % i, **base)
        nv = len(mesh.vertices)
        for i in range(0, nv, max(1, nv // 50)):
            t, m = smesh.vertices[i], smesh.vertices[nv + i]
            if (m.x, m.y, m.z) != (t.x, t.y, -t.z):
                return bad('sphere_mirror', 'mirrored vertex', 'vertex %d differs' % i, **base)
        if ip and not _weights_take_flag():
            return None
        ws = vs.sphere_patch_weights(*wargs)
        if len(ws) != len(svecs):
            return bad('weights_aligned', len(svecs), len(ws), **base)
        if not _mean_one(ws):
            return bad('weights_mean', 1, sum(ws) / len(ws), **base)
        ok, lo, hi = _proportional(ws, omegas + omegas)
        if not ok:
            return bad('weights_vs_mesh', 'weight / true solid angle of the generated patch is constant',
                       'ratio ranges over [%r, %r] (x %.4f)' % (lo, hi, hi / lo), **base)
        return None

    if op == 'radial':
        az, alt = inp['azimuth_count'], inp['altitude_count']
        base = {'altitude_count': alt if alt <= 1 else '>1'}
        try:
            mesh, vecs = vs.dome_radial_patches(az, alt)
        except Exception as e:
            return bad('raises', '%d x %d cells' % (az, alt), 'raises %s' % type(e).__name__,
                       error=type(e).__name__, **base)
        if len(vecs) != az * alt or len(mesh.faces) != az * alt:
            return bad('radial_count', az * alt, (len(vecs), len(mesh.faces)), **base)
        cells = [_face_cell(mesh.vertices, f) for f in mesh.faces]
        omegas = [c[1] * (c[3] - c[2]) for c in cells]
        if abs(sum(omegas) - TWO_PI) > 1e-9:
            return bad('tiling', 'cells sum to 2 pi', sum(omegas), **base)
        if az >= 3:     # with 1 or 2 azimuth cells the flat faces are degenerate: no normal to speak of
            # (the statement asks "inside its own patch" of the Tregenza-type domes only; the flat-face normal
            # of a wide radial cell lies below the cell, so only unit length and z > 0 are sampled here)
            for i, v in enumerate(vecs):
                pr = _vector_problem(v, (0.0, TWO_PI, -1.0, 1.0))
                if pr:
                    return bad('vector', 'unit upward vector for cell %d' % i, pr, **base)
        ws = vs.dome_radial_patch_weights(az, alt)
        if len(ws) != len(vecs):
            return bad('weights_aligned', len(vecs), len(ws), **base)
        ok, lo, hi = _proportional(ws, omegas)
        if not ok:
            return bad('weights_vs_mesh', 'weight / true solid angle of the generated cell is constant',
                       'ratio ranges over [%r, %r]' % (lo, hi), **base)
        # dome_radial_patch_weights normalises to *sum* one (asserted by the repository's own test)
        if abs(sum(ws) - 1) > 1e-9:
            return bad('weights_sum', 1, sum(ws), **base)
        return None

    if op == 'offset':
        off, n, ip = inp['offset_angle'], inp['n'], bool(inp['in_place'])
        fl = inp['flag'] if 'flag' in inp else ip
        base = {'n': n, 'in_place': ip}
        if 'flag' in inp:
            base['flag_type'] = type(fl).__name__
        if inp.get('angle_as'):                   # the same number handed over as another numeric type
            off_arg = _number_as(off, inp['angle_as'])
            base['angle_type'] = inp['angle_as']
        else:
            off_arg = off
        rows_n = 7 * n
        den = (2 * rows_n + n) if ip else (2 * rows_n + 1)       # rows are 180 / den degrees high
        try:
            mesh, vecs = vs.horizontal_radial_patches(off_arg, n, fl)
        except Exception:
            if 90.0 / den + 1e-9 < off <= 90:     # more than half a row: the band holds a row and must exist
                raise
            return None        # an empty band (offset 0 or below half a row) has no patches to speak of
        if len(mesh.faces) != len(vecs):
            return bad('offset_faces', len(vecs), len(mesh.faces), **base)
        if hasattr(ViewSphere, '_patch_count_in_radial_offset') and hasattr(ViewSphere, '_patch_row_count_array'):
            # the row layout handed over as a tuple or as a list: the same count, that of the band
            ra = ViewSphere._patch_row_count_array(n)
            counts = [ViewSphere._patch_count_in_radial_offset(off_arg, n, shape(ra), fl) for shape in (tuple, list)]
            if counts[0] != counts[1] or 2 * counts[0] != len(vecs):
                return bad('container', 'band count %d for rows given as tuple and as list' % (len(vecs) // 2),
                           counts, fn='_patch_count_in_radial_offset', **base)
        half = len(vecs) // 2
        for i in range(half):
            m = vecs[half + i]
            if (m.x, m.y, m.z) != (vecs[i].x, vecs[i].y, -vecs[i].z):
                return bad('sphere_mirror', 'lower band mirrors the upper band', 'vector %d' % i, **base)
        # the band reaches up to the offset angle, to within half a row (rows are whole): measured on the mesh
        if 0 <= off <= 90 and len(vecs) >= 2:
            half_n = len(vecs) // 2
            top = max(_face_cell(mesh.vertices, mesh.faces[i])[3] for i in range(half_n))
            top_deg = math.degrees(math.asin(max(-1.0, min(1.0, top))))
            reach = min(off, rows_n * 180.0 / den)           # the quad rows end below the zenith patch
            if abs(top_deg - reach) > 0.5 * 180.0 / den + 1e-6:
                return bad('band_extent', 'band up to %r degrees (rows of %r degrees)' % (off, 180.0 / den),
                           'band ends at %r degrees' % top_deg, **base)
        if ip and not _weights_take_flag():
            return None
        args = (off_arg, n, fl) if (ip or 'flag' in inp) else (off_arg, n)
        try:
            ws = vs.horizontal_radial_patch_weights(*args)
        except ZeroDivisionError:
            return bad('weights_aligned', '%d weights for the %d patches of the band' % (len(vecs), len(vecs)),
                       'raises ZeroDivisionError', **base)
        if len(ws) != len(vecs):
            return bad('weights_aligned', len(vecs), len(ws), **base)
        if not _mean_one(ws):
            return bad('weights_mean', 1, sum(ws) / len(ws), **base)
        half = len(vecs) // 2
        omegas = []
        for i in range(half):
            cell = _face_cell(mesh.vertices, mesh.faces[i])
            omegas.append(cell[1] * (cell[3] - cell[2]))
            pr = _vector_problem(vecs[i], cell)
            if pr:
                return bad('vector', 'unit vector inside patch %d' % i, pr, **base)
            m = vecs[half + i]
            if (m.x, m.y, m.z) != (vecs[i].x, vecs[i].y, -vecs[i].z):
                return bad('sphere_mirror', 'lower band mirrors the upper band', 'vector %d' % i, **base)
        ok, lo, hi = _proportional(ws, omegas + omegas)
        if not ok:
            return bad('weights_vs_mesh', 'weight / true solid angle of the generated patch is constant',
                       'ratio ranges over [%r, %r] (x %.4f)' % (lo, hi, hi / lo), **base)
        return None

    if op == 'tables':
        order = inp['order']
        o = ViewSphere()
        got = {}
        for b in order:
            t = o.reinhart_solid_angles if b else o.tregenza_solid_angles
            if not isinstance(t, (tuple, list)):
                return bad('table_aligned', 'a table of solid angles', repr(t)[:60],
                           table='reinhart' if b else 'tregenza',
                           first_read='reinhart' if order[0] else 'tregenza')
            got[b] = tuple(t)
        for b in sorted(got):
            name = 'reinhart' if b else 'tregenza'
            n = 2 if b else 1
            base = {'table': name, 'first_read': 'reinhart' if order[0] else 'tregenza'}
            mesh, vecs = vs.dome_patches(n)
            if len(got[b]) != len(vecs):
                return bad('table_aligned', '%s table has %d entries' % (name, len(vecs)), len(got[b]), **base)
            omegas = _dome_solid_angles(mesh, len(vecs))
            ok, lo, hi = _proportional(got[b], omegas, 1e-6)
            if not ok or abs(lo - 1) > 1e-6:
                return bad('table_vs_mesh', 'tabulated solid angle = true solid angle of the generated patch '
                           '(1e-6)', 'ratio ranges over [%r, %r]' % (lo, hi), **base)
            if abs(sum(got[b]) - TWO_PI) > 1e-6:
                return bad('table_sum', TWO_PI, sum(got[b]), **base)
        return None

    if op == 'lazy':
        order, singleton = inp['order'], bool(inp.get('singleton'))
        o, cls = _lazy_object(singleton)
        plain = cls()        # the plain functions on another object: what the properties must agree with
        n_of = {'tregenza': 1, 'reinhart': 2}

        def required(name):
            fam, rest = name.split('_', 1)
            n = n_of[fam]
            pc = 144 * n * n + 1
            if rest == 'dome_vectors':
                return pc, _vec_key(plain.dome_patches(n)[1])
            if rest == 'sphere_vectors':
                return 2 * pc, _vec_key(plain.sphere_patches(n)[1])
            if rest == 'dome_mesh':
                return pc - 1 + 6 * n, _mesh_key(plain.dome_patches(n)[0])
            if rest == 'dome_mesh_high_res':      # 3 x 3 quads per patch, 18 triangles for the zenith patch
                return 144 * 9 + 18, _mesh_key(plain.dome_patches(3, True)[0])
            if rest == 'sphere_mesh':
                return 2 * (pc - 1 + 6 * n), _mesh_key(plain.sphere_patches(n)[0])
            return pc, None                        # solid angles: one per vector

        def observe(name, before):
            val = getattr(o, name)
            count, ref = required(name)
            base = {'property': name, 'singleton': singleton}
            if val is None:
                return bad('lazy_property', '%s with %d entries' % (name, count), 'None', **base)
            got = len(val.faces) if hasattr(val, 'faces') else len(val)
            if got != count:
                return bad('lazy_property', '%s has %d entries' % (name, count),
                           '%d entries after reading %s' % (got, before or 'nothing'), **base)
            if ref is not None:
                key = _mesh_key(val) if hasattr(val, 'faces') else _vec_key(val)
                if key != ref:
                    return bad('lazy_property', '%s equals the result of the plain function' % name,
                               'different content after reading %s' % (before or 'nothing'), **base)
            return None
        seen = []
        for name in order:
            res = observe(name, seen)
            if res:
                return res
            seen.append(name)
        # afterwards: vectors, mesh, tabulated solid angles and weights of each family align one-to-one
        for fam, n in sorted(n_of.items()):
            for name in (fam + '_dome_vectors', fam + '_dome_mesh', fam + '_solid_angles'):
                res = observe(name, seen)
                if res:
                    return res
            vecs, mesh = getattr(o, fam + '_dome_vectors'), getattr(o, fam + '_dome_mesh')
            sa, ws = getattr(o, fam + '_solid_angles'), o.dome_patch_weights(n)
            base = {'property': fam + '_dome_vectors', 'singleton': singleton}
            if not (len(vecs) == len(sa) == len(ws)):
                return bad('lazy_aligned', 'one vector per solid angle and weight',
                           (len(vecs), len(sa), len(ws)), **base)
            normals = mesh.face_normals
            for i in range(len(vecs) - 1):
                if (vecs[i].x, vecs[i].y, vecs[i].z) != (normals[i].x, normals[i].y, normals[i].z):
                    return bad('lazy_aligned', 'vector %d is the normal of patch %d of the mesh' % (i, i),
                               'differs after reading %s' % seen, **base)
        return None

    if op == 'hist':
        return _check_history(inp, bad)

    if op == 'compass':
        return _check_compass(inp, bad)

    if op == 'procorder':
        return _check_process_order(inp, bad)

    if op == 'projseq':
        # the same point asked for several spheres through it, in one process (also the same question twice)
        P = inp['p']
        for k, (r, alt, az) in enumerate(inp['queries']):
            d = (math.cos(alt) * math.sin(az), math.cos(alt) * math.cos(az), math.sin(alt))
            o = [P[0] - r * d[0], P[1] - r * d[1], P[2] - r * d[2]]
            if alt < 0:                       # the projection pole (division by zero): a refused question
                try:
                    Compass.point3d_to_stereographic(Point3D(*P), r, Point3D(P[0], P[1], P[2] + r))
                except Exception:
                    pass
                continue
            res = check_case('proj', {'p': P, 'r': r, 'o': o})
            if res:
                res['sig']['query'] = 'first' if k == 0 else 'later'
                res['observed'] = '%s (query %d of the sequence)' % (res['observed'], k)
                return res
        return None

    if op == 'sunseq':
        # ONE Sun object asked for several origins / radii / projections, in any order and repeatedly
        from ladybug.sunpath import Sun
        north = inp.get('north', 0)
        s = Sun(datetime(2017, 6, 21, 12), inp['altitude'], inp['azimuth'], False, False, north)
        ar, zr = math.radians(inp['altitude']), math.radians(inp['azimuth'] - north)
        d = (math.cos(ar) * math.sin(zr), math.cos(ar) * math.cos(zr), math.sin(ar))
        for k, (name, ox, oy, r) in enumerate(inp['queries']):
            scale = r + abs(ox) + abs(oy)
            if name == 'Mercator':            # a refused question in between: nothing to require of it
                try:
                    s.position_2d(name, Point2D(ox, oy), r)
                except Exception:
                    pass
                continue
            base = {'projection': name.lower(), 'query': 'first' if k == 0 else 'later',
                    'north': 'zero' if north == 0 else 'rotated'}
            if name == '3d':
                q = s.position_3d(Point3D(ox, oy, 0), r)
                got, want = (q.x, q.y, q.z), (ox + r * d[0], oy + r * d[1], r * d[2])
            else:
                q = s.position_2d(name, Point2D(ox, oy), r)
                kk = 1.0 if name.lower() == 'orthographic' else 1.0 / (1.0 + d[2])
                got, want = (q.x, q.y), (ox + r * kk * d[0], oy + r * kk * d[1])
                if math.hypot(q.x - ox, q.y - oy) > r + 1e-9 * scale:
                    return bad('outside_circle', 'image within radius %r of (%r, %r)' % (r, ox, oy),
                               got, **base)
            if max(abs(a - b) for a, b in zip(got, want)) > 1e-9 * scale:
                return bad('sun_position', 'query %d %s: %r' % (k, name, want), got, **base)
        return None

    if op == 'containers':
        # kind (f) / (i): a sequence argument handed over as list / tuple / generator / iter / map / dict view /
        # deque gives the same answer (one-shot iterables are not used up by an earlier pass), asked twice
        from ladybug.sunpath import Sunpath
        from ladybug_geometry.geometry3d.polyline import Polyline3D
        r, ox, oy, name, kind = inp['r'], inp['ox'], inp['oy'], inp['projection'], inp['container']
        base = {'container': kind, 'projection': name.lower()}
        scale = r + abs(ox) + abs(oy)
        plines, wants = [], []
        for line in inp['lines']:
            pts, w = [], []
            for alt, az in line:
                d = (math.cos(alt) * math.sin(az), math.cos(alt) * math.cos(az), math.sin(alt))
                pts.append(Point3D(ox + r * d[0], oy + r * d[1], r * d[2]))
                k = 1.0 if name.lower() == 'orthographic' else 1.0 / (1.0 + d[2])
                w.append((ox + r * k * d[0], oy + r * k * d[1]))
            plines.append(Polyline3D(pts))
            wants.append(w)
        for ask in (0, 1):
            got = Sunpath._project_polyline_to_2d(_as_container(plines, kind), name, r, Point3D(ox, oy, 0))
            got = list(got)
            if len(got) != len(wants):
                return bad('container', '%d projected polylines' % len(wants), '%d (ask %d)' % (len(got), ask),
                           fn='_project_polyline_to_2d', **base)
            for w, pl in zip(wants, got):
                vs2 = pl.vertices
                if len(vs2) != len(w) or any(abs(a.x - b[0]) > 1e-9 * scale or abs(a.y - b[1]) > 1e-9 * scale
                                             for a, b in zip(vs2, w)):
                    return bad('container', 'projected vertices %r' % (w[:2],),
                               [(a.x, a.y) for a in vs2][:2], fn='_project_polyline_to_2d', **base)
        # Compass label points: the angles in any container (single pass)
        angles = inp['angles']
        # (the constructor numbers also as text: float()-ed by the setters)
        c = Compass(inp.get('radius_as', r), Point2D(ox, oy), inp.get('north', 0), inp.get('spacing', 0.15))
        ref = [(q.x, q.y) for q in c.label_points_from_angles(list(angles))]
        got = [(q.x, q.y) for q in c.label_points_from_angles(_as_container(angles, kind))]
        if got != ref:
            return bad('container', '%d label points as for a list' % len(ref), '%d points / other points' % len(got),
                       fn='label_points_from_angles', **base)
        if kind in ('list', 'tuple', 'deque', 'dict_keys'):      # re-iterable containers only (two passes)
            t1 = c.ticks_from_angles(_as_container(angles, kind))
            t2 = c.ticks_from_angles(list(angles))
            if len(t1) != len(angles) or [(t.p1.x, t.p1.y, t.p2.x, t.p2.y) for t in t1] != \
                    [(t.p1.x, t.p1.y, t.p2.x, t.p2.y) for t in t2]:
                return bad('container', '%d ticks as for a list' % len(angles), len(t1), fn='ticks_from_angles', **base)
        return None

    if op == 'polyline2d':
        # consumers of both projections: Sunpath.day_polyline2d (and, for some cases, monthly_day_polyline2d and
        # hourly_analemma_polyline2d) = the projected vertices of the corresponding 3D paths, which lie on the
        # sphere of the given radius around the origin; the same Sunpath is asked for a second origin / radius
        # and then for the first again
        from ladybug.sunpath import Sunpath
        div = inp.get('divisions', 10)
        sp = Sunpath(inp['lat'], inp['lon'], inp['tz'], inp.get('north', 0))
        first = (inp['r'], inp['ox'], inp['oy'])

        def compare(v3, pl2, name, r, ox, oy, base):
            scale = r + abs(ox) + abs(oy)
            if pl2 is None or len(pl2.vertices) != len(v3):
                return bad('polyline2d', '%d projected vertices' % len(v3),
                           None if pl2 is None else len(pl2.vertices), **base)
            for q3, q2 in zip(v3, pl2.vertices):
                c = (q3.x - ox, q3.y - oy, q3.z)
                # (analemmas are cut at the horizon by linear interpolation: their end points lie inside the sphere)
                if abs(math.sqrt(c[0] ** 2 + c[1] ** 2 + c[2] ** 2) - r) > \
                        (0.1 * r if base.get('path') == 'analemma' else 1e-6 * scale):
                    return bad('arc3d', 'sun path on the sphere of radius %r around (%r, %r, 0)' % (r, ox, oy),
                               (q3.x, q3.y, q3.z), **base)
                k = 1.0 if name == 'Orthographic' else r / (r + c[2])
                want = (ox + k * c[0], oy + k * c[1])
                if abs(want[0] - q2.x) > 1e-9 * scale or abs(want[1] - q2.y) > 1e-9 * scale:
                    return bad('polyline2d', 'vertex %r' % (want,), (q2.x, q2.y), **base)
                if c[2] >= -0.02 * r and math.hypot(q2.x - ox, q2.y - oy) > 1.02 * r + 1e-9 * scale:
                    return bad('outside_circle', 'sun path within the compass circle (radius %r)' % r,
                               (q2.x, q2.y), **base)
            return None

        asks = (first, (2 * first[0], first[1] + first[0], first[2] - 3 * first[0]), first)
        for ask, (r, ox, oy) in enumerate(asks):
            arc = sp.day_arc3d(inp['month'], inp['day'], Point3D(ox, oy, 0), r)
            _POLY_SEEN['arc'] = 'no_arc(sun never up: None)' if arc is None else 'arc'
            if ask == 1:                 # a refused question in between (unsupported projection): the else branch
                try:
                    sp.day_polyline2d(inp['month'], inp['day'], 'Mercator', Point2D(ox, oy), r)
                except Exception:
                    pass
            for name in ('Orthographic', 'Stereographic', 'stereographic'):
                base = {'projection': name.lower(), 'query': 'first' if ask == 0 else 'later', 'path': 'day'}
                pl2 = sp.day_polyline2d(inp['month'], inp['day'], name, Point2D(ox, oy), r, divisions=div)
                if arc is None:
                    if pl2 is not None:
                        return bad('polyline2d', 'no path (sun never up)', 'a polyline', **base)
                    continue
                res = compare(arc.to_polyline(div, interpolated=True).vertices, pl2, name, r, ox, oy, base)
                if res:
                    return res
            if inp.get('all_paths') and ask < 2:
                for name in ('Orthographic', 'Stereographic'):
                    base = {'projection': name.lower(), 'query': 'first' if ask == 0 else 'later'}
                    arcs = sp.monthly_day_arc3d(Point3D(ox, oy, 0), r)
                    pls = sp.monthly_day_polyline2d(name, Point2D(ox, oy), r, divisions=div)
                    if len(arcs) != len(pls):
                        return bad('polyline2d', '%d monthly paths' % len(arcs), len(pls), path='monthly', **base)
                    for a3, p2 in zip(arcs, pls):
                        res = compare(a3.to_polyline(div, interpolated=True).vertices, p2, name, r, ox, oy,
                                      dict(base, path='monthly'))
                        if res:
                            return res
                    try:
                        an3 = sp.hourly_analemma_polyline3d(Point3D(ox, oy, 0), r)
                    except AssertionError:
                        continue            # an analemma with two daytime points only: no polyline in 3D either
                    an2 = sp.hourly_analemma_polyline2d(name, Point2D(ox, oy), r)
                    if len(an3) != len(an2):
                        return bad('polyline2d', '%d analemmas' % len(an3), len(an2), path='analemma', **base)
                    for a3, p2 in zip(an3, an2):
                        res = compare(a3.vertices, p2, name, r, ox, oy, dict(base, path='analemma'))
                        if res:
                            return res
        return None

    if op in ('proj', 'sun2d'):
        r = inp['r']
        mode = inp.get('call', 'full')
        if op == 'proj':
            p, o = inp['p'], inp['o']
            po = Compass.point3d_to_orthographic(Point3D(*p))
            if mode == 'defaults':        # radius 100, origin (0, 0, 0) left to the defaults
                ps = Compass.point3d_to_stereographic(Point3D(*p))
            elif mode == 'radius_only':
                ps = Compass.point3d_to_stereographic(Point3D(*p), r)
            elif mode == 'origin_kw':
                ps = Compass.point3d_to_stereographic(Point3D(*p), origin=Point3D(*o))
            elif mode == 'instance':      # through a Compass object of another radius / center
                ps = Compass(7, Point2D(3, 4)).point3d_to_stereographic(Point3D(*p), r, Point3D(*o))
            elif mode == 'vectors':       # input shapes: anything with x / y / z; the radius as a Fraction
                from ladybug_geometry.geometry3d.pointvector import Vector3D
                po = Compass.point3d_to_orthographic(Vector3D(*p))
                ps = Compass.point3d_to_stereographic(Vector3D(*p), Fraction(r), Vector3D(*o))
            elif mode == 'duck':
                class _P(object):
                    def __init__(self, x, y, z):
                        self.x, self.y, self.z = x, y, z
                po = Compass.point3d_to_orthographic(_P(*p))
                ps = Compass.point3d_to_stereographic(_P(*p), radius=r, origin=_P(*o))
            else:
                ps = Compass.point3d_to_stereographic(Point3D(*p), r, Point3D(*o))
        elif mode != 'full':
            s = _sun(inp['altitude'], inp['azimuth'])
            o = [inp['ox'], inp['oy'], 0.0]
            q = s.position_3d() if mode == 'defaults' else s.position_3d(Point3D(*o), r)
            p = [q.x, q.y, q.z]
            if mode == 'defaults':        # origin (0, 0), radius 100 left to the defaults
                po, ps = s.position_2d(), s.position_2d('Stereographic')
            elif mode == 'shapes':        # upper-case names, the origin as a Point3D / Vector2D
                from ladybug_geometry.geometry2d.pointvector import Vector2D
                po = s.position_2d('ORTHOGRAPHIC', Point3D(o[0], o[1], 5.0), r)
                ps = s.position_2d('sTEREOGRAPHIC', Vector2D(o[0], o[1]), r)
            else:                          # keywords, lower-case projection names
                po = s.position_2d(radius=r, origin=Point2D(o[0], o[1]))
                ps = s.position_2d('stereographic', radius=r, origin=Point2D(o[0], o[1]))
            ar, zr = math.radians(inp['altitude']), math.radians(inp['azimuth'])
            want = [o[0] + r * math.cos(ar) * math.sin(zr), o[1] + r * math.cos(ar) * math.cos(zr),
                    r * math.sin(ar)]
            if max(abs(a - b) for a, b in zip(p, want)) > 1e-9 * (r + abs(o[0]) + abs(o[1])):
                return bad('position_3d', want, p, projection='none')
        else:
            s = _sun(inp['altitude'], inp['azimuth'])
            o = [inp['ox'], inp['oy'], 0.0]
            q = s.position_3d(Point3D(*o), r)
            p = [q.x, q.y, q.z]
            # position_3d itself: on the sphere around the origin, at the sun's azimuth/altitude
            ar, zr = math.radians(inp['altitude']), math.radians(inp['azimuth'])
            want = [o[0] + r * math.cos(ar) * math.sin(zr), o[1] + r * math.cos(ar) * math.cos(zr),
                    r * math.sin(ar)]
            if max(abs(a - b) for a, b in zip(p, want)) > 1e-9 * (r + abs(o[0]) + abs(o[1])):
                return bad('position_3d', want, p, projection='none')
            po = s.position_2d('Orthographic', Point2D(o[0], o[1]), r)
            ps = s.position_2d('Stereographic', Point2D(o[0], o[1]), r)
        c = [p[0] - o[0], p[1] - o[1], p[2] - o[2]]
        scale = r + abs(o[0]) + abs(o[1]) + abs(o[2])
        for name, q in (('orthographic', po), ('stereographic', ps)):
            ix, iy = q.x - o[0], q.y - o[1]
            rho = math.hypot(ix, iy)
            if rho > r + 1e-9 * scale:
                return bad('outside_circle', 'image within radius %r of the compass centre' % r, rho,
                           projection=name)
            cr = math.hypot(c[0], c[1])
            if cr > 1e-7 * r and c[2] >= -1e-12 * r:
                cross = ix * c[1] - iy * c[0]
                dot = ix * c[0] + iy * c[1]
                if abs(cross) > 1e-7 * (rho * cr + scale * 1e-9) + 1e-9 * scale * cr or dot < 0:
                    return bad('azimuth', 'image on the ray of (x, y)', (ix, iy, c[0], c[1]), projection=name)
            if name == 'orthographic':
                z2 = r * r - ix * ix - iy * iy
                back = [q.x, q.y, o[2] + math.sqrt(max(z2, 0.0))]
                tol = 1e-5 * scale
            else:
                u, v = ix / r, iy / r
                d = 1 + u * u + v * v
                back = [o[0] + r * 2 * u / d, o[1] + r * 2 * v / d, o[2] + r * (1 - u * u - v * v) / d]
                tol = 1e-8 * scale
            if max(abs(a - b) for a, b in zip(back, p)) > tol:
                return bad('inverse', p, back, projection=name)
        return None
    raise ValueError('unknown op ' + op)


replay = check_case
_POLY_SEEN = {}


def _oracle_cases(ctx):
    rng = ctx.rng
    big = ctx.searching or not ctx.quick
    # histories on one object first: they run on private module copies, so their replays are self-contained
    # whatever else this process did before
    for h, stratum in _histories(ctx, rng, full=big):
        if h['ops']:
            ctx.count('oracle_hist:' + stratum)
            yield 'hist', h
    # fixed corpus (includes the example inputs of the findings and of the repaired defects)
    yield 'radial', {'azimuth_count': 3, 'altitude_count': 1}
    yield 'tables', {'order': [0, 1]}
    yield 'tables', {'order': [1, 0]}
    yield 'tables', {'order': [0]}
    yield 'tables', {'order': [1]}
    yield 'dome', {'n': 2, 'in_place': False}
    yield 'offset', {'offset_angle': 45, 'n': 2, 'in_place': True}
    yield 'lazy', {'order': ['tregenza_dome_mesh_high_res', 'tregenza_dome_vectors'], 'singleton': True}
    yield 'lazy', {'order': ['tregenza_dome_vectors', 'tregenza_dome_mesh_high_res'], 'singleton': False}
    yield 'lazy', {'order': ['reinhart_sphere_mesh', 'reinhart_dome_vectors', 'tregenza_sphere_vectors'],
                   'singleton': False}
    for c in _lazy_sequences(ctx, rng, pairs=big):
        yield 'lazy', c
    yield 'compass', {'r0': 100, 'cx0': 0.0, 'cy0': 0.0,
                      'ops': [{'k': 'reads'}, {'k': 'setr', 'v': -5}, {'k': 'reads'}]}      # known finding
    for c in _compass_histories(ctx, rng):
        yield 'compass', c
        if rng.random() < 0.3:          # the same with north angles (accepted and refused) in between
            ops = []
            for o in c['ops']:
                ops.append(o)
                if rng.random() < 0.4:
                    ops.append({'k': 'setn', 'v': rng.choice([0, 30, -90, 360, 400, -720.5, 'north', '30', ' -9e1', '36_0', True])})
            if not any(o['k'] == 'setr' and not isinstance(o['v'], str) and not o['v'] > 0 for o in ops):
                yield 'compass', dict(c, ops=ops)
    for c in _polyline_cases(ctx, rng, 60 if big else 12):
        yield 'polyline2d', c
    for c in _proj_mode_cases(rng, 3000 if big else 300):
        yield c
    for c in _seq_cases(rng, 2000 if big else 200):
        yield c
    for c in _container_cases(rng, 360 if big else 45):
        yield c
    top = 8 if big else 6
    for n in range(1, top + 1):
        for ip in (False, True):
            yield 'dome', {'n': n, 'in_place': ip}
            if n <= (6 if big else 3):
                yield 'sphere', {'n': n, 'in_place': ip}
    special = [1, 2, 3, 18, 72, 144]
    cap = 30000 if big else 6000
    pairs = [(a, b) for a in special for b in special if b > 1 and a * b <= cap]
    pairs += [(rng.randrange(1, 145), rng.randrange(2, 145)) for _ in range(60 if big else 8)]
    # numeric edges: EVERY altitude count (accumulated / divided float row angles differ from count to count)
    # with a few azimuth cells, and every azimuth count with a few rows
    for alt in range(2, 145):
        pairs.append((rng.choice([1, 2, 3, 4, 5, 7]), alt))
    for az in range(1, 145):
        pairs.append((az, rng.choice([2, 3, 4, 5])))
    for a, b in pairs:
        if a * b <= cap:
            yield 'radial', {'azimuth_count': a, 'altitude_count': b}
    for n in range(1, (5 if big else 3) + 1):
        for ip in (False, True):
            offs = [0, 0.0, 1e-9, 6, 12, 30, 45, 60, 89, 90, 90.0] + \
                [round(rng.uniform(13, 90), 3) for _ in range(10 if big else 2)]
            for off in offs:
                yield 'offset', {'offset_angle': off, 'n': n, 'in_place': ip}
            # rounding half-way cases: offsets exactly (k + 1/2) rows (quotient on a half: round-half-even vs
            # half-up vs truncation differ), and a hair to either side
            rows = 7 * n
            den = (2 * rows + n) if ip else (2 * rows + 1)
            for k in range(0, rows + 1):
                edge = (k + 0.5) * 180.0 / den
                if edge <= 90 and (big or n <= 2):
                    yield 'offset', {'offset_angle': edge, 'n': n, 'in_place': ip}
                    if big or rng.random() < 0.3:
                        yield 'offset', {'offset_angle': edge + rng.choice([1e-9, -1e-9, 1e-12, -1e-12]), 'n': n,
                                         'in_place': ip}
    # input shapes: the flag as any truthy / falsy object, the count 1 as True, the angle as another number type
    for n in (1, 2, 3):
        for ip in (True, False):
            for op in ('dome', 'sphere', 'offset'):
                fl = _flag_shape(ip, rng.randrange(5))
                c = {'n': n, 'in_place': ip, 'flag': fl}
                if op == 'offset':
                    c['offset_angle'] = rng.choice([12, 30, 45, 60, 90])
                    c['angle_as'] = rng.choice(['int', 'float', 'fraction', 'decimal'])
                yield op, c
    yield 'offset', {'offset_angle': -12, 'n': 1, 'in_place': False}       # negative row count: slice from the end
    yield 'offset', {'offset_angle': -30.0, 'n': 2, 'in_place': True}
    yield 'dome', {'n': True, 'in_place': False}
    yield 'sphere', {'n': True, 'in_place': True, 'flag': 1}
    yield 'offset', {'offset_angle': True, 'n': 2, 'in_place': False, 'angle_as': 'bool'}     # True = 1 degree
    yield 'offset', {'offset_angle': 30.5, 'n': True, 'in_place': False, 'angle_as': 'decimal'}
    for c in _proj_points(rng, 40000 if big else 4000):
        yield 'proj', c
    for _ in range(10000 if big else 1500):
        alt = rng.choice([0, 90, 45, rng.uniform(0, 90)])
        az = rng.choice([0, 90, 180, 270, rng.uniform(0, 360)])
        r = rng.choice([100, 1, rng.uniform(0.01, 1e4), rng.uniform(0.01, 1e4), rng.choice([1e-12, 1e-6, 1e9, 1e16])])
        ox, oy = rng.choice([(0.0, 0.0), (rng.uniform(-10, 10) * r, rng.uniform(-10, 10) * r)])
        yield 'sun2d', {'altitude': alt, 'azimuth': az, 'r': r, 'ox': ox, 'oy': oy}


def _polyline_cases(ctx, rng, count):
    for _ in range(count):
        lat = rng.choice([0, 40, -35, 66.5, -80, 85, rng.uniform(-90, 90)])
        lon = rng.choice([0, -74, 151, rng.uniform(-180, 180)])
        ox, oy = rng.choice([(0.0, 0.0), (250.0, -40.0), (rng.uniform(-1e3, 1e3), rng.uniform(-1e3, 1e3))])
        yield {'lat': lat, 'lon': lon, 'tz': int(round(lon / 15.0)), 'month': rng.randrange(1, 13),
               'day': rng.randrange(1, 29), 'r': rng.choice([100, 1, rng.uniform(0.01, 1e4)]), 'ox': ox, 'oy': oy,
               'divisions': rng.choice([10, 3, 24]), 'all_paths': rng.random() < 0.5,
               'north': rng.choice([0, 0, 30, -45, 135.5, rng.uniform(-180, 180)])}


def _proj_mode_cases(rng, count):
    """Default / keyword / lower-case call forms of the projections (rare argument classes)."""
    for i in range(count):
        alt = rng.choice([0.0, math.pi / 2, rng.uniform(0, math.pi / 2)])
        az = rng.choice([0.0, math.pi / 2, math.pi, rng.uniform(0, TWO_PI)])
        mode = ('defaults', 'radius_only', 'origin_kw', 'instance', 'vectors', 'duck')[i % 6]
        r = 100 if mode in ('defaults', 'origin_kw') else rng.choice([1, 1.0, 100.0, rng.uniform(0.01, 1e4)])
        o = [0.0, 0.0, 0.0] if mode in ('defaults', 'radius_only') else \
            [rng.choice([0.0, rng.uniform(-10, 10) * r]) for _ in range(3)]
        p = [o[0] + r * math.cos(alt) * math.sin(az), o[1] + r * math.cos(alt) * math.cos(az),
             o[2] + r * abs(math.sin(alt))]
        yield 'proj', {'p': p, 'r': r, 'o': o, 'call': mode}
        salt = rng.choice([0, 90, 45, rng.uniform(0, 90)])
        saz = rng.choice([0, 90, 180, 270, rng.uniform(0, 360)])
        if i % 3 == 1:
            yield 'sun2d', {'altitude': salt, 'azimuth': saz, 'r': 100, 'ox': 0.0, 'oy': 0.0, 'call': 'defaults'}
        elif i % 3 == 2:
            rr = rng.choice([1, 100, rng.uniform(0.01, 1e4), 1e-9, 1e12])
            yield 'sun2d', {'altitude': salt, 'azimuth': saz, 'r': rr, 'ox': rng.choice([0.0, rng.uniform(-10, 10) * rr]),
                            'oy': rng.choice([0.0, rng.uniform(-10, 10) * rr]), 'call': 'shapes'}
        else:
            rr = rng.choice([1, 100, rng.uniform(0.01, 1e4)])
            yield 'sun2d', {'altitude': salt, 'azimuth': saz, 'r': rr, 'ox': rng.choice([0.0, rng.uniform(-10, 10) * rr]),
                            'oy': rng.choice([0.0, rng.uniform(-10, 10) * rr]), 'call': 'keywords'}


def _container_cases(rng, count):
    for i in range(count):
        r = rng.choice([100, 1, rng.uniform(0.01, 1e4)])
        lines = []
        for _ in range(rng.choice([1, 1, 2, 3, 12])):
            lines.append([[rng.uniform(0, math.pi / 2), rng.uniform(0, TWO_PI)] for _ in range(rng.randrange(3, 7))])
        angles = rng.sample([0, 90, 180, 270, 22.5, 45, 337.5, 360, 12, 359.5, 400, -30], rng.randrange(1, 7))
        if rng.random() < 0.3:
            angles.sort(reverse=True)
        yield 'containers', {'r': r, 'ox': rng.choice([0.0, rng.uniform(-10, 10) * r]),
                             'oy': rng.choice([0.0, rng.uniform(-10, 10) * r]),
                             'projection': rng.choice(['Orthographic', 'Stereographic', 'stereographic']),
                             'container': CONTAINERS[i % len(CONTAINERS)], 'lines': lines, 'angles': angles,
                             'north': rng.choice([0, 0, 30, -45, '30', ' -4.5e1']),
                             'spacing': rng.choice([0.15, 0.15, '0.15', '1.5E-1', 1, True])}


def _seq_cases(rng, count):
    """One point / one Sun asked several different (and repeated) questions."""
    for _ in range(count):
        P = [rng.choice([0.0, rng.uniform(-1e3, 1e3)]) for _ in range(3)]
        qs = []
        for _ in range(rng.randrange(2, 6)):
            if qs and rng.random() < 0.25:
                qs.append(list(rng.choice(qs)))
            else:
                qs.append([rng.choice([1.0, 100.0, rng.uniform(0.01, 1e4)]),
                           rng.choice([0.0, math.pi / 2, rng.uniform(0, math.pi / 2), -math.pi / 2]),
                           rng.choice([0.0, math.pi, rng.uniform(0, TWO_PI)])])
        yield 'projseq', {'p': P, 'queries': qs}
        qs = []
        for _ in range(rng.randrange(2, 7)):
            if qs and rng.random() < 0.25:
                qs.append(list(rng.choice(qs)))
            else:
                r = rng.choice([100, 1, rng.uniform(0.01, 1e4)])
                ox, oy = rng.choice([(0.0, 0.0), (rng.uniform(-10, 10) * r, rng.uniform(-10, 10) * r)])
                qs.append([rng.choice(['Orthographic', 'Stereographic', 'stereographic', 'orthographic', '3d',
                                       'Stereographic', '3d', 'Mercator']),
                           ox, oy, r])
        yield 'sunseq', {'altitude': rng.choice([0, 90, 45, rng.uniform(0, 90)]),
                         'azimuth': rng.choice([0, 90, 180, 270, 360, rng.uniform(0, 360)]),
                         'north': rng.choice([0, 0, 0.0, 30, -45, rng.uniform(-180, 180)]), 'queries': qs}


_LAZY_GROUP = {'tregenza_dome_vectors': 'td', 'tregenza_dome_mesh': 'td', 'tregenza_sphere_vectors': 'ts',
               'tregenza_sphere_mesh': 'ts', 'reinhart_dome_vectors': 'rd', 'reinhart_dome_mesh': 'rd',
               'reinhart_sphere_vectors': 'rs', 'reinhart_sphere_mesh': 'rs'}


def _call_branches(fn, n, ip, off=None):
    """Branches of the anchored viewsphere functions that a call takes (read off the code, see the header)."""
    out = []
    if fn in ('radial', 'radialw'):
        az, alt = n, ip
        if fn == 'radial':
            out.append('dome_radial_patches:' + ('no_row_loop(alt<=1)' if alt <= 1 else 'rows'))
            out.append('dome_radial_patches:' + ('az<3(flat faces)' if az < 3 else 'az>=3'))
        else:
            out.append('_dome_radial_patch_areas:' + ('no_rows(alt<1)' if alt < 1 else 'rows'))
        return out
    out.append('_patch_row_count_array:' + ('count==1(class tuple)' if n == 1 else 'count<1(empty list)' if n < 1
                                            else 'count>1(list)'))
    mode = 'in_place' if ip else 'default'
    if fn in ('dome', 'sphere', 'offset'):
        out.append('dome_patches:vertical_angle:' + mode)
    if fn in ('weights', 'sweights', 'offsetw'):
        out.append('_dome_patch_areas:vert_angle:' + mode)
    if fn in ('offset', 'offsetw') and n >= 1 and isinstance(off, (int, float)) and off == off and abs(off) < 1e6:
        rows = 7 * n
        den = (2 * rows + n) if ip else (2 * rows + 1)
        q = off * den / 180.0
        k = int(round(q))
        out.append('_patch_count_in_radial_offset:vert_angle:' + mode)
        out.append('_patch_count_in_radial_offset:' + ('negative_rows(slice from the end)' if k < 0 else
                                                         'zero_rows(empty band)' if k == 0 else
                                                         'all_rows(slice past the end)' if k >= rows else 'some_rows'))
        if abs(q - math.floor(q) - 0.5) < 1e-9:
            out.append('_patch_count_in_radial_offset:quotient_on_a_half')
    return out


def _branches(op, inp):
    """Names of the rarely taken branches an oracle case reaches (kind j), for the evidence counters."""
    out = []
    if op in ('dome', 'sphere'):
        out += _call_branches(op, inp['n'], inp['in_place'])
        out += _call_branches('weights' if op == 'dome' else 'sweights', inp['n'], inp['in_place'])
    elif op == 'offset':
        out += _call_branches('offset', inp['n'], inp['in_place'], inp['offset_angle'])
        out += _call_branches('offsetw', inp['n'], inp['in_place'], inp['offset_angle'])
    elif op == 'radial':
        out += _call_branches('radial', inp['azimuth_count'], inp['altitude_count'])
        out += _call_branches('radialw', inp['azimuth_count'], inp['altitude_count'])
    elif op in ('lazy', 'hist', 'tables'):
        filled = set()
        ops = [{'k': 'read', 'p': p} for p in inp['order']] if op == 'lazy' else \
            [{'k': 'read', 'p': 'reinhart_solid_angles' if b else 'tregenza_solid_angles'} for b in inp['order']] \
            if op == 'tables' else inp['ops']
        for o in ops:
            if o['k'] == 'renew':
                filled = set()
                out.append('second_object_same_class')
            elif o['k'] == 'read':
                g = _LAZY_GROUP.get(o['p'], o['p'])
                out.append('lazy_getter:' + ('slot_filled_by_itself' if o['p'] in filled else
                                             'slot_filled_by_sibling_getter' if g in filled else 'slot_empty(build)'))
                filled.update((o['p'], g))
            elif o['k'] == 'call':
                if o.get('bad'):
                    out.append('refused_call:' + o['bad'])
                else:
                    a = o['a']
                    if o['fn'] in ('offset', 'offsetw'):
                        out += _call_branches(o['fn'], a[1], a[2], a[0])
                    elif o['fn'] in ('radial', 'radialw'):
                        out += _call_branches(o['fn'], a[0], a[1])
                    else:
                        out += _call_branches(o['fn'], a[0], a[1] if len(a) > 1 else False)
    elif op == 'compass':
        north = 0.0
        for o in inp['ops']:
            if o['k'] in ('setr', 'sets', 'setn'):
                x = _cnum(o)
                ok = x is not None and (x > 0 if o['k'] != 'setn' else abs(x) <= 360)
                out.append('compass_setter:' + ('float()_refuses' if x is None else 'accepted' if ok
                                                else 'assert_refuses'))
                if ok and o['k'] == 'setn':
                    north = x
            elif o['k'] == 'setc':
                out.append('compass_center:' + ('not_a_Point2D(refused)' if o.get('other') else 'Point2D'))
            elif o['k'] in ('reads', 'reado'):
                out.append('altitude_points:' + ('north_zero(no rotation)' if north == 0 else 'north_rotated'))
    elif op == 'proj':
        mode = inp.get('call', 'full')
        out.append('point3d_to_stereographic:' + ('default_radius_and_origin' if mode == 'defaults' else
                                                  'default_origin' if mode == 'radius_only' else
                                                  'default_radius' if mode == 'origin_kw' else 'all_given'))
    elif op == 'projseq':
        if any(q[1] < 0 for q in inp['queries']):
            out.append('point3d_to_stereographic:pole(zero division)')
    elif op in ('sun2d', 'sunseq'):
        names = [q[0] for q in inp['queries']] if op == 'sunseq' else ['Orthographic', 'Stereographic']
        for nm in names:
            t = nm.title()
            out.append('position_2d:' + (t.lower() if t in ('Orthographic', 'Stereographic') else
                                         'position_3d_only' if nm == '3d' else 'unsupported(raise)'))
        out.append('_calculate_sun_vector:' + ('north_zero' if not inp.get('north') else 'north_rotated'))
        if inp.get('call') == 'defaults':
            out.append('position_2d:default_arguments')
    elif op == 'polyline2d':
        out += ['_project_polyline_to_2d:orthographic', '_project_polyline_to_2d:stereographic',
                '_project_polyline_to_2d:unsupported(raise)']
    elif op == 'containers':
        out.append('_project_polyline_to_2d:' + inp['projection'].lower() + ':' + inp['container'])
    return out


def _order_slice(ctx, rng):
    """Cases for the process-order runs (real module state: objects `real` / `real_singleton`). The inputs of
    the recorded findings are left out (they fail in any order)."""
    cases = []
    for h, stratum in _histories(ctx, rng, full=False):
        if h['ops'] and (stratum.startswith('refused_first') or stratum in ('scribble', 'repeated')
                         or rng.random() < 0.15):
            h = dict(h, object=rng.choice(['real', 'real_singleton']))
            cases.append(('hist', h, 0 if stratum.startswith('refused_first') else 2))
    if ctx.quick and len(cases) > 24:
        cases = rng.sample(cases, 24)
    for n in (3, 2, 1):
        for ip in (True, False):
            cases.append(('sphere', {'n': n, 'in_place': ip}, 1))
            cases.append(('dome', {'n': n, 'in_place': ip}, 3))
            cases.append(('offset', {'offset_angle': rng.choice([30, 45, 60]), 'n': n, 'in_place': ip}, 2))
    for order in ([1, 0], [0, 1], [1], [0]):
        cases.append(('tables', {'order': order}, 2))
    for c in _lazy_sequences(ctx, rng, pairs=False)[:ctx.n(3, 12)]:
        cases.append(('lazy', dict(c, singleton=False), 2))
    for az, alt in ((3, 2), (72, 18), (1, 2), (144, 2)):
        cases.append(('radial', {'azimuth_count': az, 'altitude_count': alt}, 3))
    for c in list(_compass_histories(ctx, rng))[:12]:
        if not any(o['k'] == 'setr' and not isinstance(o['v'], str) and not o['v'] > 0 for o in c['ops']):
            cases.append(('compass', c, 2))
    for op, c in list(_proj_mode_cases(rng, 30)) + list(_seq_cases(rng, 15)):
        cases.append((op, c, 3))
    for c in _proj_points(rng, 40):
        cases.append(('proj', c, 3))
    for c in _polyline_cases(ctx, rng, 4):
        cases.append(('polyline2d', c, 2))
    return cases


def _process_orders(ctx):
    """Run the slice in fresh interpreters, each in another order (rare / failing cases first in the first)."""
    rng = ctx.rng
    cases = _order_slice(ctx, rng)
    orders = [sorted(range(len(cases)), key=lambda i: (cases[i][2], i))]          # refused / rare first
    if not ctx.quick or ctx.searching:
        orders.append(list(reversed(orders[0])))                                    # common first
    for _ in range(ctx.n(1, 2)):
        sh = list(range(len(cases)))
        rng.shuffle(sh)
        orders.append(sh)
    from concurrent.futures import ThreadPoolExecutor
    seqs = [[[cases[i][0], cases[i][1]] for i in order] for order in orders]
    with ThreadPoolExecutor(max_workers=4) as ex:            # the interpreters run side by side
        results = list(ex.map(_run_in_fresh_process, seqs))
    for k, (seq, res) in enumerate(zip(seqs, results)):
        ctx.count('process_order:runs')
        ctx.count('process_order:cases', len(seq))
        ctx.case(('procorder', k, len(seq)))
        if not res:
            continue
        i, r = res[0]
        small = _shrink_order(seq, i) if i >= 0 else seq
        if len(small) == 1:                   # fails in an interpreter of its own: report the case itself
            sig = dict(r.get('sig') or {})
            sig.pop('op', None)
            ctx.fail(small[0][0], small[0][1], r.get('required'), r.get('observed'), sig)
            break
        out = check_case('procorder', {'order': small})
        if out is None:                       # the cut went too far: keep the whole prefix
            small = seq[:i + 1]
            out = check_case('procorder', {'order': small})
        if out is None:
            out = {'required': r.get('required'), 'observed': r.get('observed'),
                   'sig': dict(r.get('sig') or {}, what='in_process_order:unstable')}
        ctx.fail('procorder', {'order': small}, out['required'], out['observed'], out['sig'])
        break


def oracle(ctx):
    def counted(op, inp):
        try:
            for b in _branches(op, inp):
                ctx.count('branch:' + b)
        except Exception:          # the counters must never disturb the check
            ctx.count('branch:uncounted')
        res = check_case(op, inp)
        if op == 'polyline2d' and res is None:
            ctx.count('branch:day_polyline2d:' + _POLY_SEEN.pop('arc', 'arc'))
        if op in ('dome', 'sphere', 'radial', 'offset'):
            ctx.subclaim('vectors_unit_upward_inside_own_patch',
                         not (res and res['sig'].get('what') == 'vector'))
        if op == 'tables':
            ctx.subclaim('tabulated_coefficients_match_mesh_solid_angles_1e-6',
                         not (res and res['sig'].get('what') in ('table_vs_mesh', 'table_sum')))
        return res
    # the fresh interpreters first: what fails there is reported with a replay that was seen to fail in an
    # interpreter of its own (cut down to the failing case alone where that is enough)
    _process_orders(ctx)
    run_oracle_cases(ctx, _oracle_cases(ctx), counted)


LEVEL_TEXT = ('Machine-checked Lean 4 theorems over an executable model of viewsphere.py / compass.py: for every '
              'division count n >= 1 the dome has 144 n^2 + 1 patches and as many vectors and weights, the sphere '
              'is the dome followed by its mirror image (twice the length), radial domes have azimuth x altitude '
              'cells (altitude_count >= 2; the code fails for 1: known finding), the patch areas telescope to 2 pi '
              'for any row angles so the weights average to one, the weights use the same row angle as the generated '
              'mesh (after the proposed repair), the two solid-angle tables are independent of read order (after '
              'the proposed repair) and sum to 2 pi within 1e-6; over the reals both projections map the upper '
              'hemisphere into the compass circle, keep the azimuth ray and are inverted by the inverse formulas. '
              'A ViewSphere is modelled as an object state machine (eleven slots, no other memo): after any '
              'history of reads, calls, refused calls and edited results every observation equals that of a fresh '
              'object, refused calls change nothing, reads are order independent; the Compass altitude circles are '
              'the projected altitude rings (refused radius assignment: known finding, counterexample theorem). '
              'Branch theorems: the division_count == 1 shortcut of the row layout equals the general comprehension; the '
              'horizontal band selects the patches of the first round(q) rows, none for 0, all quads and never the '
              'zenith patch from the last row on and for every offset at most the quads; sibling theorems: sphere '
              'weights are the dome weights twice, the lower band weights repeat the upper ones. '
              'Row tables and coefficients are regenerated from viewsphere.py on every run; the model is compared '
              'with the real code (mesh topology exactly, projections bit-exactly, weights to 1e-12).')
LEVEL_NOTE = ('Trusted: Lean kernel; axioms propext/Classical.choice/Quot.sound only; the table extractor; the '
              'correspondence run (generated inputs only); ladybug_geometry. Sampled only (not proved): every '
              'generated vector is unit, upward and inside its own patch; tabulated coefficients equal the true '
              'solid angles of the generated patches to 1e-6; float vs real arithmetic.')
TECHNIQUE = ('Lean 4 proof (list induction / telescoping sums over a field, field_simp/nlinarith over the reals, '
             'decide on the regenerated tables) about a model tied to the code by regenerated tables and '
             'differential correspondence')
