"""C18 helper: factories, canonicalisation and setter descriptions for the anchored classes.

Everything here builds inputs from plain numbers (stdlib `random` seeded from the JSON spec), so a
stored replay input is self-contained.  No function here compares anything: it only constructs
objects of the real classes and canonicalises what their public attributes return.
"""
import math
import os
import random

REPO = os.environ.get('LADYBUG_REPO', '/repo')
SQL_DIR = os.path.join(REPO, 'tests', 'assets', 'sql')
EPW_DIR = os.path.join(REPO, 'tests', 'assets', 'epw')

SQL_FILES = ['eplusout_daily.sql', 'eplusout_dday_runper.sql', 'eplusout_design_days.sql',
             'eplusout_hourly.sql', 'eplusout_monthly.sql', 'eplusout_odd_zonesize.sql',
             'eplusout_openstudio.sql', 'eplusout_timestep.sql']
EPW_FILES = ['chicago.epw', 'tokyo.epw', 'mannheim.epw', 'long_beach_2021.epw',
             'los_angeles_no_leap_field.epw']


# ---------------------------------------------------------------------------------------------
# canonical form of a returned value (exact: the same computation must give the same bits)


def canon(x, depth=0):
    if depth > 12:
        return '<deep>'
    if x is None or isinstance(x, (bool, int, str)):
        return x
    if isinstance(x, float):
        return 'f:' + (repr(x) if x == x else 'nan')
    if isinstance(x, (list, tuple)):
        return [canon(v, depth + 1) for v in x]
    if isinstance(x, (set, frozenset)):
        return ['set'] + sorted((canon(v, depth + 1) for v in x), key=repr)
    if isinstance(x, dict):
        return {'dict': sorted(([canon(k, depth + 1), canon(v, depth + 1)] for k, v in x.items()),
                               key=repr)}
    cname = type(x).__name__
    if cname in ('DateTime', 'Date', 'Time'):
        return [cname, str(x), getattr(x, 'leap_year', None)]
    if cname == 'AnalysisPeriod':
        return [cname, repr(x)]
    if isinstance(x, type):
        return ['class', x.__name__]
    if cname == 'timedelta':
        return [cname, x.total_seconds()]
    for meth in ('to_dict',):
        f = getattr(x, meth, None)
        if callable(f):
            try:
                return [cname, canon(f(), depth + 1)]
            except Exception:
                pass
    f = getattr(x, 'to_array', None)
    if callable(f):
        try:
            return [cname, canon(f(), depth + 1)]
        except Exception:
            pass
    slots = []
    for klass in type(x).__mro__:
        s = getattr(klass, '__slots__', ())
        slots += [s] if isinstance(s, str) else list(s)
    if slots:
        out = []
        for s in slots:
            try:
                out.append([s, canon(getattr(x, s), depth + 1)])
            except AttributeError:
                out.append([s, '<unset>'])
        return [cname, out]
    if hasattr(x, '__dict__'):
        return [cname, canon(dict(x.__dict__), depth + 1)]
    r = repr(x)
    if ' at 0x' in r:
        r = '<%s>' % cname
    return [cname, r]


def read(obj, name):
    """Canonical result of one public read (exceptions are results too)."""
    try:
        return canon(getattr(obj, name))
    except Exception as e:
        return ['raises', type(e).__name__]


def public_props(cls):
    """All public property names of a class, sorted (the 'public read-only attributes')."""
    out = []
    for n in dir(cls):
        if n.startswith('_'):
            continue
        if isinstance(getattr(cls, n, None), property):
            out.append(n)
    return sorted(out)


# ---------------------------------------------------------------------------------------------
# data builders


def _aperiod(ap):
    from ladybug.analysisperiod import AnalysisPeriod
    return AnalysisPeriod(*ap)


def _collection(kind, ap, seed, lo, hi, integer=False):
    """Hourly continuous collection over `ap` with pseudo-random values from `seed`."""
    from ladybug.header import Header
    from ladybug.datacollection import HourlyContinuousCollection
    from ladybug.datatype.temperature import Temperature
    from ladybug.datatype.fraction import RelativeHumidity
    from ladybug.datatype.speed import Speed
    from ladybug.datatype.angle import Angle
    from ladybug.datatype.energy import Energy
    dt, unit = {'temp': (Temperature(), 'C'), 'rh': (RelativeHumidity(), '%'),
                'speed': (Speed(), 'm/s'), 'dir': (Angle(), 'degrees'),
                'energy': (Energy(), 'kWh')}[kind]
    a = _aperiod(ap)
    n = len(a)
    r = random.Random(seed)
    if integer:
        vals = [float(r.randrange(int(lo), int(hi))) for _ in range(n)]
    else:
        vals = [round(r.uniform(lo, hi), 2) for _ in range(n)]
    return HourlyContinuousCollection(Header(dt, unit, a, {'source': 'c18-%d' % seed}), vals)


def _legend_par(lp):
    from ladybug.legend import LegendParameters
    if lp is None:
        return None
    return LegendParameters(min=lp.get('min'), max=lp.get('max'),
                            segment_count=lp.get('segment_count'))


def _pt2(p):
    from ladybug_geometry.geometry2d.pointvector import Point2D
    return Point2D(*p)


def _pt3(p):
    from ladybug_geometry.geometry3d.pointvector import Point3D
    return Point3D(*p)


# ---------------------------------------------------------------------------------------------
# class registry: build(spec) -> object; gen(rng) -> spec; setters (name -> value generator)

APS = [[1, 1, 0, 12, 31, 23, 1, False], [3, 10, 0, 3, 20, 23, 1, False], [6, 1, 8, 6, 30, 17, 1, False],
       [12, 20, 0, 1, 10, 23, 1, False], [2, 1, 0, 3, 5, 23, 1, True], [5, 5, 0, 5, 9, 23, 2, False],
       [7, 1, 20, 7, 5, 4, 1, False], [1, 1, 6, 2, 10, 18, 4, False], [2, 28, 0, 3, 1, 23, 1, True]]


class Spec(object):
    name = ''
    setters = {}          # setter name -> function(rng) -> JSON-able value
    overrides = {}        # setter name -> list of setter names whose earlier values it discards
    extra_reads = []      # additional derived results: (label, function(obj) -> value)

    def cls(self):
        raise NotImplementedError

    def gen(self, rng):
        return {}

    def build(self, spec):
        raise NotImplementedError

    def props(self):
        return public_props(self.cls())

    def decode(self, name, value):
        return value

    def apply(self, obj, name, value):
        setattr(obj, name, self.decode(name, value))


class ViewSphereSpec(Spec):
    name = 'ViewSphere'

    def cls(self):
        from ladybug.viewsphere import ViewSphere
        return ViewSphere

    def build(self, spec):
        return self.cls()()


class SqlSpec(Spec):
    name = 'SQLiteResult'

    def cls(self):
        from ladybug.sql import SQLiteResult
        return SQLiteResult

    def gen(self, rng):
        return {'file': rng.choice(SQL_FILES)}

    def build(self, spec):
        return self.cls()(os.path.join(SQL_DIR, spec['file']))


EPW_HEADER_PROPS = ['location', 'metadata', 'is_leap_year', 'is_header_loaded', 'is_data_loaded', 'is_ip',
                    'file_path', 'ashrae_climate_zone', 'annual_heating_design_day_996',
                    'annual_heating_design_day_990', 'annual_cooling_design_day_004',
                    'annual_cooling_design_day_010', 'heating_design_condition_dictionary',
                    'cooling_design_condition_dictionary', 'extreme_design_condition_dictionary',
                    'extreme_hot_weeks', 'extreme_cold_weeks', 'typical_weeks',
                    'monthly_ground_temperature', 'header']


class EpwSpec(Spec):
    name = 'EPW'

    def cls(self):
        from ladybug.epw import EPW
        return EPW

    def gen(self, rng):
        allp = public_props(self.cls())
        data = [p for p in allp if p not in EPW_HEADER_PROPS]
        keep = sorted(rng.sample(data, min(len(data), 5)) + [p for p in allp if p in EPW_HEADER_PROPS])
        return {'file': rng.choice(EPW_FILES), 'props': keep}

    def build(self, spec):
        return self.cls()(os.path.join(EPW_DIR, spec['file']))


class ApSpec(Spec):
    name = 'AnalysisPeriod'

    def cls(self):
        from ladybug.analysisperiod import AnalysisPeriod
        return AnalysisPeriod

    def gen(self, rng):
        if rng.random() < 0.5:
            return {'ap': rng.choice(APS)}
        leap = rng.random() < 0.3
        dim = [31, 29 if leap else 28, 31, 30, 31, 30, 31, 31, 30, 31, 30, 31]
        m1, m2 = rng.randrange(1, 13), rng.randrange(1, 13)
        return {'ap': [m1, rng.randrange(1, dim[m1 - 1] + 1), rng.randrange(24),
                       m2, rng.randrange(1, dim[m2 - 1] + 1), rng.randrange(24),
                       rng.choice([1, 1, 2, 3, 4, 6, 12, 60]), leap]}

    def build(self, spec):
        return _aperiod(spec['ap'])

    extra_reads = [('len', len), ('str', str)]


class HccSpec(Spec):
    name = 'HourlyContinuousCollection'

    def cls(self):
        from ladybug.datacollection import HourlyContinuousCollection
        return HourlyContinuousCollection

    def gen(self, rng):
        return {'ap': rng.choice(APS), 'seed': rng.randrange(1000)}

    def build(self, spec):
        return _collection('temp', spec['ap'], spec['seed'], -10, 35)


class HourlyPlotSpec(Spec):
    name = 'HourlyPlot'

    def cls(self):
        from ladybug.hourlyplot import HourlyPlot
        return HourlyPlot

    def gen(self, rng):
        return {'ap': rng.choice(APS), 'seed': rng.randrange(1000),
                'x_dim': rng.choice([1, 2.5]), 'y_dim': rng.choice([4, 1.5]),
                'z_dim': rng.choice([0, 0, 10]), 'reverse_y': rng.random() < 0.4,
                'base': [rng.choice([0, 5.5]), rng.choice([0, -3.0]), 0]}

    def build(self, spec):
        c = _collection('temp', spec['ap'], spec['seed'], -10, 35)
        return self.cls()(c, None, _pt3(spec['base']), spec['x_dim'], spec['y_dim'], spec['z_dim'],
                          spec['reverse_y'])


class WindRoseSpec(Spec):
    name = 'WindRose'

    def cls(self):
        from ladybug.windrose import WindRose
        return WindRose

    def gen(self, rng):
        return {'ap': rng.choice(APS[:6]), 'seed': rng.randrange(1000),
                'count': rng.choice([4, 8, 8, 16, 3]), 'calm': rng.choice([0.0, 0.1, 0.3])}

    def build(self, spec):
        d = _collection('dir', spec['ap'], spec['seed'], 0, 360, integer=True)
        s = _collection('speed', spec['ap'], spec['seed'] + 1, 0.1, 12)
        r = random.Random(spec['seed'] + 2)
        vals = [0.0 if r.random() < spec['calm'] else v for v in s.values]
        s.values = vals
        return self.cls()(d, s, spec['count'])

    setters = {
        'north': lambda rng: rng.choice([0, 30, 90.5, -45, 270, 359]),
        'show_freq': lambda rng: rng.random() < 0.5,
        'show_zeros': lambda rng: rng.random() < 0.5,
        'frequency_spacing_distance': lambda rng: rng.choice([10.0, 5, 2.5, 25]),
        'frequency_hours': lambda rng: rng.choice([200, 50, 25, 100, 10]),
        'frequency_intervals_compass': lambda rng: rng.choice([1, 2, 3, 5, 8, 12]),
        'base_point': lambda rng: [rng.choice([0, 10.0, -4]), rng.choice([0, 3.5])],
        'legend_parameters': lambda rng: rng.choice(
            [None, {'segment_count': 5}, {'min': 0, 'max': 8}, {'segment_count': 3, 'max': 6}]),
    }

    def decode(self, name, value):
        if name == 'base_point':
            return _pt2(value)
        if name == 'legend_parameters':
            return _legend_par(value)
        return value


class MonthlyChartSpec(Spec):
    name = 'MonthlyChart'

    def cls(self):
        from ladybug.monthlychart import MonthlyChart
        return MonthlyChart

    def gen(self, rng):
        return {'ap': rng.choice([APS[0], APS[1], APS[4], APS[3]]), 'seed': rng.randrange(1000),
                'kinds': rng.choice([['temp'], ['temp', 'rh'], ['energy', 'energy'], ['energy', 'temp']]),
                'form': rng.choice(['hourly', 'monthly', 'daily', 'mph']), 'stack': rng.random() < 0.4,
                'lp': rng.choice([None, {'min': -20, 'max': 60}, {'segment_count': 6}])}

    def build(self, spec):
        colls = []
        for i, k in enumerate(spec['kinds']):
            lo, hi = {'temp': (-10, 35), 'rh': (5, 100), 'energy': (0, 50)}[k]
            c = _collection(k, spec['ap'], spec['seed'] + i, lo, hi)
            c.header.metadata['type'] = '%s-%d' % (k, i)
            if spec['form'] == 'monthly':
                c = c.total_monthly() if k == 'energy' else c.average_monthly()
            elif spec['form'] == 'daily':
                c = c.total_daily() if k == 'energy' else c.average_daily()
            elif spec['form'] == 'mph':
                c = c.average_monthly_per_hour()
            colls.append(c)
        return self.cls()(colls, _legend_par(spec['lp']), stack=spec['stack'])

    # method setters: ('set_minimum_by_index', index) are modelled as two named settings each
    setters = {
        'min0': lambda rng: rng.choice([-30, -5.5, 0, 2]),
        'max0': lambda rng: rng.choice([40, 70.5, 100, 200]),
        'min1': lambda rng: rng.choice([-30, -5.5, 0, 2]),
        'max1': lambda rng: rng.choice([40, 70.5, 100, 200]),
    }

    def apply(self, obj, name, value):
        idx = int(name[-1])
        if name.startswith('min'):
            obj.set_minimum_by_index(value, idx)
        else:
            obj.set_maximum_by_index(value, idx)


class PsychSpec(Spec):
    name = 'PsychrometricChart'

    def cls(self):
        from ladybug.psychchart import PsychrometricChart
        return PsychrometricChart

    def gen(self, rng):
        return {'ap': rng.choice([APS[1], APS[2], APS[4], APS[5]]), 'seed': rng.randrange(1000),
                'ip': rng.random() < 0.25, 'lp': rng.choice([None, {'segment_count': 6}])}

    def build(self, spec):
        t = _collection('temp', spec['ap'], spec['seed'], -5, 38)
        rh = _collection('rh', spec['ap'], spec['seed'] + 1, 10, 95)
        if spec['ip']:
            return self.cls()(t, rh, legend_parameters=_legend_par(spec['lp']), use_ip=True,
                              min_temperature=-5, max_temperature=115, y_dim=1500 * 9 / 5.)
        return self.cls()(t, rh, legend_parameters=_legend_par(spec['lp']))


class CompassSpec(Spec):
    name = 'Compass'

    def cls(self):
        from ladybug.compass import Compass
        return Compass

    def gen(self, rng):
        return {'radius': rng.choice([100, 1, 42.5]), 'center': [rng.choice([0, 7.5]), rng.choice([0, -2])],
                'north': rng.choice([0, 0, 30, -90, 359]), 'spacing': rng.choice([0.15, 0.3])}

    def build(self, spec):
        return self.cls()(spec['radius'], _pt2(spec['center']), spec['north'], spec['spacing'])

    setters = {
        'radius': lambda rng: rng.choice([100, 1, 42.5, 10]),
        'center': lambda rng: [rng.choice([0, 7.5, -1]), rng.choice([0, -2, 3])],
        'north_angle': lambda rng: rng.choice([0, 30, -90, 359, 180.5]),
        'north_vector': lambda rng: rng.choice([[0, 1], [1, 0], [0.6, 0.8], [-1, -1]]),
        'spacing_factor': lambda rng: rng.choice([0.15, 0.3, 0.05]),
    }
    overrides = {'north_angle': ['north_vector'], 'north_vector': ['north_angle']}

    def decode(self, name, value):
        if name == 'center':
            return _pt2(value)
        if name == 'north_vector':
            from ladybug_geometry.geometry2d.pointvector import Vector2D
            return Vector2D(*value)
        return value


TERRAINS = ['city', 'suburban', 'country', 'water']
WIND_HEIGHTS = [0.5, 1, 2, 10, 10.0, 30, 100.5, 270, 500]


def _wind_reads():
    out = []
    for h in WIND_HEIGHTS:
        for v in (1, 5.5):
            out.append(('calculate_wind(%r,%r)' % (v, h), (lambda v, h: lambda o: o.calculate_wind(v, h))(v, h)))
    return out


class WindProfileSpec(Spec):
    name = 'WindProfile'

    def cls(self):
        from ladybug.windprofile import WindProfile
        return WindProfile

    def gen(self, rng):
        return {'terrain': rng.choice(TERRAINS), 'met_terrain': rng.choice(TERRAINS),
                'met_height': rng.choice([10, 10, 2, 30.5, 100]), 'log_law': rng.random() < 0.5}

    def build(self, spec):
        return self.cls()(spec['terrain'], spec['met_terrain'], spec['met_height'], spec['log_law'])

    setters = {
        'terrain': lambda rng: rng.choice(TERRAINS),
        'meteorological_terrain': lambda rng: rng.choice(TERRAINS),
        'meteorological_height': lambda rng: rng.choice([10, 2, 30.5, 100, 5]),
        'log_law': lambda rng: rng.random() < 0.5,
        'boundary_layer_height': lambda rng: rng.choice([460, 300.5, 210, 1000]),
        'power_law_exponent': lambda rng: rng.choice([0.33, 0.1, 0.5, 0.25]),
        'roughness_length': lambda rng: rng.choice([1.0, 0.03, 0.25, 0.5]),
        'met_boundary_layer_height': lambda rng: rng.choice([270, 300.5, 210, 1000]),
        'met_power_law_exponent': lambda rng: rng.choice([0.14, 0.1, 0.5, 0.25]),
        'met_roughness_length': lambda rng: rng.choice([0.1, 0.03, 0.25, 1.0]),
    }
    overrides = {'terrain': ['boundary_layer_height', 'power_law_exponent', 'roughness_length'],
                 'meteorological_terrain': ['met_boundary_layer_height', 'met_power_law_exponent',
                                            'met_roughness_length']}
    extra_reads = _wind_reads()


SPECS = dict((s.name, s) for s in [
    ViewSphereSpec(), SqlSpec(), EpwSpec(), ApSpec(), HccSpec(), HourlyPlotSpec(), WindRoseSpec(),
    MonthlyChartSpec(), PsychSpec(), CompassSpec(), WindProfileSpec()])


def all_reads(spec_obj, spec):
    """Names of everything that is read on an object of this class: public properties + extras."""
    names = spec.get('props') or spec_obj.props()
    return list(names) + [lbl for lbl, _ in spec_obj.extra_reads]


def do_read(spec_obj, obj, name):
    for lbl, f in spec_obj.extra_reads:
        if lbl == name:
            try:
                return canon(f(obj))
            except Exception as e:
                return ['raises', type(e).__name__]
    return read(obj, name)


def final_settings(spec_obj, calls):
    """Minimal 'final settings' of a list of successful setter calls [(name, value)]:
    the last value per setter, dropping values a later overriding setter discards
    (e.g. WindProfile.terrain re-initialises the three location parameters),
    in order of the surviving calls."""
    last = {}
    for i, (n, v) in enumerate(calls):
        last[n] = i
        for o in spec_obj.overrides.get(n, []):
            last.pop(o, None)
    keep = sorted(last.values())
    return [calls[i] for i in keep]
