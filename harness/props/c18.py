"""C18 — Cached and lazily loaded results do not depend on the order of use.

Model: lean/Ladybug/Model/Lazy.lean (generic memo objects + table machine), Model/WindProfile.lean;
theorems: lean/Ladybug/Props/C18.lean; driver: drv_c18.
Tie: translators (Gen/LazyDeps from the eight table classes, Gen/WindTables from windprofile.py)
+ correspondence (WindProfile model vs real on setter sequences; table machine verdicts vs real
objects; static tables vs attribute accesses traced at run time).

First part of this file: factories, canonicalisation and setter descriptions for the anchored
classes.  Everything builds inputs from plain numbers (stdlib `random` seeded from the JSON spec),
so a stored replay input is self-contained.
"""
import copy
import json
import math
import os
import random
import struct

from harness import core
from harness.core import run_oracle_cases

REPO = os.environ.get('LADYBUG_REPO', '/repo')
SQL_DIR = os.path.join(REPO, 'tests', 'assets', 'sql')
EPW_DIR = os.path.join(REPO, 'tests', 'assets', 'epw')

SQL_FILES = ['eplusout_daily.sql', 'eplusout_dday_runper.sql', 'eplusout_design_days.sql',
             'eplusout_hourly.sql', 'eplusout_monthly.sql', 'eplusout_odd_zonesize.sql',
             'eplusout_openstudio.sql', 'eplusout_timestep.sql']
EPW_FILES = ['chicago.epw', 'tokyo.epw', 'mannheim.epw', 'long_beach_2021.epw',
             'los_angeles_no_leap_field.epw']


# ---------------------------------------------------------------------------------------------
# canonical form of a returned value (exact: the same computation must give the same bits)


def canon(x, depth=0):
    if depth > 12:
        return '<deep>'
    if x is None or isinstance(x, (bool, int, str)):
        return x
    if isinstance(x, float):
        return 'f:' + (repr(x) if x == x else 'nan')
    if isinstance(x, (list, tuple)):
        return [canon(v, depth + 1) for v in x]
    if isinstance(x, (set, frozenset)):
        return ['set'] + sorted((canon(v, depth + 1) for v in x), key=repr)
    if isinstance(x, dict):
        return {'dict': sorted(([canon(k, depth + 1), canon(v, depth + 1)] for k, v in x.items()),
                               key=repr)}
    cname = type(x).__name__
    if cname in ('DateTime', 'Date', 'Time'):
        return [cname, str(x), getattr(x, 'leap_year', None)]
    if cname == 'AnalysisPeriod':
        return [cname, repr(x)]
    if isinstance(x, type):
        return ['class', x.__name__]
    if cname == 'timedelta':
        return [cname, x.total_seconds()]
    for meth in ('to_dict',):
        f = getattr(x, meth, None)
        if callable(f):
            try:
                return [cname, canon(f(), depth + 1)]
            except Exception:
                pass
    f = getattr(x, 'to_array', None)
    if callable(f):
        try:
            return [cname, canon(f(), depth + 1)]
        except Exception:
            pass
    slots = []
    for klass in type(x).__mro__:
        s = getattr(klass, '__slots__', ())
        slots += [s] if isinstance(s, str) else list(s)
    if slots:
        out = []
        for s in slots:
            try:
                out.append([s, canon(getattr(x, s), depth + 1)])
            except AttributeError:
                out.append([s, '<unset>'])
        return [cname, out]
    if hasattr(x, '__dict__'):
        return [cname, canon(dict(x.__dict__), depth + 1)]
    r = repr(x)
    if ' at 0x' in r:
        r = '<%s>' % cname
    return [cname, r]


def read(obj, name):
    """Canonical result of one public read (exceptions are results too)."""
    try:
        return canon(getattr(obj, name))
    except Exception as e:
        return ['raises', type(e).__name__]


def public_props(cls):
    """All public property names of a class, sorted (the 'public read-only attributes')."""
    out = []
    for n in dir(cls):
        if n.startswith('_'):
            continue
        if isinstance(getattr(cls, n, None), property):
            out.append(n)
    return sorted(out)


# ---------------------------------------------------------------------------------------------
# data builders


def _aperiod(ap):
    from ladybug.analysisperiod import AnalysisPeriod
    return AnalysisPeriod(*ap)


def _collection(kind, ap, seed, lo, hi, integer=False):
    """Hourly continuous collection over `ap` with pseudo-random values from `seed`."""
    from ladybug.header import Header
    from ladybug.datacollection import HourlyContinuousCollection
    from ladybug.datatype.temperature import Temperature
    from ladybug.datatype.fraction import RelativeHumidity
    from ladybug.datatype.speed import Speed
    from ladybug.datatype.angle import Angle
    from ladybug.datatype.energy import Energy
    dt, unit = {'temp': (Temperature(), 'C'), 'rh': (RelativeHumidity(), '%'),
                'speed': (Speed(), 'm/s'), 'dir': (Angle(), 'degrees'),
                'energy': (Energy(), 'kWh')}[kind]
    a = _aperiod(ap)
    n = len(a)
    r = random.Random(seed)
    if integer:
        vals = [float(r.randrange(int(lo), int(hi))) for _ in range(n)]
    else:
        vals = [round(r.uniform(lo, hi), 2) for _ in range(n)]
    return HourlyContinuousCollection(Header(dt, unit, a, {'source': 'c18-%d' % seed}), vals)


def _legend_par(lp):
    from ladybug.legend import LegendParameters
    if lp is None:
        return None
    return LegendParameters(min=lp.get('min'), max=lp.get('max'),
                            segment_count=lp.get('segment_count'))


def _pt2(p):
    from ladybug_geometry.geometry2d.pointvector import Point2D
    return Point2D(*p)


def _pt3(p):
    from ladybug_geometry.geometry3d.pointvector import Point3D
    return Point3D(*p)


# ---------------------------------------------------------------------------------------------
# class registry: build(spec) -> object; gen(rng) -> spec; setters (name -> value generator)

APS = [[1, 1, 0, 12, 31, 23, 1, False], [3, 10, 0, 3, 20, 23, 1, False], [6, 1, 8, 6, 30, 17, 1, False],
       [12, 20, 0, 1, 10, 23, 1, False], [2, 1, 0, 3, 5, 23, 1, True], [5, 5, 0, 5, 9, 23, 2, False],
       [7, 1, 20, 7, 5, 4, 1, False], [1, 1, 6, 2, 10, 18, 4, False], [2, 28, 0, 3, 1, 23, 1, True]]


APS_FULL = [a for a in APS if a[2] == 0 and a[5] == 23]


def _pick_ap(rng):
    """mostly short full-day periods; the annual one now and then"""
    return APS_FULL[0] if rng.random() < 0.05 else rng.choice(APS_FULL[1:])


class Spec(object):
    name = ''
    setters = {}          # setter name -> function(rng) -> JSON-able value
    overrides = {}        # setter name -> list of setter names whose earlier values it discards
    extra_reads = []      # additional derived results: (label, function(obj) -> value)

    def cls(self):
        raise NotImplementedError

    def gen(self, rng):
        return {}

    def build(self, spec):
        raise NotImplementedError

    def props(self):
        return public_props(self.cls())

    def decode(self, name, value):
        return value

    def apply(self, obj, name, value):
        setattr(obj, name, self.decode(name, value))


class ViewSphereSpec(Spec):
    name = 'ViewSphere'

    def cls(self):
        from ladybug.viewsphere import ViewSphere
        return ViewSphere

    def build(self, spec):
        return self.cls()()


class SqlSpec(Spec):
    name = 'SQLiteResult'

    def cls(self):
        from ladybug.sql import SQLiteResult
        return SQLiteResult

    def gen(self, rng):
        return {'file': rng.choice(SQL_FILES)}

    def build(self, spec):
        return self.cls()(os.path.join(SQL_DIR, spec['file']))


EPW_STATE_PROPS = ['is_header_loaded', 'is_data_loaded']   # report the loading state itself: excluded
EPW_HEADER_PROPS = ['location', 'metadata', 'is_leap_year', 'is_ip',
                    'file_path', 'ashrae_climate_zone', 'annual_heating_design_day_996',
                    'annual_heating_design_day_990', 'annual_cooling_design_day_004',
                    'annual_cooling_design_day_010', 'heating_design_condition_dictionary',
                    'cooling_design_condition_dictionary', 'extreme_design_condition_dictionary',
                    'extreme_hot_weeks', 'extreme_cold_weeks', 'typical_weeks',
                    'monthly_ground_temperature', 'header']


class EpwSpec(Spec):
    name = 'EPW'

    def cls(self):
        from ladybug.epw import EPW
        return EPW

    def gen(self, rng):
        allp = [p for p in public_props(self.cls()) if p not in EPW_STATE_PROPS]
        data = [p for p in allp if p not in EPW_HEADER_PROPS]
        keep = sorted(rng.sample(data, min(len(data), 5)) + [p for p in allp if p in EPW_HEADER_PROPS])
        return {'file': rng.choice(EPW_FILES), 'props': keep}

    def build(self, spec):
        return self.cls()(os.path.join(EPW_DIR, spec['file']))


class ApSpec(Spec):
    name = 'AnalysisPeriod'

    def cls(self):
        from ladybug.analysisperiod import AnalysisPeriod
        return AnalysisPeriod

    def gen(self, rng):
        if rng.random() < 0.5:
            return {'ap': rng.choice(APS)}
        leap = rng.random() < 0.3
        dim = [31, 29 if leap else 28, 31, 30, 31, 30, 31, 31, 30, 31, 30, 31]
        m1, m2 = rng.randrange(1, 13), rng.randrange(1, 13)
        ts = rng.choice([1, 1, 2, 3, 4, 6, 12, 60])
        d1, d2 = rng.randrange(1, dim[m1 - 1] + 1), rng.randrange(1, dim[m2 - 1] + 1)
        if ts >= 12:            # fine time steps only on short periods (an annual one has 525600 steps)
            m2 = m1
            d1, d2 = sorted([d1, rng.randrange(1, dim[m1 - 1] + 1)])
        return {'ap': [m1, d1, rng.randrange(24), m2, d2, rng.randrange(24), ts, leap]}

    def build(self, spec):
        return _aperiod(spec['ap'])

    extra_reads = [('len', len), ('str', str)]


class HccSpec(Spec):
    name = 'HourlyContinuousCollection'

    def cls(self):
        from ladybug.datacollection import HourlyContinuousCollection
        return HourlyContinuousCollection

    def gen(self, rng):
        return {'ap': _pick_ap(rng), 'seed': rng.randrange(1000)}

    def build(self, spec):
        return _collection('temp', spec['ap'], spec['seed'], -10, 35)


class HourlyPlotSpec(Spec):
    name = 'HourlyPlot'

    def cls(self):
        from ladybug.hourlyplot import HourlyPlot
        return HourlyPlot

    def gen(self, rng):
        return {'ap': _pick_ap(rng), 'seed': rng.randrange(1000),
                'x_dim': rng.choice([1, 2.5]), 'y_dim': rng.choice([4, 1.5]),
                'z_dim': rng.choice([0, 0, 10]), 'reverse_y': rng.random() < 0.4,
                'base': [rng.choice([0, 5.5]), rng.choice([0, -3.0]), 0]}

    def build(self, spec):
        c = _collection('temp', spec['ap'], spec['seed'], -10, 35)
        return self.cls()(c, None, _pt3(spec['base']), spec['x_dim'], spec['y_dim'], spec['z_dim'],
                          spec['reverse_y'])


class WindRoseSpec(Spec):
    name = 'WindRose'

    def cls(self):
        from ladybug.windrose import WindRose
        return WindRose

    def gen(self, rng):
        return {'ap': _pick_ap(rng), 'seed': rng.randrange(1000),
                'count': rng.choice([4, 8, 8, 16, 3]), 'calm': rng.choice([0.0, 0.1, 0.3])}

    def build(self, spec):
        d = _collection('dir', spec['ap'], spec['seed'], 0, 360, integer=True)
        s = _collection('speed', spec['ap'], spec['seed'] + 1, 0.1, 12)
        r = random.Random(spec['seed'] + 2)
        vals = [0.0 if r.random() < spec['calm'] else v for v in s.values]
        s.values = vals
        return self.cls()(d, s, spec['count'])

    setters = {
        'north': lambda rng: rng.choice([0, 30, 90.5, -45, 270, 359]),
        'show_freq': lambda rng: rng.random() < 0.5,
        'show_zeros': lambda rng: rng.random() < 0.5,
        'frequency_spacing_distance': lambda rng: rng.choice([10.0, 5, 2.5, 25]),
        'frequency_hours': lambda rng: rng.choice([200, 50, 25, 100, 10]),
        'frequency_intervals_compass': lambda rng: rng.choice([1, 2, 3, 5, 8, 12]),
        'base_point': lambda rng: [rng.choice([0, 10.0, -4]), rng.choice([0, 3.5])],
        'legend_parameters': lambda rng: rng.choice(
            [None, {'segment_count': 5}, {'min': 0, 'max': 8}, {'segment_count': 3, 'max': 6}]),
    }

    def decode(self, name, value):
        if name == 'base_point':
            return _pt2(value)
        if name == 'legend_parameters':
            return _legend_par(value)
        return value


class MonthlyChartSpec(Spec):
    name = 'MonthlyChart'

    def cls(self):
        from ladybug.monthlychart import MonthlyChart
        return MonthlyChart

    def gen(self, rng):
        return {'ap': APS[0] if rng.random() < 0.08 else rng.choice([APS[1], APS[4], APS[3]]),
                'seed': rng.randrange(1000),
                'kinds': rng.choice([['temp'], ['temp', 'rh'], ['energy', 'energy'], ['energy', 'temp']]),
                'form': rng.choice(['hourly', 'monthly', 'daily', 'mph']), 'stack': rng.random() < 0.4,
                'lp': rng.choice([None, {'min': -20, 'max': 60}, {'segment_count': 6}])}

    def build(self, spec):
        colls = []
        for i, k in enumerate(spec['kinds']):
            lo, hi = {'temp': (-10, 35), 'rh': (5, 100), 'energy': (0, 50)}[k]
            c = _collection(k, spec['ap'], spec['seed'] + i, lo, hi)
            c.header.metadata['type'] = '%s-%d' % (k, i)
            if spec['form'] == 'monthly':
                c = c.total_monthly() if k == 'energy' else c.average_monthly()
            elif spec['form'] == 'daily':
                c = c.total_daily() if k == 'energy' else c.average_daily()
            elif spec['form'] == 'mph':
                c = c.average_monthly_per_hour()
            colls.append(c)
        return self.cls()(colls, _legend_par(spec['lp']), stack=spec['stack'])

    # method setters: ('set_minimum_by_index', index) are modelled as two named settings each
    setters = {
        'min0': lambda rng: rng.choice([-30, -5.5, 0, 2]),
        'max0': lambda rng: rng.choice([40, 70.5, 100, 200]),
        'min1': lambda rng: rng.choice([-30, -5.5, 0, 2]),
        'max1': lambda rng: rng.choice([40, 70.5, 100, 200]),
    }

    def apply(self, obj, name, value):
        idx = int(name[-1])
        if name.startswith('min'):
            obj.set_minimum_by_index(value, idx)
        else:
            obj.set_maximum_by_index(value, idx)


class PsychSpec(Spec):
    name = 'PsychrometricChart'

    def cls(self):
        from ladybug.psychchart import PsychrometricChart
        return PsychrometricChart

    def gen(self, rng):
        return {'ap': rng.choice(APS_FULL[1:]), 'seed': rng.randrange(1000),
                'ip': rng.random() < 0.25, 'lp': rng.choice([None, {'segment_count': 6}])}

    def build(self, spec):
        t = _collection('temp', spec['ap'], spec['seed'], -5, 38)
        rh = _collection('rh', spec['ap'], spec['seed'] + 1, 10, 95)
        if spec['ip']:
            return self.cls()(t, rh, legend_parameters=_legend_par(spec['lp']), use_ip=True,
                              min_temperature=-5, max_temperature=115, y_dim=1500 * 9 / 5.)
        return self.cls()(t, rh, legend_parameters=_legend_par(spec['lp']))


class CompassSpec(Spec):
    name = 'Compass'

    def cls(self):
        from ladybug.compass import Compass
        return Compass

    def gen(self, rng):
        return {'radius': rng.choice([100, 1, 42.5]), 'center': [rng.choice([0, 7.5]), rng.choice([0, -2])],
                'north': rng.choice([0, 0, 30, -90, 359]), 'spacing': rng.choice([0.15, 0.3])}

    def build(self, spec):
        return self.cls()(spec['radius'], _pt2(spec['center']), spec['north'], spec['spacing'])

    setters = {
        'radius': lambda rng: rng.choice([100, 1, 42.5, 10]),
        'center': lambda rng: [rng.choice([0, 7.5, -1]), rng.choice([0, -2, 3])],
        'north_angle': lambda rng: rng.choice([0, 30, -90, 359, 180.5]),
        'north_vector': lambda rng: rng.choice([[0, 1], [1, 0], [0.6, 0.8], [-1, -1]]),
        'spacing_factor': lambda rng: rng.choice([0.15, 0.3, 0.05]),
    }
    overrides = {'north_angle': ['north_vector'], 'north_vector': ['north_angle']}

    def decode(self, name, value):
        if name == 'center':
            return _pt2(value)
        if name == 'north_vector':
            from ladybug_geometry.geometry2d.pointvector import Vector2D
            return Vector2D(*value)
        return value


TERRAINS = ['city', 'suburban', 'country', 'water']
WIND_HEIGHTS = [0.5, 1, 2, 10, 10.0, 30, 100.5, 270, 500]


def _wind_reads():
    out = []
    for h in WIND_HEIGHTS:
        for v in (1, 5.5):
            out.append(('calculate_wind(%r,%r)' % (v, h), (lambda v, h: lambda o: o.calculate_wind(v, h))(v, h)))
    return out


class WindProfileSpec(Spec):
    name = 'WindProfile'

    def cls(self):
        from ladybug.windprofile import WindProfile
        return WindProfile

    def gen(self, rng):
        return {'terrain': rng.choice(TERRAINS), 'met_terrain': rng.choice(TERRAINS),
                'met_height': rng.choice([10, 10, 2, 30.5, 100]), 'log_law': rng.random() < 0.5}

    def build(self, spec):
        return self.cls()(spec['terrain'], spec['met_terrain'], spec['met_height'], spec['log_law'])

    setters = {
        'terrain': lambda rng: rng.choice(TERRAINS),
        'meteorological_terrain': lambda rng: rng.choice(TERRAINS),
        'meteorological_height': lambda rng: rng.choice([10, 2, 30.5, 100, 5]),
        'log_law': lambda rng: rng.random() < 0.5,
        'boundary_layer_height': lambda rng: rng.choice([460, 300.5, 210, 1000]),
        'power_law_exponent': lambda rng: rng.choice([0.33, 0.1, 0.5, 0.25]),
        'roughness_length': lambda rng: rng.choice([1.0, 0.03, 0.25, 0.5]),
        'met_boundary_layer_height': lambda rng: rng.choice([270, 300.5, 210, 1000]),
        'met_power_law_exponent': lambda rng: rng.choice([0.14, 0.1, 0.5, 0.25]),
        'met_roughness_length': lambda rng: rng.choice([0.1, 0.03, 0.25, 1.0]),
    }
    overrides = {'terrain': ['boundary_layer_height', 'power_law_exponent', 'roughness_length'],
                 'meteorological_terrain': ['met_boundary_layer_height', 'met_power_law_exponent',
                                            'met_roughness_length']}
    extra_reads = _wind_reads()


SPECS = dict((s.name, s) for s in [
    ViewSphereSpec(), SqlSpec(), EpwSpec(), ApSpec(), HccSpec(), HourlyPlotSpec(), WindRoseSpec(),
    MonthlyChartSpec(), PsychSpec(), CompassSpec(), WindProfileSpec()])


def all_reads(spec_obj, spec):
    """Names of everything that is read on an object of this class: public properties + extras."""
    names = spec.get('props') or spec_obj.props()
    return list(names) + [lbl for lbl, _ in spec_obj.extra_reads]


def do_read(spec_obj, obj, name):
    for lbl, f in spec_obj.extra_reads:
        if lbl == name:
            try:
                return canon(f(obj))
            except Exception as e:
                return ['raises', type(e).__name__]
    return read(obj, name)


def final_settings(spec_obj, calls):
    """Minimal 'final settings' of a list of successful setter calls [(name, value)]:
    the last value per setter, dropping values a later overriding setter discards
    (e.g. WindProfile.terrain re-initialises the three location parameters),
    in order of the surviving calls."""
    last = {}
    for i, (n, v) in enumerate(calls):
        last[n] = i
        for o in spec_obj.overrides.get(n, []):
            last.pop(o, None)
    keep = sorted(last.values())
    return [calls[i] for i in keep]


# =============================================================================================
# the check module
# =============================================================================================

PROP = 'C18'
PROOF_MODULES = ['Ladybug.Props.C18']
GREP_MODULES = ['Ladybug.Model.Lazy', 'Ladybug.Model.WindProfile', 'Ladybug.Gen.LazyDeps',
                'Ladybug.Gen.WindTables', 'Ladybug.Proofs.C18Lemmas', 'Ladybug.Proofs.C18Table', 'Ladybug.Proofs.C18Wind',
                'Ladybug.Drv.C18', 'Ladybug.DrvCore']
RULE = ('correspondence: (wind) random constructor arguments + 0-12 setter calls (10 % rejected ones) + '
        'calculate_wind at boundary-biased heights, model vs real WindProfile (1e-12 relative); (tm) random '
        'read/setter histories on the eight table classes, table-machine verdict vs the real object compared with '
        'a fresh object; (trace) attribute reads/writes of every getter/setter recorded on a tracing subclass must '
        'be inside the static table. oracle: per class random permutations/repetitions of all public properties on '
        'one object vs first reads on fresh objects, and setter histories with interleaved reads vs a fresh object '
        'built with the final settings; every EPW header setter / plain header attribute as the FIRST operation on a fresh EPW(path) followed by reads vs an EPW whose header was imported before the same call (argument must stay unchanged); cross-object histories (2-4 objects of one class with different settings, incl. analysis periods covering the same minutes of the year with different leap flags / time steps, read interleaved) vs first reads evaluated in a forked fresh process; WindProfile identity and monotonicity. A case is non-trivial when it '
        'performs at least one read after another read or setter; distinct = distinct (op, input)')
TRUSTED_BASE = [
    'translator tools/extract/lazy_deps.py: that the read/write sets it derives over-approximate what the getter/'
    'setter code touches (cross-checked on every run by tracing the real objects: dynamic subset of static) and '
    'that equal code hashes mean equal defining expressions',
    'translator tools/extract/wind_tables.py: copies TERRAIN_PARAMETERS and, per setter, the attributes assigned '
    'and the _compute_* helpers called; the bodies of _compute_met_power_denom/_compute_met_log_denom/'
    'calculate_wind/__init__ are compared as ast with the modelled text',
    'semantic assumption of theorem C18_frame_of_table: a defining expression depends only on the attributes it '
    'reads (no hidden global state); file contents of the .sql/.epw assets do not change during a run',
    'the table machine is PROVED to answer ok on every history of a well-formed table (C18_table_sound); what is '
    'trusted is that the table machine with the regenerated table describes the real class: exercised by the '
    'correspondence (tm) on random histories and by the run-time tracing of attribute accesses',
    'translator conventions: only `self._x is None` / `not self._x` tests count as cache guards; a value-dependent '
    'rewrite of a slot by its own getter is a `refine` (SQLiteResult.reporting_frequency); an attribute assigned '
    'unconditionally before every direct read is a temporary, not a cache (WindRose._poly_array); members inherited '
    'by HourlyContinuousCollection are taken from the two base classes named in lazy_deps.BASES',
    'Float pow/log of the driver vs CPython (same libm; compared within 1e-12 relative)',
]
ASSUMPTIONS = ['heights and speeds passed to calculate_wind are >= 0',
               'SQLiteResult.reporting_frequency and the order of available_outputs(_info)/component_types come from a '
               'set iteration and depend on the process hash seed: compared inside one process only',
               'EPW.is_header_loaded / is_data_loaded report the loading state itself and are excluded from the '
               'order-independence claim']
TECHNIQUE = ('Lean 4 proof (induction over read/setter histories of a generic memo object and of the WindProfile state '
             'machine; decide on dependency tables regenerated from the source; Real.rpow/Real.log facts) tied to the '
             'code by translators, run-time tracing and differential correspondence')
LEVEL_TEXT = ('Machine-checked Lean 4 theorems: for a generic memo object all read histories are order/repetition '
              'independent and, when every setter clears the slots that read its field, every read after any '
              'read/setter history equals that of a fresh object with the final settings; the table machine (the '
              'executable semantics compared with the real objects) is proved to answer every read of every history '
              'with the getter\'s own expression on the current settings for every well-formed table '
              '(C18_table_sound), and the dependency tables of ViewSphere, SQLiteResult, AnalysisPeriod, HourlyPlot, '
              'WindRose, MonthlyChart, PsychrometricChart and Compass (HourlyContinuousCollection: read-only part) are '
              'regenerated from the source on every run and proved (decide) well-formed; '
              'WindProfile: for all setter sequences the object equals a fresh one with the final settings, and over '
              'the reals it returns the meteorological speed at the meteorological height and never decreases with '
              'height. EPW lazy loading (flag-guarded import through a helper) is covered by the oracle only.')
LEVEL_NOTE = ('Trusted: Lean kernel, standard axioms, the two translators (cross-checked by run-time tracing), the '
              'correspondence run, float vs real arithmetic. The log-law identity needs met height > roughness length; '
              'the setters do not enforce it (known finding).')


def extract(ctx):
    from tools.extract import lazy_deps, wind_tables
    ctx.wind = wind_tables.extract()
    ctx.tabs = lazy_deps.extract()


def _fbits(x):
    return '%016x' % struct.unpack('<Q', struct.pack('<d', float(x)))[0]


def _unbits(s):
    return struct.unpack('<d', struct.pack('<Q', int(s, 16)))[0]


def _close(a, b):
    if a == b:
        return True
    return abs(a - b) <= 1e-12 * max(abs(a), abs(b), 1e-300)


# ---------------------------------------------------------------------------------------------
# correspondence 1: WindProfile model vs real

WKINDS = ['terrain', 'meteorological_terrain', 'meteorological_height', 'log_law', 'boundary_layer_height',
          'power_law_exponent', 'roughness_length', 'met_boundary_layer_height', 'met_power_law_exponent',
          'met_roughness_length']


def _terr_tok(t):
    tl = t.lower() if isinstance(t, str) else None
    return str(TERRAINS.index(tl)) if tl in TERRAINS else 'x'


def _gen_wind_case(rng, malformed):
    def terr():
        if malformed and rng.random() < 0.3:
            return rng.choice(['forest', 'urban', ''])
        t = rng.choice(TERRAINS)
        return t.upper() if rng.random() < 0.1 else t

    def num(kind):
        if malformed and rng.random() < 0.4:
            return rng.choice([0, -1, -0.5, 1, 1.5]) if 'exponent' in kind else rng.choice([0, -1, -2.5])
        if 'exponent' in kind:
            return rng.choice([0.33, 0.22, 0.14, 0.1, round(rng.uniform(0.01, 0.99), 3)])
        if 'roughness' in kind:
            return rng.choice([1.0, 0.5, 0.1, 0.03, round(rng.uniform(0.001, 3), 3), 2])
        if 'boundary' in kind:
            return rng.choice([460, 370, 270, 210, round(rng.uniform(50, 1500), 1)])
        return rng.choice([10, 2, 30.5, 100, 5, round(rng.uniform(0.2, 200), 2), 1])
    calls = []
    for _ in range(rng.randrange(0, 13)):
        k = rng.randrange(10)
        name = WKINDS[k]
        if k < 2:
            calls.append([k, terr()])
        elif k == 3:
            calls.append([k, rng.random() < 0.5])
        else:
            calls.append([k, num(name)])
    qs = []
    for _ in range(6):
        h = rng.choice(WIND_HEIGHTS + [0, 0.03, 0.1, 1.0, round(rng.uniform(0, 600), 2)])
        qs.append([rng.choice([0, 1, 5.5, round(rng.uniform(0, 40), 2)]), h])
    return {'t': terr(), 'mt': terr(), 'mh': num('meteorological_height'), 'll': rng.random() < 0.5,
            'calls': calls, 'qs': qs}


def _wind_line(c):
    toks = ['wind', _terr_tok(c['t']), _terr_tok(c['mt']), _fbits(c['mh']), '1' if c['ll'] else '0',
            str(len(c['calls']))]
    for k, a in c['calls']:
        toks.append(str(k))
        toks.append(_terr_tok(a) if k < 2 else ('1' if a else '0') if k == 3 else _fbits(a))
    toks.append(str(len(c['qs'])))
    for v, h in c['qs']:
        toks += [_fbits(v), _fbits(h)]
    return ' '.join(toks)


def _wind_impl(c):
    from ladybug.windprofile import WindProfile
    try:
        w = WindProfile(c['t'], c['mt'], c['mh'], c['ll'])
    except Exception as e:
        return 'err:' + core.err_name(e)
    st = ''
    for k, a in c['calls']:
        try:
            setattr(w, WKINDS[k], a)
            st += '0'
        except AssertionError:
            st += 'a'
        except ValueError:
            st += 'v'
    nums = [w.meteorological_height, w.boundary_layer_height, w.power_law_exponent, w.roughness_length,
            w.met_boundary_layer_height, w.met_power_law_exponent, w.met_roughness_length]
    res = []
    for v, h in c['qs']:
        try:
            res.append(_fbits(w.calculate_wind(v, h)))
        except ZeroDivisionError:
            res.append('err:zero')
    return 'ok [%s] %d %d %s %s | %s' % (st, TERRAINS.index(w.terrain), TERRAINS.index(w.meteorological_terrain),
                                        '1' if w.log_law else '0', ' '.join(_fbits(x) for x in nums), ' '.join(res))


def _wind_same(mo, io):
    """model line vs impl line: exact tokens, floats within 1e-12; the model's two trailing cfg
    tokens (the private denominators) are not compared"""
    if mo.startswith('err') or io.startswith('err'):
        return mo == io
    mh, mr = mo.split(' | ') if ' | ' in mo else (mo.rstrip(' |'), '')
    ih, ir = io.split(' | ') if ' | ' in io else (io.rstrip(' |'), '')
    mt, it = mh.split(), ih.split()
    if mt[:5] != it[:5] or len(mt) != len(it) + 2:
        return False
    for a, b in zip(mt[5:12], it[5:12]):
        if not _close(_unbits(a), _unbits(b)):
            return False
    mq, iq = mr.split(), ir.split()
    if len(mq) != len(iq):
        return False
    for a, b in zip(mq, iq):
        if a.startswith('err') or b.startswith('err'):
            if a != b:
                return False
        elif not _close(_unbits(a), _unbits(b)):
            return False
    return True


def _corr_wind(ctx):
    rng = ctx.rng
    cases = [_gen_wind_case(rng, rng.random() < 0.12) for _ in range(ctx.n(1500, 40000))]
    lines = [_wind_line(c) for c in cases]
    outs = ctx.driver().run(lines)
    for c, line, mo in zip(cases, lines, outs):
        io = _wind_impl(c)
        ctx.compared += 1
        ctx.count('op:wind')
        ctx.count('wind:calls=%d' % min(len(c['calls']), 12))
        if io.startswith('err'):
            ctx.count('wind:ctor-rejected')
        elif 'a' in io.split(']')[0] or 'v' in io.split(']')[0]:
            ctx.count('wind:some-call-rejected')
        if 'err:zero' in io:
            ctx.count('wind:zero-division')
        ctx.case(('wind', line), nontrivial=not io.startswith('err') and len(c['calls']) > 0)
        if not _wind_same(mo, io):
            ctx.disagree('wind', {'case': c, 'line': line}, mo, io)
    if cases:
        ctx.sample({'op': 'wind', 'request': lines[0], 'model': outs[0]})


# ---------------------------------------------------------------------------------------------
# correspondence 2: table machine vs real objects; 3: traced accesses inside the static tables

TABLE_CLASSES = ['ViewSphere', 'SQLiteResult', 'AnalysisPeriod', 'HourlyPlot', 'WindRose', 'MonthlyChart',
                 'PsychrometricChart', 'Compass', 'HourlyContinuousCollection']


def _setter_choices(S, tab_setter):
    """names of this module's setter descriptions that realise a table setter"""
    if tab_setter == 'set_minimum_by_index()':
        return ['min0', 'min1']
    if tab_setter == 'set_maximum_by_index()':
        return ['max0', 'max1']
    return [tab_setter] if tab_setter in S.setters else []


def _fresh_value(S, spec, calls, name):
    b = S.build(spec)
    for sn, v in final_settings(S, calls):
        S.apply(b, sn, v)
    return do_read(S, b, name)


def _corr_tm(ctx):
    rng = ctx.rng
    tabs = {t['class']: t for t in ctx.tabs}
    budget = ctx.n(18, 300)
    for cname in TABLE_CLASSES:
        S, t = SPECS[cname], tabs[cname]
        gnames = sorted(t['getters'])
        snames = sorted(t['setters'])
        expr_owner = {}
        for g in gnames:
            for st in t['getters'][g]['sites']:
                expr_owner.setdefault(st['expr'], g)
        n_hist = max(3, budget // (6 if cname in ('HourlyPlot', 'ViewSphere', 'PsychrometricChart') else 2))
        hists = []
        for _ in range(n_hist):
            spec = S.gen(rng)
            ops = []
            for _ in range(rng.randrange(2, 9)):
                if snames and rng.random() < 0.35:
                    si = rng.randrange(len(snames))
                    ch = _setter_choices(S, snames[si])
                    if ch:
                        sn = rng.choice(ch)
                        ops.append(['s', si, sn, S.setters[sn](rng)])
                        continue
                ops.append(['g', rng.randrange(len(gnames))])
            hists.append((spec, ops))
        lines = ['tm %s %s' % (cname, ' '.join('%s%d' % (o[0], o[1]) for o in ops)) for _, ops in hists]
        outs = ctx.driver().run(lines)
        for (spec, ops), line, out in zip(hists, lines, outs):
            verdicts = out.split()
            obj = S.build(spec)
            calls, vi = [], 0
            ok_line = True
            for o in ops:
                if o[0] == 's':
                    try:
                        S.apply(obj, o[2], o[3])
                        calls.append((o[2], o[3]))
                    except Exception:
                        ok_line = False     # a rejected call: the table machine has no notion of it
                        break
                    continue
                g = gnames[o[1]]
                got = do_read(S, obj, g)
                v = verdicts[vi] if vi < len(verdicts) else 'missing'
                vi += 1
                ctx.compared += 1
                ctx.count('op:tm')
                ctx.count('tm:%s:%s' % (cname, v.split(':')[0]))
                ctx.case(('tm', cname, line, vi), nontrivial=vi > 1)
                if v == 'ok':
                    want = _fresh_value(S, spec, calls, g)
                    if got != want:
                        ctx.disagree('tm', {'class': cname, 'spec': spec, 'ops': ops, 'read': g},
                                     'ok (value of a fresh object)', json.dumps(got)[:200])
                elif v.startswith('alias:'):
                    owner = expr_owner.get(int(v[6:]))
                    want = _fresh_value(S, spec, calls, owner) if owner else None
                    if got != want:
                        ctx.disagree('tm', {'class': cname, 'spec': spec, 'ops': ops, 'read': g},
                                     'alias of ' + str(owner), json.dumps(got)[:200])
                elif v == 'unset':
                    if got != ['raises', 'AttributeError']:
                        ctx.disagree('tm', {'class': cname, 'spec': spec, 'ops': ops, 'read': g},
                                     'unset (AttributeError)', json.dumps(got)[:200])
                elif v == 'missing':
                    ctx.disagree('tm', {'class': cname, 'line': line}, out, 'more reads than verdicts')
            if not ok_line:
                ctx.count('tm:history-with-rejected-call')
        if hists:
            ctx.sample({'op': 'tm', 'request': lines[0], 'model': outs[0]})


def _tracing_class(cls, log):
    def ga(self, name):
        if name.startswith('_') and not name.startswith('__') and log['on']:
            log['r'].add(name)
        return object.__getattribute__(self, name)

    def sa(self, name, value):
        if name.startswith('_') and not name.startswith('__') and log['on']:
            log['w'].add(name)
        object.__setattr__(self, name, value)
    return type('Traced' + cls.__name__, (cls,), {'__slots__': (), '__getattribute__': ga, '__setattr__': sa})


def _corr_trace(ctx):
    rng = ctx.rng
    tabs = {t['class']: t for t in ctx.tabs}
    for cname in TABLE_CLASSES:
        S, t = SPECS[cname], tabs[cname]
        real = S.cls()
        log = {'on': False, 'r': set(), 'w': set()}
        T = _tracing_class(real, log)
        orig = S.cls
        S.cls = lambda T=T: T
        try:
            for rep in range(ctx.n(1, 3)):
                spec = S.gen(rng)
                funcs = set(dir(real))        # methods and (private) properties are not data attributes
                for g in sorted(t['getters']):
                    obj = S.build(spec)
                    if rep and S.setters:       # also after a setter call
                        sn = rng.choice(sorted(S.setters))
                        try:
                            S.apply(obj, sn, S.setters[sn](rng))
                        except Exception:
                            pass
                    log['r'], log['w'], log['on'] = set(), set(), True
                    try:
                        getattr(obj, g)
                    except Exception:
                        pass
                    log['on'] = False
                    tot = t['totals'][g]
                    dead = set(t['dead'])
                    xr = log['r'] - set(tot['reads']) - funcs - dead
                    xw = log['w'] - set(tot['writes']) - dead
                    ctx.compared += 1
                    ctx.count('op:trace')
                    ctx.case(('trace', cname, g, rep))
                    if xr or xw:
                        ctx.disagree('trace', {'class': cname, 'getter': g, 'spec': spec},
                                     'static reads/writes cover the run',
                                     'extra reads %s extra writes %s' % (sorted(xr), sorted(xw)))
                for sname in sorted(t['setters']):
                    for sn in _setter_choices(S, sname):
                        obj = S.build(spec)
                        log['r'], log['w'], log['on'] = set(), set(), True
                        try:
                            S.apply(obj, sn, S.setters[sn](rng))
                        except Exception:
                            pass
                        log['on'] = False
                        key = 'set:' + sname if not sname.endswith('()') else 'call:' + sname[:-2]
                        tot = t['totals'][key]
                        xw = log['w'] - set(tot['writes'])
                        ctx.compared += 1
                        ctx.count('op:trace')
                        if xw:
                            ctx.disagree('trace', {'class': cname, 'setter': sname, 'spec': spec},
                                         'static writes cover the run', 'extra writes %s' % sorted(xw))
        finally:
            S.cls = orig


def correspondence(ctx):
    _corr_wind(ctx)
    _corr_trace(ctx)
    _corr_tm(ctx)


# ---------------------------------------------------------------------------------------------
# property oracle (independent of the model): the statement of C18 on the real classes


def _sig_reads(cname, name, got, want, spec=None):
    kind = 'raises' if (isinstance(got, list) and got[:1] == ['raises']) else \
        'fresh-raises' if (isinstance(want, list) and want[:1] == ['raises']) else 'differs'
    sig = {'class': cname, 'attr': name, 'kind': kind}
    if spec and 'file' in spec:
        sig['file'] = spec['file']
    return sig



# ---------------------------------------------------------------------------------------------
# EPW header setters used as the FIRST operation on a fresh EPW(path) (lazy import comes later)


def _week(m, d):
    from ladybug.analysisperiod import AnalysisPeriod
    return AnalysisPeriod(m, d, 0, m, d + 6, 23)


def _epw_value(setter, variant):
    """A new argument object for an EPW header setter (built from plain numbers)."""
    from ladybug.designday import DesignDay
    if setter in ('typical_weeks', 'extreme_hot_weeks', 'extreme_cold_weeks'):
        if variant == 0:
            return {'C18 Week': _week(5, 1)}
        if variant == 1:
            return {}
        return {'C18 Week A': _week(2, 3), 'C18 Week B': _week(9, 12)}
    if setter == 'location':
        from ladybug.location import Location
        return Location('C18 City', 'ST', 'CT', 12.5 + variant, -33.25, -2, 44, 'st-%d' % variant, 'c18')
    if setter == 'metadata':
        return {'source': 'c18-%d' % variant, 'city': 'C18 City'}
    keys = {'heating_design_condition_dictionary': 'HEATING_KEYS',
            'cooling_design_condition_dictionary': 'COOLING_KEYS',
            'extreme_design_condition_dictionary': 'EXTREME_KEYS'}
    if setter in keys:
        if variant == 1:
            return {}
        return dict((k, '%d.5' % (i + variant)) for i, k in enumerate(getattr(DesignDay, keys[setter])))
    if setter == 'monthly_ground_temperature':
        if variant == 1:
            return {}
        from ladybug.header import Header
        from ladybug.analysisperiod import AnalysisPeriod
        from ladybug.datacollection import MonthlyCollection
        from ladybug.datatype.temperature import GroundTemperature
        h = Header(GroundTemperature(), 'C', AnalysisPeriod(),
                   {'depth': 0.75, 'soil conductivity': '', 'soil density': '', 'soil specific heat': ''})
        return {0.75: MonthlyCollection(h, [float(10 + i + variant) for i in range(12)], list(range(12)))}
    if setter in ('comments_1', 'comments_2'):
        return 'c18 comment %d' % variant
    if setter in ('daylight_savings_start', 'daylight_savings_end'):
        return ['3/10', '11/3', '4/1'][variant % 3]
    raise ValueError('unknown EPW setter ' + setter)


EPW_SETTERS = ['typical_weeks', 'extreme_hot_weeks', 'extreme_cold_weeks', 'location', 'metadata',
               'heating_design_condition_dictionary', 'cooling_design_condition_dictionary',
               'extreme_design_condition_dictionary', 'monthly_ground_temperature']
# plain public attributes that the header import assigns (no setter code at all)
EPW_PLAIN_ATTRS = ['comments_1', 'comments_2', 'daylight_savings_start', 'daylight_savings_end']
EPW_SETTER_READS = ['location', 'metadata', 'is_leap_year', 'header', 'typical_weeks', 'extreme_hot_weeks',
                    'extreme_cold_weeks', 'heating_design_condition_dictionary',
                    'cooling_design_condition_dictionary', 'extreme_design_condition_dictionary',
                    'monthly_ground_temperature',
                    'dry_bulb_temperature', 'comments_1', 'comments_2', 'daylight_savings_start',
                    'daylight_savings_end']


def _check_epw_setter_first(inp):
    from ladybug.epw import EPW
    path = os.path.join(EPW_DIR, inp['file'])
    setter, variant = inp['setter'], inp['variant']
    S = SPECS['EPW']
    sig = {'class': 'EPW', 'setter': setter, 'file': inp['file']}
    # reference: the header is imported first (a read), then the setter is used
    ref = EPW(path)
    ref.location
    setattr(ref, setter, _epw_value(setter, variant))
    # the setter is the first thing used on a fresh object; reads follow
    obj = EPW(path)
    arg = _epw_value(setter, variant)
    before = canon(arg)
    setattr(obj, setter, arg)
    reads = list(inp['reads']) + [setter, 'header']
    for name in reads:
        got, want = do_read(S, obj, name), do_read(S, ref, name)
        if got != want:
            return {'required': '%s after `%s = value` as first operation equals that of an EPW whose header was '
                                'imported before the same call: %s' % (name, setter, json.dumps(want)[:300]),
                    'observed': json.dumps(got)[:300], 'sig': dict(sig, kind='differs-from-read-first', attr=name)}
        if canon(arg) != before:
            return {'required': 'the argument handed to the setter is unchanged: %s' % json.dumps(before)[:300],
                    'observed': json.dumps(canon(arg))[:300], 'sig': dict(sig, kind='argument-mutated', attr=name)}
    return None


# ---------------------------------------------------------------------------------------------
# process-fresh reference values (for cross-object histories): a helper process that has imported
# ladybug but never built an object forks one child per request, so no memo of any kind
# (instance, class or module level) can carry over from another object.

_FRESH = {'proc': None}
SQL_SET_ORDERED = ('available_outputs', 'available_outputs_info', 'component_types')
# value taken from the last element of a set iteration (mixed-frequency files): differs between processes
# with different string hash seeds, is stable inside one process -> not comparable across processes
SQL_HASH_DEPENDENT = ('reporting_frequency',)


def _fresh_server_main():
    import sys
    sys.path.insert(0, REPO)
    for S in SPECS.values():
        try:
            S.cls()
        except Exception:
            pass
    out = sys.stdout
    for line in sys.stdin:
        line = line.strip()
        if not line:
            continue
        req = json.loads(line)
        r, w = os.pipe()
        pid = os.fork()
        if pid == 0:
            res = {}
            try:
                os.close(r)
                S = SPECS[req['class']]
                for name in req['names']:
                    try:
                        res[name] = do_read(S, S.build(req['spec']), name)
                    except Exception as e:
                        res[name] = ['build-raises', type(e).__name__]
                with os.fdopen(w, 'w') as f:
                    f.write(json.dumps(res))
            finally:
                os._exit(0)
        os.close(w)
        with os.fdopen(r) as f:
            data = f.read()
        os.waitpid(pid, 0)
        out.write((data or '{}').replace('\n', ' ') + '\n')
        out.flush()


def _fresh_eval(cname, spec, names):
    """First-read values of `names` on objects of (class, spec) evaluated in a fresh process."""
    import subprocess
    import sys
    import atexit
    if _FRESH['proc'] is None or _FRESH['proc'].poll() is not None:
        env = dict(os.environ, LADYBUG_REPO=REPO, PYTHONPATH=core.ROOT)
        _FRESH['proc'] = subprocess.Popen(
            [sys.executable, '-c', 'from harness.props import c18; c18._fresh_server_main()'],
            stdin=subprocess.PIPE, stdout=subprocess.PIPE, stderr=subprocess.DEVNULL, env=env, cwd=core.ROOT,
            universal_newlines=True)
        atexit.register(_fresh_stop)
    p = _FRESH['proc']
    p.stdin.write(json.dumps({'class': cname, 'spec': spec, 'names': list(names)}) + '\n')
    p.stdin.flush()
    line = p.stdout.readline()
    if not line:
        raise core.MachineryError('C18 process-fresh helper died')
    return json.loads(line)


def _fresh_stop():
    p = _FRESH['proc']
    if p is not None and p.poll() is None:
        try:
            p.stdin.close()
            p.wait(timeout=5)
        except Exception:
            p.kill()
    _FRESH['proc'] = None


def _check_cross(inp):
    """Several objects of one class with different settings in one process, read in an interleaved
    order; every read must equal the first read in a fresh process."""
    S = SPECS[inp['class']]
    objs = [S.build(sp) for sp in inp['specs']]
    want = {}
    for i, sp in enumerate(inp['specs']):
        names = sorted(set(n for j, n in inp['order'] if j == i))
        if names:
            want[i] = _fresh_eval(inp['class'], sp, names)
    def norm(name, v):
        # lists that sql.py builds by iterating a set: their order depends on the process's string
        # hash seed, which differs between this process and the reference process
        if inp['class'] == 'SQLiteResult' and name in SQL_SET_ORDERED and isinstance(v, list):
            return sorted(v, key=lambda x: json.dumps(x, sort_keys=True))
        return v
    for i, name in inp['order']:
        got = json.loads(json.dumps(do_read(S, objs[i], name)))
        if inp['class'] == 'SQLiteResult' and name in SQL_HASH_DEPENDENT:
            continue
        if norm(name, got) != norm(name, want[i][name]):
            return {'required': '%s of object %d (%s) equals its value in a fresh process: %s'
                                % (name, i, json.dumps(inp['specs'][i]), json.dumps(want[i][name])[:300]),
                    'observed': json.dumps(got)[:300],
                    'sig': {'class': inp['class'], 'attr': name, 'kind': 'depends-on-other-object'}}
    return None


def check_case(op, inp):
    if op == 'epw_setter_first':
        return _check_epw_setter_first(inp)
    if op == 'cross':
        return _check_cross(inp)
    if op == 'reads':
        # one object, a sequence of public reads; each must equal the first read on a fresh object
        S = SPECS[inp['class']]
        spec = inp['spec']
        obj = S.build(spec)
        fresh = {}
        for name in inp['seq']:
            got = do_read(S, obj, name)
            if name not in fresh:
                fresh[name] = do_read(S, S.build(spec), name)
            if got != fresh[name]:
                return {'required': 'read of %s equals first read on a fresh object: %s'
                                    % (name, json.dumps(fresh[name])[:300]),
                        'observed': json.dumps(got)[:300], 'sig': _sig_reads(inp['class'], name, got, fresh[name], spec)}
        return None
    if op == 'setters':
        # history of setter calls with interleaved reads, then every attribute vs a fresh object
        # built directly with the final settings (each attribute first-read on its own pair of objects)
        S = SPECS[inp['class']]
        spec = inp['spec']

        def used():
            o = S.build(spec)
            calls = []
            for h in inp['ops']:
                if h[0] == 'read':
                    do_read(S, o, h[1])
                else:
                    try:
                        S.apply(o, h[1], h[2])
                        calls.append((h[1], h[2]))
                    except (AssertionError, ValueError, TypeError):
                        pass            # a rejected call is not part of the settings
            return o, calls
        for name in inp['check']:
            a, calls = used()
            b = S.build(spec)
            for sn, v in final_settings(S, calls):
                S.apply(b, sn, v)
            got, want = do_read(S, a, name), do_read(S, b, name)
            if got != want:
                setters = sorted(set(h[1] for h in inp['ops'] if h[0] == 'set'))
                return {'required': '%s after the history equals that of a fresh object with the final settings: %s'
                                    % (name, json.dumps(want)[:300]),
                        'observed': json.dumps(got)[:300],
                        'sig': {'class': inp['class'], 'attr': name, 'kind': 'stale-after-setter',
                                'setters': setters if len(setters) <= 2 else 'many'}}
        return None
    if op in ('wind_identity', 'wind_monotone'):
        from ladybug.windprofile import WindProfile
        w = WindProfile(inp['t'], inp['mt'], inp['mh'], inp['ll'])
        for k, a in inp.get('calls', []):
            try:
                setattr(w, WKINDS[k], a)
            except (AssertionError, ValueError):
                pass
        below = w.log_law and w.meteorological_height <= w.met_roughness_length
        sig = {'law': 'log' if w.log_law else 'power', 'met_height_le_roughness': bool(below)}
        if op == 'wind_identity':
            # location terrain := meteorological terrain parameters
            w.boundary_layer_height = w.met_boundary_layer_height
            w.power_law_exponent = w.met_power_law_exponent
            w.roughness_length = w.met_roughness_length
            v = inp['v']
            try:
                got = w.calculate_wind(v, w.meteorological_height)
            except ZeroDivisionError:
                got = 'ZeroDivisionError'
            if got == 'ZeroDivisionError' or abs(got - v) > 1e-9 * max(1.0, abs(v)):
                return {'required': 'speed %r at the meteorological height %r' % (v, w.meteorological_height),
                        'observed': repr(got), 'sig': sig}
            return None
        hs = sorted(inp['heights'])
        prev = None
        for h in hs:
            try:
                cur = w.calculate_wind(inp['v'], h)
            except ZeroDivisionError:
                return {'required': 'a speed at height %r' % h, 'observed': 'ZeroDivisionError', 'sig': sig}
            if prev is not None and cur < prev - 1e-12 * max(1.0, abs(prev)):
                return {'required': 'speed non-decreasing in height (%r at lower height)' % prev,
                        'observed': '%r at height %r' % (cur, h), 'sig': sig}
            prev = cur
        return None
    raise ValueError('unknown op ' + op)


replay = check_case

AP_YEAR = APS_FULL[0]
CORPUS = [
    ('reads', {'class': 'ViewSphere', 'spec': {}, 'seq': ['tregenza_solid_angles', 'reinhart_solid_angles']}),
    ('reads', {'class': 'ViewSphere', 'spec': {}, 'seq': ['reinhart_solid_angles', 'tregenza_solid_angles',
                                                         'tregenza_dome_vectors', 'tregenza_dome_mesh']}),
    ('reads', {'class': 'HourlyPlot', 'spec': {'ap': APS_FULL[1], 'seed': 1, 'x_dim': 1, 'y_dim': 4, 'z_dim': 0,
                                               'reverse_y': False, 'base': [0, 0, 0]},
               'seq': ['hour_labels', 'hour_labels_24', 'hour_lines2d', 'hour_labels_24']}),
    ('reads', {'class': 'SQLiteResult', 'spec': {'file': 'eplusout_timestep.sql'},
               'seq': ['reporting_frequency', 'available_outputs', 'reporting_frequency']}),
    ('reads', {'class': 'SQLiteResult', 'spec': {'file': 'eplusout_hourly.sql'},
               'seq': ['run_period_names', 'run_periods', 'reporting_frequency', 'run_period_names']}),
    # known finding: leap flag known only after the body is read when the header field is missing
    ('reads', {'class': 'EPW', 'spec': {'file': 'los_angeles_no_leap_field.epw'},
               'seq': ['dry_bulb_temperature', 'is_leap_year']}),
    ('reads', {'class': 'EPW', 'spec': {'file': 'los_angeles_no_leap_field.epw'},
               'seq': ['location', 'wind_speed', 'header']}),
    ('reads', {'class': 'EPW', 'spec': {'file': 'los_angeles_no_leap_field.epw'},
               'seq': ['dry_bulb_temperature', 'sky_temperature']}),
    ('reads', {'class': 'EPW', 'spec': {'file': 'chicago.epw'},
               'seq': ['wind_speed', 'header', 'location', 'is_leap_year', 'wind_speed']}),
    ('setters', {'class': 'WindRose', 'spec': {'ap': AP_YEAR, 'seed': 615, 'count': 8, 'calm': 0.1},
                 'ops': [['read', 'frequency_intervals_compass'], ['set', 'frequency_hours', 50]],
                 'check': ['histogram_data', 'frequency_intervals_compass', 'compass_radius']}),
    ('setters', {'class': 'WindRose', 'spec': {'ap': APS_FULL[1], 'seed': 7, 'count': 8, 'calm': 0.1},
                 'ops': [['read', 'windrose_lines'], ['set', 'show_zeros', True]],
                 'check': ['windrose_lines']}),
    ('setters', {'class': 'WindProfile', 'spec': {'terrain': 'city', 'met_terrain': 'country', 'met_height': 10,
                                                  'log_law': True},
                 'ops': [['set', 'met_roughness_length', 0.5], ['read', 'calculate_wind(5.5,10)'],
                         ['set', 'meteorological_height', 30.5], ['set', 'terrain', 'water']],
                 'check': ['calculate_wind(5.5,10)', 'calculate_wind(1,100.5)', 'roughness_length']}),
    # two periods covering the same minutes of the year with different leap flags (class-level memo shape)
    ('cross', {'class': 'AnalysisPeriod',
               'specs': [{'ap': [3, 2, 0, 4, 1, 23, 1, False]}, {'ap': [3, 1, 0, 3, 31, 23, 1, True]},
                         {'ap': [1, 10, 0, 1, 20, 23, 1, False]}, {'ap': [1, 10, 0, 1, 20, 23, 1, True]}],
               'order': [[0, 'datetimes'], [1, 'datetimes'], [3, 'moys'], [2, 'datetimes'], [3, 'datetimes'],
                         [1, 'moys'], [0, 'doys_int']]}),
    ('cross', {'class': 'AnalysisPeriod',
               'specs': [{'ap': [6, 1, 0, 6, 30, 23, 1, True]}, {'ap': [6, 2, 0, 7, 1, 23, 1, False]}],
               'order': [[0, 'len'], [0, 'hoys'], [1, 'datetimes'], [0, 'datetimes']]}),
    # a header setter as the first operation on a fresh EPW, the lazy import afterwards
    ('epw_setter_first', {'file': 'chicago.epw', 'setter': 'typical_weeks', 'variant': 0,
                          'reads': ['location', 'typical_weeks']}),
    ('epw_setter_first', {'file': 'chicago.epw', 'setter': 'extreme_hot_weeks', 'variant': 0,
                          'reads': ['dry_bulb_temperature', 'is_leap_year']}),
    # known findings: the four plain public header attributes of EPW
    ('epw_setter_first', {'file': 'chicago.epw', 'setter': 'comments_1', 'variant': 0, 'reads': ['location']}),
    ('epw_setter_first', {'file': 'chicago.epw', 'setter': 'comments_2', 'variant': 0, 'reads': ['location']}),
    ('epw_setter_first', {'file': 'chicago.epw', 'setter': 'daylight_savings_start', 'variant': 0,
                          'reads': ['location']}),
    ('epw_setter_first', {'file': 'chicago.epw', 'setter': 'daylight_savings_end', 'variant': 0,
                          'reads': ['location']}),
    ('wind_identity', {'t': 'city', 'mt': 'country', 'mh': 10, 'll': False, 'v': 5.5}),
    ('wind_identity', {'t': 'city', 'mt': 'country', 'mh': 10, 'll': True, 'v': 5.5}),
    # known finding: meteorological height below the roughness length is accepted by the setters
    ('wind_identity', {'t': 'city', 'mt': 'city', 'mh': 0.5, 'll': True, 'v': 5}),
    ('wind_monotone', {'t': 'suburban', 'mt': 'country', 'mh': 10, 'll': True, 'v': 3, 'heights': WIND_HEIGHTS}),
]


def _gen_reads(ctx, cname, k):
    rng = ctx.rng
    S = SPECS[cname]
    for _ in range(k):
        spec = S.gen(rng)
        names = all_reads(S, spec)
        if cname == 'WindProfile':
            names = rng.sample(names, 12)
        seq = list(names)
        rng.shuffle(seq)
        extra = [rng.choice(names) for _ in range(max(2, len(names) // 2))]
        seq = seq + extra if rng.random() < 0.5 else extra + seq
        ctx.count('reads:%s' % cname)
        ctx.count('reads:len=%d0s' % (len(seq) // 10))
        yield 'reads', {'class': cname, 'spec': spec, 'seq': seq}


def _gen_setters(ctx, cname, k):
    rng = ctx.rng
    S = SPECS[cname]
    for _ in range(k):
        spec = S.gen(rng)
        names = all_reads(S, spec)
        chk = names if len(names) <= 8 else rng.sample(names, 8 if ctx.quick else 14)

        def pick():
            # mostly an attribute that is compared afterwards: a stale cache needs a read before the setter
            return rng.choice(chk) if rng.random() < 0.75 else rng.choice(names)
        ops = []
        interleave = rng.random() < 0.7
        if interleave:
            for _ in range(rng.randrange(1, 4)):
                ops.append(['read', pick()])
        for _ in range(rng.randrange(1, 7)):
            sn = rng.choice(sorted(S.setters))
            ops.append(['set', sn, S.setters[sn](rng)])
            if interleave and rng.random() < 0.6:
                ops.append(['read', pick()])
        ctx.count('setters:%s' % cname)
        ctx.count('setters:interleaved' if interleave else 'setters:plain')
        yield 'setters', {'class': cname, 'spec': spec, 'ops': ops, 'check': sorted(chk)}


def _gen_pairs(ctx, cname, limit):
    """the minimal stale-cache history for every (attribute, setter) pair: read X, call the setter,
    compare X with a fresh object (all pairs when searching / thorough, a sample in the quick tier)"""
    rng = ctx.rng
    S = SPECS[cname]
    spec = S.gen(rng)
    names = all_reads(S, spec)
    pairs = [(x, sn) for x in names for sn in sorted(S.setters)]
    if limit and len(pairs) > limit:
        pairs = rng.sample(pairs, limit)
    for x, sn in pairs:
        vals = []
        for _ in range(8):              # two different arguments, so that one of them changes the setting
            v = S.setters[sn](rng)
            if v not in vals:
                vals.append(v)
            if len(vals) == 2:
                break
        for v in vals:
            ctx.count('pairs:%s' % cname)
            yield 'setters', {'class': cname, 'spec': spec, 'ops': [['read', x], ['set', sn, v]], 'check': [x]}



def _gen_epw_setter_first(ctx, full):
    rng = ctx.rng
    files = [f for f in EPW_FILES if f != 'los_angeles_no_leap_field.epw']
    for setter in EPW_SETTERS + EPW_PLAIN_ATTRS:
        for variant in ((0, 1, 2) if full else (0, rng.choice([1, 2]))):
            # other plain attributes are left out: read first they return the constructor's placeholder
            pool = [r for r in EPW_SETTER_READS if r != 'dry_bulb_temperature'
                    and (r not in EPW_PLAIN_ATTRS or r == setter)]
            reads = rng.sample(pool, 3)
            if rng.random() < (0.5 if full else 0.08):
                reads.insert(rng.randrange(len(reads) + 1), 'dry_bulb_temperature')
            ctx.count('epw_setter_first:%s' % setter)
            yield 'epw_setter_first', {'file': rng.choice(files), 'setter': setter, 'variant': variant,
                                       'reads': reads}


def _ap_collisions(rng):
    """pairs / triples of analysis periods that cover the same minutes of the year but differ in the
    leap flag, plus neighbours differing in timestep or hour window"""
    dim = [31, 28, 31, 30, 31, 30, 31, 31, 30, 31, 30, 31]
    out = []
    # same dates before 29 Feb, both leap flags
    m = rng.choice([1, 1, 2])
    d1 = rng.randrange(1, 15)
    d2 = d1 + rng.randrange(1, 12)
    ts = rng.choice([1, 1, 2, 4])
    sh, eh = rng.choice([(0, 23), (0, 23), (8, 17), (6, 12)])
    out.append([[m, d1, sh, m, d2, eh, ts, False], [m, d1, sh, m, d2, eh, ts, True],
                [m, d1, sh, m, d2, eh, rng.choice([1, 2, 3]), rng.random() < 0.5]])
    # after February: leap [D1, D2] has the moys of non-leap [D1 + 1 day, D2 + 1 day]
    m = rng.randrange(3, 12)
    d1 = rng.randrange(1, 10)
    n = rng.randrange(5, 40)

    def shift(mo, da, k):
        da += k
        while da > dim[mo - 1]:
            da -= dim[mo - 1]
            mo += 1
        return mo, da
    e_m, e_d = shift(m, d1, n)
    if e_m <= 12:
        s2 = shift(m, d1, 1)
        e2 = shift(e_m, e_d, 1)
        if e2[0] <= 12:
            ts = rng.choice([1, 1, 2])
            trip = [[m, d1, 0, e_m, e_d, 23, ts, True], [s2[0], s2[1], 0, e2[0], e2[1], 23, ts, False],
                    [m, d1, 0, e_m, e_d, 23, ts, False]]
            rng.shuffle(trip)
            out.append(trip)
    return out


def _gen_cross(ctx, full):
    rng = ctx.rng
    ap_names = ['datetimes', 'moys', 'hoys', 'doys_int', 'months_int', 'len', 'hoys_int']
    for _ in range(12 if full else 3):
        for specs in _ap_collisions(rng):
            order = []
            for i in rng.sample(range(len(specs)), len(specs)):
                order.append([i, rng.choice(['datetimes', 'moys', 'len', 'hoys'])])
            for i in range(len(specs)):
                order.append([i, 'datetimes'])
                order.append([i, rng.choice(ap_names)])
            ctx.count('cross:AnalysisPeriod')
            yield 'cross', {'class': 'AnalysisPeriod', 'specs': [{'ap': a} for a in specs], 'order': order}
    # collections / plots built on colliding periods
    for cname, k in (('HourlyContinuousCollection', 2), ('HourlyPlot', 1)):
        for _ in range(k * (4 if full else 1)):
            m = rng.choice([1, 2])
            d1 = rng.randrange(1, 12)
            d2 = d1 + rng.randrange(2, 9)
            S = SPECS[cname]
            specs = []
            for leap in rng.sample([False, True], 2):
                sp = S.gen(rng)
                sp['ap'] = [m, d1, 0, m, d2, 23, 1, leap]
                sp['seed'] = 5
                specs.append(sp)
            names = ['datetimes'] if cname != 'HourlyPlot' else ['month_labels', 'colored_mesh2d', 'values',
                                                                 'hour_lines2d', 'title_text']
            order = [[i, n] for n in names for i in (0, 1)]
            ctx.count('cross:%s' % cname)
            yield 'cross', {'class': cname, 'specs': specs, 'order': order}
    # two objects with different settings of the other cached classes, reads interleaved
    for cname, k in (('WindRose', 2), ('MonthlyChart', 1), ('PsychrometricChart', 1), ('Compass', 2),
                     ('WindProfile', 2), ('SQLiteResult', 2), ('ViewSphere', 1), ('EPW', 1)):
        S = SPECS[cname]
        for _ in range(k * (3 if full else 1)):
            specs = [S.gen(rng), S.gen(rng)]
            if cname == 'EPW':
                files = rng.sample([f for f in EPW_FILES if f != 'los_angeles_no_leap_field.epw'], 2)
                specs = [{'file': f} for f in files]
                names = [['location', 'typical_weeks', 'header', 'is_leap_year', 'monthly_ground_temperature']] * 2
            else:
                names = []
                for sp in specs:
                    nm = all_reads(S, sp)
                    if cname == 'ViewSphere':
                        nm = ['tregenza_solid_angles', 'reinhart_solid_angles', 'tregenza_dome_vectors']
                    names.append(rng.sample(nm, min(len(nm), 5 if not full else 8)))
            order = [[i, n] for i in (0, 1) for n in names[i]]
            rng.shuffle(order)
            ctx.count('cross:%s' % cname)
            yield 'cross', {'class': cname, 'specs': specs, 'order': order}


def _oracle_cases(ctx):
    rng = ctx.rng
    for c in CORPUS:
        yield c
    full = (not ctx.quick) or ctx.searching
    # cross-object histories first: their reference is evaluated in a fresh process, the objects under
    # test live in this (used) process
    for c in _gen_cross(ctx, full):
        yield c
    for c in _gen_epw_setter_first(ctx, full):
        yield c
    for cname in ('WindRose', 'MonthlyChart', 'Compass', 'WindProfile'):
        for c in _gen_pairs(ctx, cname, None if full else (12 if cname == 'MonthlyChart' else 40)):
            yield c
    big = (not ctx.quick) or ctx.searching
    m = 6 if big else 1
    plan = [('ViewSphere', 2), ('SQLiteResult', 6), ('EPW', 1), ('AnalysisPeriod', 12),
            ('HourlyContinuousCollection', 3), ('HourlyPlot', 3), ('WindRose', 4), ('MonthlyChart', 3),
            ('PsychrometricChart', 3), ('Compass', 10), ('WindProfile', 20)]
    for cname, k in plan:
        for c in _gen_reads(ctx, cname, k * m):
            yield c
    for cname, k in [('WindRose', 10), ('MonthlyChart', 6), ('Compass', 20), ('WindProfile', 60)]:
        for c in _gen_setters(ctx, cname, k * m):
            yield c
    for _ in range(200 * m):
        c = _gen_wind_case(rng, False)
        c['v'] = rng.choice([0, 1, 5.5, round(rng.uniform(0, 40), 2)])
        c['heights'] = sorted(set(rng.choice(WIND_HEIGHTS + [0, 0.01, 0.03, 0.1, 1.0, 3])
                                  for _ in range(6)) | {round(rng.uniform(0, 600), 2)})
        c.pop('qs')
        # keep the log law inside its domain (met height above every roughness length used): the
        # out-of-domain case is the recorded finding and is exercised by the fixed corpus only
        c['mh'] = max(c['mh'], 3.5)
        c['calls'] = [[k, (max(a, 3.5) if k == 2 else a)] for k, a in c['calls']]
        yield 'wind_identity', c
        yield 'wind_monotone', c


def oracle(ctx):
    try:
        run_oracle_cases(ctx, _oracle_cases(ctx), check_case)
    finally:
        _fresh_stop()
