"""C02 — Filtering an hourly collection selects exactly the requested time steps.

Model: lean/Ladybug/Model/Filter.lean (pure filters) and lean/Ladybug/Model/FilterObj.lean (object state
machine: setters, in-place cull, refused operations, immutable twins, the lazily filled `_datetimes`
slot) on Model/AP.lean, Model/Cal.lean; theorems: lean/Ladybug/Props/C02.lean; driver: drv_c02.
Tie: correspondence on the ops below (the model is hand-written from datacollection.py /
_datacollectionbase.py / datacollectionimmutable.py with fixes/C02_*.patch applied).
The oracle is written from the property statement with plain integer minutes of the year and the
stdlib calendar; it never looks at the model.

Stages that catch changes
  * correspondence, fresh object + one call (round 1/2) and HISTORIES on one object (round 3, op `hist`):
    the model's `step` against the real object after every operation of a generated history;
  * oracle, plain cases and histories (`_check_history`): after every step the observables the property
    speaks about (filter results, the pairs, the header period) are those of the public state the user
    established (`_Shadow`, plain Python); a refused operation leaves them as before;
  * process order (`_process_order`): the fixed corpus, one-coordinate families (same dates, other leap flag /
    timestep) and a sample of histories and plain cases in 3-4 fresh interpreters, rare classes first in one,
    last in another, shuffled in the rest; a failure that needs earlier cases carries `{"order": [...]}`.

Producers and their consumers (each consumer is exercised by correspondence and oracle, so that a producer
changed together with ONE consumer shows at the others):
  * HourlyDiscontinuousCollection._filter_by_moys_slow -> Disc.filter_by_moys -> Disc.filter_by_hoys,
    Disc.filter_by_analysis_period (+ the order sort), the same three on HourlyDiscontinuousCollectionImmutable,
    and on every Disc result of a continuous filter (chain);
  * HourlyContinuousCollection.filter_by_moys (index arithmetic) -> Cont.filter_by_hoys, the hour-window branch
    of Cont.filter_by_analysis_period, the immutable twin; compared with the search on to_discontinuous();
  * _get_analysis_period_subset -> both branches of Cont.filter_by_analysis_period; the result header -> every
    later filter of the result (ops `chain`);
  * the slice arithmetic -> whole-day branch; its result (a continuous collection) -> filters of the result;
  * `.datetimes` (lazily filled on the continuous class, overwritten by convert_to_culled_timestep) ->
    Cont.filter_by_moys, _filter_by_pattern/_range/_statement, to_discontinuous, moys_dict, duplicate, to_immutable;
  * `values` setter / _check_values -> constructors of all five classes and their immutable twins, `values = …`;
    `__setitem__`; convert_to_unit / _ip / _si (oracle only) -> `_values` seen by every filter;
  * _filter_by_pattern/_range/_statement -> filter_by_* of Base (daily, monthly, monthly-per-hour, discontinuous)
    and the three overrides of the continuous class; `_enumeration` (class map) -> result class of those;
  * filter_by_doys / filter_by_months / filter_by_months_per_hour -> their filter_by_analysis_period;
  * AnalysisPeriod.moys / hoys / doys_int / months_int / months_per_hour / __len__ / st_time / is_reversed
    (lazily computed `_timestamps_data`) -> all period filters: the same AnalysisPeriod OBJECT is re-used inside a
    history, with one of its listings read before the filter (`pre`).
"""
import calendar
import contextlib
import io
import json
import os
import struct
import subprocess
import sys
from collections import Counter, OrderedDict
from datetime import datetime, timedelta

from harness.core import compare_batch, err_name, run_oracle_cases

PROP = 'C02'
PROOF_MODULES = ['Ladybug.Props.C02']
GREP_MODULES = ['Ladybug.Py', 'Ladybug.Model.Cal', 'Ladybug.Gen.DtTables', 'Ladybug.Proofs.CalLemmas',
                'Ladybug.Model.AP', 'Ladybug.Gen.ApTables', 'Ladybug.Proofs.C04Lemmas',
                'Ladybug.Proofs.C04Listings', 'Ladybug.Props.C08', 'Ladybug.Props.C04',
                'Ladybug.Model.Filter', 'Ladybug.Proofs.C02Lemmas', 'Ladybug.Proofs.C02Index', 'Ladybug.Proofs.C02Cyclic',
                'Ladybug.Proofs.C02Slice', 'Ladybug.Proofs.C02Order', 'Ladybug.Model.FilterObj', 'Ladybug.Proofs.C02Hist',
                'Ladybug.Drv.C02', 'Ladybug.DrvCore']
RULE = ('sources: annual | partial (1..120 days, boundary-biased starts incl. 28/29 Feb and both year ends) | '
        'year-wrapping (short Dec->Jan and long), all 12 timesteps (annual: small ones), both leap flags, values = '
        'position ids; run on the continuous object and on its to_discontinuous() copy, plus discontinuous '
        'sources with holes / unsorted steps. Filters relative to the source: whole-day period inside (also '
        'straddling the year end, first/last/single day, equal to the source), partly outside (clipped), hour '
        'windows incl. overnight, wrapping filters on annual sources, out-of-domain (outside, two-piece, '
        'timestep/leap mismatch); explicit minute / hour lists (sorted, shuffled, repeated, ~10 % not in the '
        'source / off grid / negative); patterns (shorter, equal, longer, empty, all false); ranges and four '
        'statement shapes on random integers with ties at the bounds; daily / monthly / monthly-per-hour '
        'collections by key lists and by period (leap-year daily collections with days 60 and 366, requests naming '
        '366 / 367 / 0, periods ending on or wrapping over 31 Dec, sub-hourly monthly-per-hour keys). '
        'Histories on one object (all five classes and their immutable twins, all 12 timesteps, both leap flags, '
        'partial / wrapping / 28-29 Feb / year-end periods, one-value collections): 3-14 operations drawn from '
        'filters of every kind (keys, hours, period with a re-used AnalysisPeriod object one of whose listings is '
        'read first, pattern, range incl. bounds of exactly 0 / 0.0 / -0.0 and bounds equal to a value, statement, '
        'plain look), the same question again with the same argument object, accepted setters (values = , '
        'coll[i] = incl. negative indices, convert_to_culled_timestep, unit conversions), refused operations '
        '(wrong length / empty / non-list / generator values, index out of range, invalid timestep, unknown unit, '
        'every setter on an immutable twin, to_discontinuous on a class without it, filters that fail), '
        'conversions to a twin (duplicate, to_immutable, to_mutable, to_discontinuous) and going on with the '
        'collection a filter returned; a question follows each non-read operation with probability 0.7 and a '
        'refused operation opens 15 % of the histories. A case is non-trivial when the implementation returns a '
        'collection; distinct = distinct request line.')
TRUSTED_BASE = [
    'the model describes datacollection.py with the five fixes/C02_*.patch applied (year-wrapping continuous '
    'collections; time order of the discontinuous period filter); on a tree without them the check reports the '
    'violation',
    'modelled, not verified: a collection is the list of (date-time, value) pairs (len(values) == len(datetimes) is '
    'a constructor invariant); a date-time is its minute of the year plus the leap flag of the header (C08 '
    'bijection); values are opaque (free theorem: the filters only move values, checked with position ids)',
    'float index arithmetic int(moy / t_s - st_ind) is modelled over exact rationals (60 / timestep is exact for '
    'the 12 valid timesteps; for integer minutes the float quotient cannot cross an integer)',
    'filter_by_hoys: the float hour m / 60.0, its product with 60 and the membership test against '
    'AnalysisPeriod.hoys are computed with IEEE doubles by the driver; theorem C02_hoys assumes round(hoy(m) * 60) '
    '= m, which the check verifies for every minute of both years on every run',
    'eval() of the statement filter is a predicate parameter of the model; four statement shapes are compared',
    'object state machine (Model/FilterObj.lean): which reads fill the hidden `_datetimes` slot is modelled roughly '
    '(the slot is not observable; C02_read_pure shows it cannot matter while it is coherent); unit conversions and '
    'the monthly-per-hour class take part in the oracle histories only (not in the model); the twins are modelled '
    'by a mutability flag (their refusals are AttributeError for every setter / in-place operation)',
    'process-order runs use the same oracle in fresh interpreters; what they add is only the absence of state left '
    'by earlier cases',
]
ASSUMPTIONS = [
    'reading of the statement: "time steps present in the collection" = the requested minutes are date-times of '
    'the source (lists without repeats); a period filter is in the domain when it lies inside the source, or when '
    'its whole days outside the source can be cut off leaving one run of days (hour windows through midnight '
    'only when inside); explicit lists are compared as multisets (the continuous path answers in request order, '
    'the search in source order), period filters as sequences in the period\'s own order',
    'CPython datetime is the reference calendar for the oracle',
]
LEVEL_TEXT = ('Machine-checked Lean 4 theorems over an executable, value-polymorphic model of the filters: the slow '
              'search returns exactly the source pairs whose minute is requested, in source order; the index '
              'arithmetic of continuous collections (non-wrapping and year-wrapping, all 12 timesteps, both leap '
              'flags) returns for every requested minute of the collection the pair at that minute, hence the same '
              'pairs as the search on the equivalent discontinuous collection; the whole-day continuous period '
              'filter (both slice shapes, any source period) returns exactly the run of source pairs at the steps of '
              'the clipped filter period in its chronological order under that period as header, and the '
              'constructor\'s length check holds; hour-window period filters and hour lists reduce to the minute '
              'path; the discontinuous period filter returns the requested pairs in the period\'s time order; '
              'pattern / range / statement / key filters (daily, monthly, monthly-per-hour, also by period) keep '
              'exactly the satisfying positions; propagation of validated_a_period; for the object state machine '
              '(setters, in-place cull, refused operations, immutable twins, conversions, chained filters, the lazily '
              'filled date-time slot): reads are pure and order-independent, a refused operation leaves every '
              'observation unchanged, and after any history (with in-place culls of continuous objects to a dividing '
              'timestep) every filter answers as on a fresh object built from the final public state, so the filter '
              'theorems hold for every reachable object. The model is compared with the real classes on '
              'structure-directed inputs and operation histories on every run.')
LEVEL_NOTE = ('Trusted: Lean kernel; axioms propext/Classical.choice/Quot.sound only; the correspondence run '
              '(agreement on generated inputs only); rational model of the float index arithmetic; IEEE part of '
              'filter_by_hoys isolated as a hypothesis that is checked exhaustively each run; Python sorted() '
              'modelled as a stable merge sort. Model and theorems describe the code with the five '
              'fixes/C02_*.patch applied.')
TECHNIQUE = ('Lean 4 proof (list induction, arithmetic-progression form of whole-day periods from the C04 theorems, '
             'cyclic-progression lemma for the two slice shapes, case split over the 12 timesteps, omega) about a model tied to datacollection.py by differential '
             'correspondence')

VALID_TS = (1, 2, 3, 4, 5, 6, 10, 12, 15, 20, 30, 60)


# ---------------------------------------------------------------------------------------------
# calendar helpers (stdlib only)


def _b(x):
    return '1' if x else '0'


def _ndays(leap):
    return 366 if leap else 365


def _nmin(leap):
    return 1440 * _ndays(leap)


def _doy(leap, m, d):
    y = 2016 if leap else 2017
    return (datetime(y, m, d) - datetime(y, 1, 1)).days + 1


def _date(leap, k):
    y = 2016 if leap else 2017
    d = datetime(y, 1, 1) + timedelta(days=(k - 1) % _ndays(leap))
    return d.month, d.day


def _mlen(leap, m):
    return calendar.monthrange(2016 if leap else 2017, m)[1]


def _fbits(x):
    return '%016x' % struct.unpack('<Q', struct.pack('<d', x))[0]


def _ref_moys(c):
    """Independent enumeration of the steps of a period (fields as stored), in the period's order."""
    sm, sd, sh, em, ed, eh, ts, leap = c
    step = 60 // ts
    n = _nmin(leap)
    s = (_doy(leap, sm, sd) - 1) * 1440 + sh * 60
    e = (_doy(leap, em, ed) - 1) * 1440 + eh * 60

    def inwin(mod):
        if sh <= eh:
            return (sh * 60 <= mod <= eh * 60) or (sh == 0 and eh == 23)
        return mod >= sh * 60 or mod <= eh * 60

    if s <= e:
        seq = range(s, e + 60, step)
        return [m for m in seq if inwin(m % 1440)]
    return [m for m in range(s, n, step) if inwin(m % 1440)] + \
           [m for m in range(0, e + 60, step) if inwin(m % 1440)]


def _ref_days(c):
    """Days of the year from the start day to the end day of a period, in order (cyclic)."""
    sm, sd, sh, em, ed, eh, ts, leap = c
    a, b = _doy(leap, sm, sd), _doy(leap, em, ed)
    if (a, sh) <= (b, eh):
        return list(range(a, b + 1))
    return list(range(a, _ndays(leap) + 1)) + list(range(1, b + 1))


def _line_ap(c):
    return '%d %d %d %d %d %d %d %s' % (c[0], c[1], c[2], c[3], c[4], c[5], c[6], _b(c[7]))


def _ints(l):
    return '%d %s' % (len(l), ' '.join(str(int(x)) for x in l)) if l else '0'


# ---------------------------------------------------------------------------------------------
# building objects of the implementation


@contextlib.contextmanager
def _quiet():
    with contextlib.redirect_stdout(io.StringIO()):
        yield


def _mk_ap(c):
    from ladybug.analysisperiod import AnalysisPeriod
    with _quiet():
        return AnalysisPeriod(*c)


def _header(c):
    from ladybug.header import Header
    from ladybug.datatype.generic import GenericType
    return Header(GenericType('Id', 'id'), 'id', _mk_ap(c))


_CACHE = OrderedDict()


def _cont(c, vals=None):
    """Continuous source with position ids (cached) or explicit values."""
    from ladybug.datacollection import HourlyContinuousCollection
    if vals is not None:
        return HourlyContinuousCollection(_header(c), list(vals))
    key = ('cont', c)
    if key not in _CACHE:
        n = _ndays_of(c) * 24 * c[6]
        _CACHE[key] = HourlyContinuousCollection(_header(c), list(range(n)))
        while len(_CACHE) > 6:
            _CACHE.popitem(last=False)
    return _CACHE[key]


def _ndays_of(c):
    return len(_ref_days(c))


def _flagged(coll, validated):
    coll._validated_a_period = bool(validated)      # what from_dict / validate_analysis_period set
    return coll


def _disc(c, moys, vals=None, validated=False):
    from ladybug.datacollection import HourlyDiscontinuousCollection
    from ladybug.dt import DateTime
    dts = [DateTime.from_moy(m, c[7]) for m in moys]
    return _flagged(HourlyDiscontinuousCollection(
        _header(c), list(vals) if vals is not None else list(range(len(moys))), dts), validated)


def _disc_of_cont(c):
    key = ('disc', c)
    if key not in _CACHE:
        _CACHE[key] = _cont(c).to_discontinuous()
        while len(_CACHE) > 6:
            _CACHE.popitem(last=False)
    return _CACHE[key]


def _daily(c, doys, vals=None, validated=False):
    from ladybug.datacollection import DailyCollection
    return _flagged(DailyCollection(
        _header(c), list(vals) if vals is not None else list(range(len(doys))), list(doys)), validated)


def _monthly(c, months, vals=None, validated=False):
    from ladybug.datacollection import MonthlyCollection
    return _flagged(MonthlyCollection(
        _header(c), list(vals) if vals is not None else list(range(len(months))), list(months)), validated)


def _mph(c, keys, validated=False):
    from ladybug.datacollection import MonthlyPerHourCollection
    return _flagged(MonthlyPerHourCollection(
        _header(c), list(range(len(keys))), [tuple(k) for k in keys]), validated)


def _ap_fields(ap):
    return (ap.st_month, ap.st_day, ap.st_hour, ap.end_month, ap.end_day, ap.end_hour, ap.timestep,
            bool(ap.is_leap_year))


def _show(coll):
    """Canonical text of a result collection (the model driver's format)."""
    from ladybug.datacollection import HourlyContinuousCollection, HourlyDiscontinuousCollection, \
        MonthlyPerHourCollection
    apf = _line_ap(_ap_fields(coll.header.analysis_period))
    vals = coll.values
    if isinstance(coll, HourlyContinuousCollection):
        return 'ok C %s %d %s' % (apf, len(vals), ' '.join(str(v) for v in vals))
    if isinstance(coll, HourlyDiscontinuousCollection):
        keys = [str(d.moy) for d in coll.datetimes]
    elif isinstance(coll, MonthlyPerHourCollection):
        keys = ['%d %d %d' % tuple(d) for d in coll.datetimes]
    else:
        keys = [str(int(d)) for d in coll.datetimes]
    return ('ok D %s %s %d %s' % (apf, _b(coll.validated_a_period), len(vals),
                                  ' '.join('%s %s' % kv for kv in zip(keys, vals)))).rstrip()


def _canon(s):
    return ' '.join(s.split())


# ---------------------------------------------------------------------------------------------
# generators


def _src_days(c):
    return _ref_days(c)


def _gen_source(rng, kind, quick):
    leap = rng.random() < 0.4
    n = _ndays(leap)
    if kind == 'annual':
        ts = rng.choice([1, 1, 2, 3, 4] if quick else [1, 1, 2, 3, 4, 4, 5, 6])
        return (1, 1, 0, 12, 31, 23, ts, leap)
    if kind == 'partial':
        length = rng.choice([1, 1, 2, 3, 7, 14, rng.randrange(20, 45), rng.randrange(45, 121)])
        r = rng.random()
        if r < 0.15:
            a = 1
        elif r < 0.3:
            a = n - length + 1
        elif r < 0.5:
            a = max(1, 59 - rng.randrange(0, min(length, 3) + 1))       # around 28/29 Feb
        else:
            a = rng.randrange(1, n - length + 2)
        a = max(1, min(a, n - length + 1))
        b = a + length - 1
        cap = 14000 if quick else 20000
        tss = [t for t in VALID_TS if length * 24 * t <= cap] or [1]
        ts = rng.choice(tss if rng.random() < 0.6 else [t for t in tss if t <= 4] or [1])
        return _date(leap, a) + (0,) + _date(leap, b) + (23, ts, leap)
    # wrapping
    if rng.random() < 0.75:
        la = rng.choice([1, 1, 2, 5, rng.randrange(3, 40)])
        lb = rng.choice([1, 1, 2, 5, rng.randrange(3, 40)])
    else:
        la, lb = rng.randrange(40, 200), rng.randrange(40, 160)
    a, b = n - la + 1, lb
    cap = 14000 if quick else 20000
    tss = [t for t in VALID_TS if (la + lb) * 24 * t <= cap] or [1]
    ts = rng.choice(tss if rng.random() < 0.6 else [t for t in tss if t <= 4] or [1])
    return _date(leap, a) + (0,) + _date(leap, b) + (23, ts, leap)


def _fsteps(f):
    return len(_ref_days(f)) * 24 * f[6]


def _src_kind(c):
    if c[:6] == (1, 1, 0, 12, 31, 23):
        return 'annual'
    a, b = _doy(c[7], c[0], c[1]), _doy(c[7], c[3], c[4])
    return 'partial' if a <= b else 'wrapping'


def _rand_window(rng):
    r = rng.random()
    if r < 0.5:
        sh, eh = sorted((rng.randrange(24), rng.randrange(24)))
    elif r < 0.85:
        sh, eh = rng.choice([(22, 5), (23, 0), (12, 11), (18, 6), (1, 0)])
    else:
        sh, eh = rng.choice([(0, 22), (1, 23), (0, 0), (23, 23), (9, 17)])
    if (sh, eh) == (0, 23):
        eh = 22
    return sh, eh


def _gen_filter(rng, src, fkind):
    """A filter period relative to the source `src`; returns the 8 fields."""
    leap, ts = src[7], src[6]
    n = _ndays(leap)
    days = _src_days(src)
    inset = set(days)
    gap = [d for d in range(1, n + 1) if d not in inset]
    L = len(days)
    i = rng.choice([0, 0, rng.randrange(L)])
    j = rng.choice([L - 1, L - 1, i, rng.randrange(i, L)])
    j = max(i, j)
    sh, eh = 0, 23
    if fkind == 'inside':
        a, b = days[i], days[j]
    elif fkind == 'equal':
        a, b = days[0], days[-1]
    elif fkind == 'single':
        a = b = days[rng.choice([0, L - 1, rng.randrange(L)])]
    elif fkind == 'straddle':          # across the year end, inside a wrapping / annual source
        if _src_kind(src) == 'annual':
            a, b = n - rng.randrange(0, 40), 1 + rng.randrange(0, 40)
        elif _src_kind(src) == 'wrapping':
            la = n - days[0] + 1
            i = rng.randrange(0, la)
            j = rng.randrange(la, L) if L > la else L - 1
            a, b = days[i], days[j]
        else:
            a, b = days[i], days[j]
    elif fkind == 'wrap-long':         # wrapping filter on an annual source, most of the year
        a = rng.randrange(2, n + 1)
        b = rng.randrange(1, a)
    elif fkind in ('clip-start', 'clip-end', 'clip-both'):
        if not gap:
            a, b = days[i], days[j]
        else:
            before = [d for d in gap if (d < days[0]) or (_src_kind(src) == 'wrapping')]
            after = [d for d in gap if (d > days[-1]) or (_src_kind(src) == 'wrapping')]
            a, b = days[i], days[j]
            if fkind in ('clip-start', 'clip-both') and before:
                a = rng.choice([before[-1], rng.choice(before)])
            if fkind in ('clip-end', 'clip-both') and after:
                b = rng.choice([after[0], rng.choice(after)])
    elif fkind == 'window':
        j = min(j, i + rng.choice([0, 1, 2, 5, 20]))       # the minute path is quadratic in the code
        a, b = days[i], days[j]
        sh, eh = _rand_window(rng)
    elif fkind == 'window-clip':
        j = min(j, i + rng.choice([0, 1, 2, 5, 20]))
        a, b = days[i], days[j]
        if gap and rng.random() < 0.5:
            a = rng.choice(gap)
        elif gap:
            b = rng.choice(gap)
        sh, eh = _rand_window(rng)
    elif fkind == 'outside':
        if gap:
            a = rng.choice(gap)
            b = rng.choice(gap)
        else:
            a, b = days[j], days[i]
    elif fkind == 'two-piece':         # the other way round: covers both ends of the source
        a, b = days[j], days[i]
        if a == b and L > 1:
            a, b = days[-1], days[0]
    elif fkind == 'mismatch':
        a, b = days[i], days[j]
        if rng.random() < 0.5:
            ts = rng.choice([t for t in VALID_TS if t != ts])
        else:
            leap = not leap
            a, b = min(a, 365), min(b, 365)
            if (leap is False) and (a == 60 or b == 60):
                pass
    else:
        raise ValueError(fkind)
    return _date(leap, a) + (sh,) + _date(leap, b) + (eh, ts, leap)


PERIOD_KINDS = ['inside', 'inside', 'inside', 'equal', 'single', 'straddle', 'clip-start', 'clip-end', 'clip-both',
                'window', 'window', 'window-clip', 'outside', 'two-piece', 'mismatch']


def _sources(ctx, rng, oracle=False):
    """[(fields, kind)]: fixed ones first (the witnesses of the repaired defects), then generated."""
    fixed = [
        (12, 1, 0, 1, 31, 23, 1, False), (12, 30, 0, 1, 2, 23, 4, True), (3, 1, 0, 3, 31, 23, 2, False),
        (2, 27, 0, 3, 2, 23, 6, True), (1, 1, 0, 12, 31, 23, 1, False),
        (12, 31, 0, 1, 1, 23, 60, False), (1, 1, 0, 1, 1, 23, 30, True),
    ]
    if not ctx.quick:
        fixed += [(6, 1, 0, 5, 31, 23, 1, False), (1, 1, 0, 12, 31, 23, 2, True), (7, 2, 0, 7, 1, 23, 1, True)]
    out = [(c, _src_kind(c)) for c in fixed]
    if oracle:
        kinds = ['annual'] * ctx.n(1, 3) + ['partial'] * ctx.n(6, 40) + ['wrapping'] * ctx.n(6, 40)
    else:
        kinds = ['annual'] * ctx.n(1, 4) + ['partial'] * ctx.n(9, 60) + ['wrapping'] * ctx.n(9, 60)
    for k in kinds:
        out.append((_gen_source(rng, k, ctx.quick), k))
    return out


def _moy_requests(rng, src, smoys, nreq):
    """Explicit minute lists for a source with the minutes `smoys`: [(list, kind)]."""
    out = []
    n = len(smoys)
    for _ in range(nreq):
        r = rng.random()
        k = rng.choice([1, 2, 3, 10, min(n, 50)])
        if r < 0.25:
            req = sorted(rng.sample(smoys, min(k, n)))
            kind = 'sorted'
        elif r < 0.5:
            req = rng.sample(smoys, min(k, n))
            kind = 'shuffled'
        elif r < 0.65:
            req = [smoys[0], smoys[-1]] + [smoys[min(n - 1, x)] for x in (1, n // 2)]
            req = list(OrderedDict.fromkeys(req))
            kind = 'ends'
        elif r < 0.78:
            base = rng.sample(smoys, min(k, n))
            req = base + [rng.choice(base) for _ in range(2)]
            kind = 'repeats'
        elif r < 0.9:
            step = 60 // src[6]
            nm = _nmin(src[7])
            extra = [rng.choice([smoys[0] - step, smoys[-1] + step, rng.randrange(nm), smoys[0] + 1,
                                 -step, nm, nm + step, rng.randrange(nm) // step * step])
                     for _ in range(2)]
            req = rng.sample(smoys, min(2, n)) + extra
            rng.shuffle(req)
            kind = 'foreign'
        else:
            req = []
            kind = 'empty'
        out.append((req, kind))
    return out


def _truncation_sensitive(smoys, rng, k=2):
    """Minutes whose float hour times 60 falls just below the minute (int() instead of round() loses them)."""
    cand = [m for m in smoys[:4000] if int((m / 60.0) * 60) != m]
    return rng.sample(cand, min(k, len(cand)))


def _key_period(rng, leap, ts=None):
    """A filter period for the coarser collections, biased to the year end: December, the last day,
    periods that wrap over 31 Dec, the whole year, around 28/29 Feb, else random."""
    n = _ndays(leap)
    r = rng.random()
    sh, eh = rng.choice([(0, 23), (0, 23), _rand_window(rng)])
    ts = ts or rng.choice([1, 1, 2, 4])
    if r < 0.14:
        a, b = n - 30, n                                   # December
    elif r < 0.24:
        a = b = n                                          # 31 Dec only
    elif r < 0.42:
        a, b = n - rng.randrange(0, 40), rng.randrange(1, 40)   # wraps the year end
    elif r < 0.5:
        a, b = 1, n                                        # whole year
    elif r < 0.6:
        a, b = 59 - rng.randrange(0, 2), 60 + rng.randrange(0, 2)   # around 28/29 Feb
    elif r < 0.68:
        a, b = rng.randrange(2, n + 1), n                  # ... to 31 Dec
    else:
        return _rand_period(rng, leap, ts=ts)
    return _date(leap, a) + (sh,) + _date(leap, b) + (eh, ts, leap)


def _keyed_case(rng):
    """One structure-directed case for the daily / monthly / monthly-per-hour collections:
    leap-year daily collections hold day 60 (29 Feb) and day 366, requests name them, period filters
    end on / wrap over 31 Dec, monthly-per-hour keys carry sub-hourly minutes."""
    leap = rng.random() < 0.5
    n = _ndays(leap)
    ts = rng.choice([1, 1, 2, 3, 4, 6, 12])
    hdr = _key_period(rng, leap, ts=ts) if rng.random() < 0.5 else _rand_period(rng, leap, ts=ts)
    shape = rng.choice(['full', 'ends', 'ends', 'random', 'random'])
    if shape == 'full':
        doys = list(range(1, n + 1))
    elif shape == 'ends':
        doys = list(OrderedDict.fromkeys([1, 2, 59, 60, 61, n - 1, n] + rng.sample(range(1, n + 1), rng.choice([0, 3, 10]))))
    else:
        doys = rng.sample(range(1, n + 1), rng.choice([1, 3, 10, 40]))
        if rng.random() < 0.5:
            doys = list(OrderedDict.fromkeys(doys + [n]))
    if rng.random() < 0.4:
        rng.shuffle(doys)
    elif rng.random() < 0.6:
        doys.sort()
    dreq = rng.sample(doys, min(len(doys), rng.choice([0, 1, 2, 5])))
    dreq += rng.sample([n, n, 60, 365, 366, 367, 0, 1, rng.randrange(1, 368)], 3)
    dfilt = _key_period(rng, leap if rng.random() < 0.92 else not leap)
    months = rng.sample(range(1, 13), rng.choice([1, 3, 6, 12]))
    if rng.random() < 0.5:
        months = list(OrderedDict.fromkeys(months + [12, 1, 2]))
    if rng.random() < 0.5:
        months.sort()
    mreq = rng.sample(range(0, 14), rng.choice([0, 1, 3, 6])) + rng.sample([12, 1, 2], 1)
    mfilt = _key_period(rng, rng.random() < 0.5)
    step = 60 // ts
    base = list(OrderedDict.fromkeys(months[:2] + [12]))
    allk = [(m, h, mi) for m in base for h in range(24) for mi in range(0, 60, step)]
    edge = [(12, 23, 60 - step), (12, 0, 0), (base[0], 23, 60 - step), (base[0], 0, step % 60)]
    keys = list(OrderedDict.fromkeys(rng.sample(allk, min(len(allk), rng.choice([1, 5, 30, 80]))) +
                                     [k for k in edge if rng.random() < 0.5]))
    preq = rng.sample(keys, min(len(keys), 3)) + rng.sample(edge + [(13, 0, 0), (base[0], 24, 0), (12, 23, 59)], 2)
    pfilt = _key_period(rng, leap, ts=ts)
    return {'leap': leap, 'hdr': hdr, 'doys': doys, 'dreq': dreq, 'dfilt': dfilt, 'months': months,
            'mreq': mreq, 'mfilt': mfilt, 'keys': keys, 'preq': preq, 'pfilt': pfilt, 'shape': shape}


def _disc_sources(ctx, rng):
    """Discontinuous sources with holes / unsorted / repeated steps: [(fields, moys, kind)]."""
    out = []
    for _ in range(ctx.n(25, 120)):
        leap = rng.random() < 0.4
        ts = rng.choice(VALID_TS)
        step = 60 // ts
        nm = _nmin(leap)
        shape = rng.choice(['holes', 'holes', 'unsorted', 'repeated', 'year-ends', 'off-header'])
        a = rng.randrange(1, _ndays(leap) - 3)
        c = _date(leap, a) + (rng.choice([0, 0, 6]),) + _date(leap, a + rng.randrange(0, 3)) + \
            (rng.choice([23, 23, 18]), ts, leap)
        if shape == 'year-ends':
            c = (12, 30, 0, 1, 2, 23, ts, leap)
        base = _ref_moys(c)
        if shape == 'off-header':
            base = [m for m in (rng.randrange(nm) // step * step for _ in range(30))]
        if len(base) > 400:
            base = base[:200] + base[-200:]
        moys = [m for m in base if rng.random() < 0.7] or base[:1]
        moys = list(OrderedDict.fromkeys(moys))
        if shape == 'unsorted':
            rng.shuffle(moys)
        if shape == 'repeated' and moys:
            moys = moys + [moys[0], moys[-1]]
        out.append((c, moys, shape, rng.random() < 0.5))
    return out


STMTS = [lambda x, y, z: 'a > %d' % x,
         lambda x, y, z: 'a %% %d == %d' % (y, z),
         lambda x, y, z: 'a > %d and a %% %d == %d' % (x, y, z),
         lambda x, y, z: 'a < %d or a > %d' % (x, y)]


def _stmt_pred(code, x, y, z):
    return [lambda a: a > x, lambda a: a % y == z, lambda a: a > x and a % y == z,
            lambda a: a < x or a > y][code]


# ---------------------------------------------------------------------------------------------
# correspondence


def _guard(fn):
    def run(c):
        try:
            with _quiet():
                return fn(c)
        except Exception as e:
            return 'err:' + err_name(e)
    return run


def correspondence(ctx):
    rng = ctx.rng
    _float_hour_assumption(ctx)

    srcs = _sources(ctx, rng)
    period_cases, moy_cases, hoy_cases, pat_cases, val_cases = [], [], [], [], []
    budget = ctx.n(2_000_000, 12_000_000)          # total values moved through period filters
    used = 0
    for c, kind in srcs:
        ctx.count('src:' + kind)
        ctx.count('src_ts:%d' % c[6])
        ctx.count('src_leap:%s' % c[7])
        nvals = _ndays_of(c) * 24 * c[6]
        kinds = list(PERIOD_KINDS)
        if kind == 'annual':
            kinds += ['wrap-long', 'straddle', 'wrap-long']
        npf = ctx.n(5, 14) if nvals > 5000 else ctx.n(8, 22)
        for _ in range(npf):
            fk = rng.choice(kinds)
            f = _gen_filter(rng, c, fk)
            used += nvals
            if used > budget and nvals > 3000:
                continue
            if _fsteps(f) > 40000 and not (f[2] == 0 and f[5] == 23):
                continue                 # the period would be enumerated step by step (minutes per case)
            period_cases.append((c, f, kind, fk))
        smoys = _ref_moys(c)
        for req, rk in _moy_requests(rng, c, smoys, ctx.n(5, 8)):
            moy_cases.append((c, req, kind, rk))
        for _ in range(2):
            k = rng.choice([1, 3, 8])
            ms = rng.sample(smoys, min(k, len(smoys)))
            ms = list(OrderedDict.fromkeys(ms + _truncation_sensitive(smoys, rng)))
            hs = [m / 60.0 for m in ms]
            r = rng.random()
            rk = 'exact'
            if r < 0.3:
                hs += [rng.choice([ms[0] / 60.0 + 1e-9, (smoys[-1] + 60) / 60.0, -1.0, ms[0] / 60.0 + 0.004,
                                   rng.uniform(0, 8760)])]
                rk = 'foreign'
            hoy_cases.append((c, hs, kind, rk))
        if nvals <= 3000:
            for _ in range(2):
                plen = rng.choice([0, 1, 2, 3, 7, 24, nvals, nvals + 3, nvals - 1 if nvals > 1 else 1])
                pat = [rng.random() < 0.4 for _ in range(plen)]
                if rng.random() < 0.1:
                    pat = [False] * plen
                pat_cases.append((c, pat, kind))
            vals = [rng.randrange(-20, 21) for _ in range(nvals)]
            lo = rng.choice([None, -5, 0, rng.randrange(-25, 25)])
            hi = rng.choice([None, 5, 0, rng.randrange(-25, 25)])
            val_cases.append(('range', c, vals, (lo, hi)))
            code = rng.randrange(4)
            val_cases.append(('stmt', c, vals, (code, rng.randrange(-22, 22), rng.randrange(1, 7), rng.randrange(0, 3))))

    # -- period filters: continuous object and its discontinuous copy
    for c, f, kind, fk in period_cases:
        ctx.count('period:' + fk)
    compare_batch(ctx, 'cont_ap', period_cases,
                  lambda x: 'cont_ap %s %s' % (_line_ap(x[0]), _line_ap(x[1])),
                  _guard(lambda x: _show(_cont(x[0]).filter_by_analysis_period(_mk_ap(x[1])))), canon=_canon)
    small = [x for x in period_cases if _ndays_of(x[0]) * 24 * x[0][6] <= ctx.n(1500, 4000) and _fsteps(x[1]) <= 20000]
    compare_batch(ctx, 'disc_ap', small,
                  lambda x: 'disc_ap %s 1 %s %s' % (_line_ap(x[0]), _ints(_ref_moys(x[0])), _line_ap(x[1])),
                  _guard(lambda x: _show(_disc_of_cont(x[0]).filter_by_analysis_period(_mk_ap(x[1])))),
                  canon=_canon, key=lambda x: ('d', x[0], x[1]))
    compare_batch(ctx, 'ap_subset', period_cases,
                  lambda x: 'ap_subset %s %s' % (_line_ap(x[0]), _line_ap(x[1])),
                  _guard(lambda x: 'ok ' + _line_ap(_ap_fields(
                      _cont(x[0])._get_analysis_period_subset(_mk_ap(x[1]))))), canon=_canon)

    # -- explicit minute lists
    for c, req, kind, rk in moy_cases:
        ctx.count('moys:' + rk)
    compare_batch(ctx, 'cont_moys', moy_cases,
                  lambda x: 'cont_moys %s %s' % (_line_ap(x[0]), _ints(x[1])),
                  _guard(lambda x: _show(_cont(x[0]).filter_by_moys(list(x[1])))), canon=_canon)
    small = [x for x in moy_cases if _ndays_of(x[0]) * 24 * x[0][6] <= ctx.n(1500, 4000)]
    compare_batch(ctx, 'disc_moys', small,
                  lambda x: 'disc_moys %s 1 %s %s' % (_line_ap(x[0]), _ints(_ref_moys(x[0])), _ints(x[1])),
                  _guard(lambda x: _show(_disc_of_cont(x[0]).filter_by_moys(tuple(x[1])))), canon=_canon)

    # -- hour lists
    for c, hs, kind, rk in hoy_cases:
        ctx.count('hoys:' + rk)
    compare_batch(ctx, 'cont_hoys', hoy_cases,
                  lambda x: 'cont_hoys %s %d %s' % (_line_ap(x[0]), len(x[1]), ' '.join(_fbits(h) for h in x[1])),
                  _guard(lambda x: _show(_cont(x[0]).filter_by_hoys(list(x[1])))), canon=_canon,
                  key=lambda x: (x[0], tuple(repr(h) for h in x[1])))
    small = [x for x in hoy_cases if _ndays_of(x[0]) * 24 * x[0][6] <= ctx.n(1500, 4000)]
    compare_batch(ctx, 'disc_hoys', small,
                  lambda x: 'disc_hoys %s 1 %s %d %s' % (_line_ap(x[0]), _ints(_ref_moys(x[0])), len(x[1]),
                                                     ' '.join(_fbits(h) for h in x[1])),
                  _guard(lambda x: _show(_disc_of_cont(x[0]).filter_by_hoys(list(x[1])))), canon=_canon,
                  key=lambda x: ('d', x[0], tuple(repr(h) for h in x[1])))

    # -- pattern / range / statement on continuous sources
    compare_batch(ctx, 'cont_pattern', pat_cases,
                  lambda x: 'cont_pattern %s %s' % (_line_ap(x[0]), _ints([1 if b else 0 for b in x[1]])),
                  _guard(lambda x: _show(_cont(x[0]).filter_by_pattern(list(x[1])))), canon=_canon)
    rcs = [x for x in val_cases if x[0] == 'range']
    compare_batch(ctx, 'cont_range', rcs,
                  lambda x: 'cont_range %s %s %s %s' % (_line_ap(x[1]), _opt(x[3][0]), _opt(x[3][1]), _ints(x[2])),
                  _guard(lambda x: _show(_range(_cont(x[1], x[2]), x[3]))), canon=_canon,
                  key=lambda x: (x[1], x[3], tuple(x[2][:50])))
    scs = [x for x in val_cases if x[0] == 'stmt']
    compare_batch(ctx, 'cont_stmt', scs,
                  lambda x: 'cont_stmt %s %d %d %d %d %s' % ((_line_ap(x[1]),) + x[3] + (_ints(x[2]),)),
                  _guard(lambda x: _show(_cont(x[1], x[2]).filter_by_conditional_statement(STMTS[x[3][0]](*x[3][1:])))),
                  canon=_canon, key=lambda x: (x[1], x[3], tuple(x[2][:50])))

    # -- discontinuous sources with holes / unsorted steps
    dsrc = _disc_sources(ctx, rng)
    dper, dmoy, dhoy, dpat, dval = [], [], [], [], []
    for c, moys, shape, vflag in dsrc:
        ctx.count('disc_src:' + shape)
        ctx.count('disc_src_validated:%s' % vflag)
        for _ in range(3):
            a = _doy(c[7], c[0], c[1])
            fa = max(1, a - rng.randrange(0, 3))
            fb = min(_ndays(c[7]), fa + rng.randrange(0, 5))
            sh, eh = rng.choice([(0, 23), (0, 23), _rand_window(rng)])
            f = _date(c[7], fa) + (sh,) + _date(c[7], fb) + (eh, c[6], c[7])
            if shape == 'year-ends' and rng.random() < 0.6:
                f = (12, 31, sh, 1, 1, eh, c[6], c[7])
            if rng.random() < 0.08:
                f = f[:6] + (rng.choice([t for t in VALID_TS if t != c[6]]), c[7])
            dper.append((c, moys, f, vflag))
        for req, rk in _moy_requests(rng, c, moys, 3):
            dmoy.append((c, moys, req, vflag))
        ms = rng.sample(moys, min(3, len(moys)))
        dhoy.append((c, moys, [m / 60.0 for m in ms] + ([ms[0] / 60.0 + 0.004] if rng.random() < 0.3 else []), vflag))
        plen = rng.choice([0, 1, 2, 5, len(moys), len(moys) + 2])
        dpat.append((c, moys, [rng.random() < 0.5 for _ in range(plen)], vflag))
        vals = [rng.randrange(-20, 21) for _ in moys]
        dval.append(('range', c, moys, vals, (rng.choice([None, -3, 4]), rng.choice([None, 3, 12])), vflag))
        dval.append(('stmt', c, moys, vals, (rng.randrange(4), rng.randrange(-22, 22), rng.randrange(1, 7),
                                            rng.randrange(0, 3)), vflag))
    compare_batch(ctx, 'disc_ap', dper,
                  lambda x: 'disc_ap %s %s %s %s' % (_line_ap(x[0]), _b(x[3]), _ints(x[1]), _line_ap(x[2])),
                  _guard(lambda x: _show(_disc(x[0], x[1], None, x[3]).filter_by_analysis_period(_mk_ap(x[2])))),
                  canon=_canon)
    compare_batch(ctx, 'disc_moys', dmoy,
                  lambda x: 'disc_moys %s %s %s %s' % (_line_ap(x[0]), _b(x[3]), _ints(x[1]), _ints(x[2])),
                  _guard(lambda x: _show(_disc(x[0], x[1], None, x[3]).filter_by_moys(list(x[2])))), canon=_canon)
    compare_batch(ctx, 'disc_hoys', dhoy,
                  lambda x: 'disc_hoys %s %s %s %d %s' % (_line_ap(x[0]), _b(x[3]), _ints(x[1]), len(x[2]),
                                                        ' '.join(_fbits(h) for h in x[2])),
                  _guard(lambda x: _show(_disc(x[0], x[1], None, x[3]).filter_by_hoys(list(x[2])))), canon=_canon,
                  key=lambda x: (x[0], tuple(x[1]), tuple(repr(h) for h in x[2])))
    compare_batch(ctx, 'keyed_pattern', dpat,
                  lambda x: 'keyed_pattern %s %s %s %s' % (_line_ap(x[0]), _b(x[3]), _ints(x[1]),
                                                          _ints([1 if b else 0 for b in x[2]])),
                  _guard(lambda x: _show(_disc(x[0], x[1], None, x[3]).filter_by_pattern(list(x[2])))), canon=_canon)
    compare_batch(ctx, 'keyed_range', [x for x in dval if x[0] == 'range'],
                  lambda x: 'keyed_range %s %s %s %s %s' % (_line_ap(x[1]), _b(x[5]), _opt(x[4][0]), _opt(x[4][1]),
                                                           _kv(x[2], x[3])),
                  _guard(lambda x: _show(_range(_disc(x[1], x[2], x[3], x[5]), x[4]))), canon=_canon)
    compare_batch(ctx, 'keyed_stmt', [x for x in dval if x[0] == 'stmt'],
                  lambda x: 'keyed_stmt %s %s %d %d %d %d %s' % ((_line_ap(x[1]), _b(x[5])) + x[4] + (_kv(x[2], x[3]),)),
                  _guard(lambda x: _show(_disc(x[1], x[2], x[3], x[5]).filter_by_conditional_statement(
                      STMTS[x[4][0]](*x[4][1:])))), canon=_canon)

    # -- daily / monthly / monthly-per-hour collections
    dk, da, mk_, ma, pk, pa, kp = [], [], [], [], [], [], []
    for _ in range(ctx.n(70, 300)):
        kc = _keyed_case(rng)
        hdr, doys, months, keys = kc['hdr'], kc['doys'], kc['months'], kc['keys']
        ctx.count('keyed:leap=%s' % kc['leap'])
        ctx.count('keyed:daily_%s' % kc['shape'])
        if kc['leap'] and 366 in doys:
            ctx.count('keyed:daily_has_366')
            if 366 in kc['dreq']:
                ctx.count('keyed:daily_req_366')
        dk.append((hdr, doys, kc['dreq']))
        da.append((hdr, doys, kc['dfilt']))
        mk_.append((hdr, months, kc['mreq']))
        ma.append((hdr, months, kc['mfilt']))
        pk.append((hdr, keys, kc['preq']))
        pa.append((hdr, keys, kc['pfilt']))
        kp.append((hdr, doys, [rng.random() < 0.5 for _ in range(rng.choice([0, 1, 3, len(doys)]))]))
    compare_batch(ctx, 'keys', dk, lambda x: 'keys %s %s %s %s' % (_line_ap(x[0]), _vf(x[1]), _ints(x[1]), _ints(x[2])),
                  _guard(lambda x: _show(_daily(x[0], x[1], None, _vf(x[1]) == '1').filter_by_doys(list(x[2])))), canon=_canon,
                  key=lambda x: ('daily',) + tuple(map(str, x)))
    compare_batch(ctx, 'daily_ap', da,
                  lambda x: 'daily_ap %s %s %s %s' % (_line_ap(x[0]), _vf(x[1]), _ints(x[1]), _line_ap(x[2])),
                  _guard(lambda x: _show(_daily(x[0], x[1], None, _vf(x[1]) == '1').filter_by_analysis_period(_mk_ap(x[2])))),
                  canon=_canon)
    compare_batch(ctx, 'keys', mk_, lambda x: 'keys %s %s %s %s' % (_line_ap(x[0]), _vf(x[1]), _ints(x[1]), _ints(x[2])),
                  _guard(lambda x: _show(_monthly(x[0], x[1], None, _vf(x[1]) == '1').filter_by_months(list(x[2])))), canon=_canon,
                  key=lambda x: ('monthly',) + tuple(map(str, x)))
    compare_batch(ctx, 'monthly_ap', ma,
                  lambda x: 'monthly_ap %s %s %s %s' % (_line_ap(x[0]), _vf(x[1]), _ints(x[1]), _line_ap(x[2])),
                  _guard(lambda x: _show(_monthly(x[0], x[1], None, _vf(x[1]) == '1').filter_by_analysis_period(_mk_ap(x[2])))),
                  canon=_canon)
    compare_batch(ctx, 'mph_keys', pk,
                  lambda x: 'mph_keys %s %s %s %s' % (_line_ap(x[0]), _vf(x[1]), _triples(x[1]), _triples(x[2])),
                  _guard(lambda x: _show(_mph(x[0], x[1], _vf(x[1]) == '1').filter_by_months_per_hour([tuple(k) for k in x[2]]))),
                  canon=_canon)
    compare_batch(ctx, 'mph_ap', pa,
                  lambda x: 'mph_ap %s %s %s %s' % (_line_ap(x[0]), _vf(x[1]), _triples(x[1]), _line_ap(x[2])),
                  _guard(lambda x: _show(_mph(x[0], x[1], _vf(x[1]) == '1').filter_by_analysis_period(_mk_ap(x[2])))),
                  canon=_canon)
    compare_batch(ctx, 'keyed_pattern', kp,
                  lambda x: 'keyed_pattern %s %s %s %s' % (_line_ap(x[0]), _vf(x[1]), _ints(x[1]),
                                                          _ints([1 if b else 0 for b in x[2]])),
                  _guard(lambda x: _show(_daily(x[0], x[1], None, _vf(x[1]) == '1').filter_by_pattern(list(x[2])))), canon=_canon,
                  key=lambda x: ('daily',) + tuple(map(str, x)))

    # -- histories on one object: every step of the model's state machine against the real object
    hcases = []
    for _ in range(ctx.n(170, 800)):
        init, ops = _gen_history(rng, True)
        _count_history(ctx, 'hist', init, ops)
        hcases.append((init, ops))
    compare_batch(ctx, 'hist', hcases, _hist_line, _run_real_history, canon=_canon,
                  key=lambda x: json.dumps(x, sort_keys=True))
    _CACHE.clear()


def _count_history(ctx, tag, init, ops):
    ctx.count('%s:kind=%s' % (tag, init['kind']))
    ctx.count('%s:%s' % (tag, 'mutable' if init['mutable'] else 'immutable'))
    ctx.count('%s:leap=%s' % (tag, init['ap'][7]))
    ctx.count('%s:ts=%d' % (tag, init['ap'][6]))
    if len(init['vals']) == 1:
        ctx.count('%s:single-value' % tag)
    if (init['ap'][0], init['ap'][1]) > (init['ap'][3], init['ap'][4]):
        ctx.count('%s:wrapping-header' % tag)
    for op in ops:
        ctx.count('%s:op=%s' % (tag, op[0] if op[0] not in ('read', 'chain') else op[0] + '-' + op[1][0]))
        if op[0] == 'read' and op[1][0] == 'range' and (op[1][1] == 0 or op[1][2] == 0):
            ctx.count('%s:range-zero-bound' % tag)
    if ops and ops[0][0] not in ('read', 'chain', 'repeat', 'dup', 'toimm', 'tomut'):
        ctx.count('%s:setter-first' % tag)


def _vf(keys):
    """validated_a_period flag given to a keyed source: parity of its first key (both values occur)."""
    k = keys[0]
    return _b((k[1] if isinstance(k, (tuple, list)) else k) % 2 == 1)


def _opt(v):
    return 'N' if v is None else str(int(v))


def _kv(keys, vals):
    return '%d %s' % (len(keys), ' '.join('%d %d' % kv for kv in zip(keys, vals)))


def _triples(keys):
    return '%d %s' % (len(keys), ' '.join('%d %d %d' % tuple(k) for k in keys))


def _range(coll, lohi):
    lo, hi = lohi
    kw = {}
    if lo is not None:
        kw['greater_than'] = lo
    if hi is not None:
        kw['less_than'] = hi
    return coll.filter_by_range(**kw)


def _rand_period(rng, leap, ts=None):
    n = _ndays(leap)
    a, b = rng.randrange(1, n + 1), rng.randrange(1, n + 1)
    if rng.random() < 0.7 and a > b:
        a, b = b, a
    sh, eh = rng.choice([(0, 23), (0, 23), _rand_window(rng)])
    return _date(leap, a) + (sh,) + _date(leap, b) + (eh, ts or rng.choice([1, 1, 2, 4]), leap)


def _float_hour_assumption(ctx):
    """Hypothesis of theorem C02_hoys, exhaustively: round((m / 60.0) * 60) == m for every minute."""
    bad = [m for m in range(0, 527040) if int(round((m / 60.0) * 60)) != m]
    ctx.compared += 527040
    ctx.count('float_hour_assumption_minutes', 527040)
    if bad:
        ctx.disagree('float_hour_assumption', {'moy': bad[0]}, str(bad[0]), repr((bad[0] / 60.0) * 60))


# ---------------------------------------------------------------------------------------------
# property oracle (statement evaluated on the real classes; independent of the model)


def _pairs(coll):
    return [(d.moy, v) for d, v in zip(coll.datetimes, coll.values)]


def _dt_problem(coll, leap):
    """Date-times of a result must be DateTimes of the source's year kind."""
    for d in coll.datetimes:
        if bool(d.leap_year) != bool(leap):
            return 'date-time %s has leap_year=%s' % (d, d.leap_year)
    return None


def _ref_clip(src, f):
    """Steps of the filter `f` that the source `src` holds, in the filter's order, and whether the case is
    inside the property's domain for the continuous period filter (see ASSUMPTIONS)."""
    sset = set(_ref_moys(src))
    fm = _ref_moys(f)
    e = [m for m in fm if m in sset]
    if len(e) == len(fm):
        return e, True
    fd, sd = _ref_days(f), _ref_days(src)
    sdset = set(sd)
    idx = [k for k, d in enumerate(fd) if d in sdset]
    if not idx or idx != list(range(idx[0], idx[-1] + 1)):
        return e, False
    sidx = [sd.index(fd[k]) for k in idx]
    if sidx != list(range(sidx[0], sidx[-1] + 1)):
        return e, False
    if len(set(fd)) != len(fd):
        return e, False
    if fd[0] > fd[-1] and sd[0] <= sd[-1]:
        return e, False                 # a wrapping filter that leaves a non-wrapping source: not "inside"
    overnight = f[2] > f[5]
    return e, not overnight


def check_case(op, inp):
    with _quiet():
        return _check_case(op, inp)


def _fail(req, obs, sig):
    return {'required': req, 'observed': obs, 'sig': sig}


def _short(l, k=6):
    l = list(l)
    return l if len(l) <= 2 * k else l[:k] + ['...%d more...' % (len(l) - 2 * k)] + l[-k:]


def _check_case(op, inp):
    if op == 'history':
        return _check_history(inp)
    if op == 'procorder':
        return _check_procorder(inp)
    src = tuple(inp['src']) if 'src' in inp else None
    if op == 'period':
        f = tuple(inp['filter'])
        path = inp['path']
        skind = _src_kind(src)
        sig = {'path': path, 'src': skind, 'filter': inp.get('fkind', '?'),
               'filter_wraps': _ref_days(f)[0] > _ref_days(f)[-1] or
               (len(_ref_days(f)) > 1 and _ref_days(f)[0] == _ref_days(f)[-1])}
        smoys = _ref_moys(src)
        idof = {m: i for i, m in enumerate(smoys)}
        e, dom = _ref_clip(src, f)
        if not e or (path == 'cont' and not dom):
            return None                      # outside the property's quantifier
        want = [(m, idof[m]) for m in e]
        coll = _cont(src) if path == 'cont' else _disc_of_cont(src)
        try:
            r = coll.filter_by_analysis_period(_mk_ap(f))
        except Exception as ex:
            return _fail('%d pairs %s' % (len(want), _short(want, 3)), 'raises %s: %s' % (type(ex).__name__, str(ex)[:120]),
                         dict(sig, what='raises', err=type(ex).__name__))
        got = _pairs(r)
        if Counter(got) != Counter(want):
            return _fail(_short(want), _short(got), dict(sig, what='pairs'))
        hm = set(_ref_moys(_ap_fields(r.header.analysis_period)))
        out = [m for m, _ in got if m not in hm]
        if out:
            return _fail('header period %s contains every result date-time' % (r.header.analysis_period,),
                         'minute %d is not a step of it' % out[0], dict(sig, what='header'))
        p = _dt_problem(r, src[7])
        if p:
            return _fail('date-times of the source year', p, dict(sig, what='leap'))
        if got != want:
            return _fail('order of the period: %s' % _short(want), _short(got), dict(sig, what='order'))
        return None
    if op in ('moys', 'hoys'):
        path = inp['path']
        req = list(inp['req'])
        skind = _src_kind(src)
        sig = {'path': path, 'src': skind}
        smoys = _ref_moys(src)
        idof = {m: i for i, m in enumerate(smoys)}
        want = [(m, idof[m]) for m in req]
        res = {}
        for p_ in (['cont', 'disc'] if path == 'both' else [path]):
            coll = _cont(src) if p_ == 'cont' else _disc_of_cont(src)
            try:
                if op == 'moys':
                    r = coll.filter_by_moys(list(req))
                else:   # hours that are no steps of the collection (inp['foreign'], minutes) select nothing
                    hs = [m / 60.0 for m in req] + [m / 60.0 for m in inp.get('foreign', [])]
                    r = coll.filter_by_hoys(hs[1:] + hs[:1])
            except Exception as ex:
                return _fail('%d pairs %s' % (len(want), _short(want, 3)),
                             'raises %s: %s' % (type(ex).__name__, str(ex)[:120]),
                             dict(sig, path=p_, what='raises', err=type(ex).__name__))
            got = _pairs(r)
            res[p_] = got
            if Counter(got) != Counter(want):
                return _fail(_short(sorted(want)), _short(sorted(got)), dict(sig, path=p_, what='pairs'))
            if _ap_fields(r.header.analysis_period) != src:
                return _fail('header period of the source', str(r.header.analysis_period), dict(sig, path=p_, what='header'))
            p = _dt_problem(r, src[7])
            if p:
                return _fail('date-times of the source year', p, dict(sig, path=p_, what='leap'))
        if len(res) == 2 and Counter(res['cont']) != Counter(res['disc']):
            return _fail('same pairs from both paths', 'cont %s vs disc %s' % (_short(res['cont']), _short(res['disc'])),
                         dict(sig, what='cont-vs-disc'))
        return None
    if op == 'values':
        kind = inp['kind']
        vals = inp['vals']
        cls = inp['cls']
        keys = inp['keys']
        if cls == 'cont':
            coll = _cont(src, vals)
            keys = _ref_moys(src)
        elif cls == 'disc':
            coll = _disc(src, keys, vals)
        elif cls == 'daily':
            coll = _daily(src, keys, vals)
        else:
            coll = _monthly(src, keys, vals)
        sig = {'kind': kind, 'cls': cls}
        if kind == 'pattern':
            pat = inp['pattern']
            keep = [i for i in range(len(vals)) if pat[i % len(pat)]]
            call = lambda: coll.filter_by_pattern(list(pat))   # noqa: E731
        elif kind == 'range':
            lo, hi = inp['lo'], inp['hi']
            keep = [i for i, a in enumerate(vals) if (lo is None or lo < a) and (hi is None or a < hi)]
            call = lambda: _range(coll, (lo, hi))              # noqa: E731
        else:
            code, x, y, z = inp['stmt']
            pr = _stmt_pred(code, x, y, z)
            keep = [i for i, a in enumerate(vals) if pr(a)]
            call = lambda: coll.filter_by_conditional_statement(STMTS[code](x, y, z))   # noqa: E731
        if not keep:
            return None
        want = [(keys[i], vals[i]) for i in keep]
        try:
            r = call()
        except Exception as ex:
            return _fail(_short(want), 'raises %s: %s' % (type(ex).__name__, str(ex)[:120]),
                         dict(sig, what='raises', err=type(ex).__name__))
        got = _pairs(r) if cls in ('cont', 'disc') else list(zip(r.datetimes, r.values))
        if got != want:
            return _fail(_short(want), _short(got), dict(sig, what='positions'))
        return None
    if op == 'keys':
        cls = inp['cls']
        keys = [tuple(k) if isinstance(k, list) else k for k in inp['keys']]
        sig = {'cls': cls, 'by': inp['by']}
        if cls == 'daily':
            coll = _daily(src, keys)
        elif cls == 'monthly':
            coll = _monthly(src, keys)
        else:
            coll = _mph(src, keys)
        if inp['by'] == 'keys':
            req = [tuple(k) if isinstance(k, list) else k for k in inp['req']]
            call = {'daily': lambda: coll.filter_by_doys(list(req)),
                    'monthly': lambda: coll.filter_by_months(list(req)),
                    'mph': lambda: coll.filter_by_months_per_hour(list(req))}[cls]
            hdr = src
        else:
            f = tuple(inp['filter'])
            fm = _ref_moys(f)
            if cls == 'daily':
                req = set(m // 1440 + 1 for m in fm)
            else:
                y = 2016 if f[7] else 2017
                mons = set((datetime(y, 1, 1) + timedelta(minutes=m)).month for m in fm)
                if cls == 'monthly':
                    req = mons
                else:   # months of the period x times of day of the period (C04: months_per_hour is a product)
                    tod = set(m % 1440 for m in fm)
                    req = set((mo, t // 60, t % 60) for mo in mons for t in tod)
            call = lambda: coll.filter_by_analysis_period(_mk_ap(f))   # noqa: E731
            hdr = f
        want = [(k, i) for i, k in enumerate(keys) if k in req]
        if not want:
            return None
        try:
            r = call()
        except Exception as ex:
            return _fail(_short(want), 'raises %s: %s' % (type(ex).__name__, str(ex)[:120]),
                         dict(sig, what='raises', err=type(ex).__name__))
        got = list(zip(r.datetimes, r.values))
        if got != want:
            return _fail(_short(want), _short(got), dict(sig, what='pairs'))
        if _ap_fields(r.header.analysis_period) != hdr:
            return _fail('header period %s' % (hdr,), str(r.header.analysis_period), dict(sig, what='header'))
        return None
    raise ValueError('unknown op ' + op)


# ---------------------------------------------------------------------------------------------
# histories on ONE object (round 3): setters, in-place operations, refused operations, twins, chains
#
# A history is  init = {kind, mutable, ap, validated, keys, vals, dtype}  +  ops (JSON lists):
#   ['read', R] | ['chain', R] | ['repeat'] | ['setv', vals] | ['setbad', k] | ['seti', i, v] | ['cull', ts] |
#   ['unit', u] | ['dup'] | ['toimm'] | ['tomut'] | ['todisc']
#   R = ['keys', req] | ['hoys', floats] | ['period', fields, pre] | ['pattern', bools] | ['range', lo, hi] |
#       ['stmt', code, x, y, z] | ['all']
# kinds: c continuous, d discontinuous hourly, y daily, m monthly, p monthly-per-hour (oracle only).
# 'repeat' asks the last question again with the SAME argument object; 'pre' names a property of the
# (pooled, re-used) AnalysisPeriod object that is read before the filter; 'unit' (oracle only) is
# convert_to_unit / convert_to_ip / convert_to_si on a Temperature collection.


KIND_NAMES = {'c': 'continuous', 'd': 'discontinuous', 'y': 'daily', 'm': 'monthly', 'p': 'monthly-per-hour'}


def _hist_build(init):
    from ladybug import datacollection as dc
    from ladybug import datacollectionimmutable as dci
    from ladybug.header import Header
    from ladybug.dt import DateTime
    kind, mutable, ap = init['kind'], init['mutable'], tuple(init['ap'])
    if init.get('dtype') == 'temp':
        from ladybug.datatype.temperature import Temperature
        header = Header(Temperature(), 'C', _mk_ap(ap))
    else:
        header = _header(ap)
    vals = list(init['vals'])
    name = {'c': 'HourlyContinuousCollection', 'd': 'HourlyDiscontinuousCollection', 'y': 'DailyCollection',
            'm': 'MonthlyCollection', 'p': 'MonthlyPerHourCollection'}[kind]
    cls = getattr(dc, name) if mutable else getattr(dci, name + 'Immutable')
    if kind == 'c':
        return cls(header, vals)
    keys = init['keys']
    if kind == 'd':
        keys = [DateTime.from_moy(m, ap[7]) for m in keys]
    elif kind == 'p':
        keys = [tuple(k) for k in keys]
    coll = cls(header, vals, list(keys))
    coll._validated_a_period = bool(init.get('validated', False))
    return coll


def _kind_of(coll):
    from ladybug import datacollection as dc
    if isinstance(coll, dc.HourlyContinuousCollection):
        return 'c'
    if isinstance(coll, dc.HourlyDiscontinuousCollection):
        return 'd'
    if isinstance(coll, dc.DailyCollection):
        return 'y'
    if isinstance(coll, dc.MonthlyCollection):
        return 'm'
    return 'p'


def _keys_of(coll):
    k = _kind_of(coll)
    if k in 'cd':
        return [d.moy for d in coll.datetimes]
    if k == 'p':
        return [tuple(d) for d in coll.datetimes]
    return [int(d) for d in coll.datetimes]


class _Real(object):
    """One object of the implementation and the argument objects of its history."""

    def __init__(self, init):
        self.obj = _hist_build(init)
        self.aps = {}
        self.last = None

    def _ap(self, fields):
        fields = tuple(fields)
        if fields not in self.aps:
            self.aps[fields] = _mk_ap(fields)
        return self.aps[fields]

    def _arg(self, r):
        t = r[0]
        if t == 'keys':
            return [tuple(k) if isinstance(k, list) else k for k in r[1]]
        if t == 'hoys':
            return list(r[1])
        if t == 'period':
            return self._ap(r[1])
        if t == 'pattern':
            return [bool(b) for b in r[1]]
        return None

    def _ask(self, r, arg):
        o, t = self.obj, r[0]
        if t == 'keys':
            k = _kind_of(o)
            if k in 'cd':
                return o.filter_by_moys(arg)
            return getattr(o, {'y': 'filter_by_doys', 'm': 'filter_by_months', 'p': 'filter_by_months_per_hour'}[k])(arg)
        if t == 'hoys':
            return o.filter_by_hoys(arg)
        if t == 'period':
            pre = r[2] if len(r) > 2 else ''
            if pre == 'len':
                len(arg)
            elif pre:
                getattr(arg, pre)
            return o.filter_by_analysis_period(arg)
        if t == 'pattern':
            return o.filter_by_pattern(arg)
        if t == 'range':
            return _range(o, (r[1], r[2]))
        if t == 'stmt':
            return o.filter_by_conditional_statement(STMTS[r[1]](*r[2:5]))
        if t == 'all':
            return o
        raise ValueError('unknown read %r' % (r,))

    def do(self, op):
        """-> ('coll', collection, is_all) | ('done',) | ('err', class name, message)."""
        try:
            with _quiet():
                return self._do(op)
        except Exception as e:
            return ('err', err_name(e), '%s: %s' % (type(e).__name__, str(e)[:160]))

    def _do(self, op):
        t, o = op[0], self.obj
        if t in ('read', 'chain', 'repeat'):
            if t == 'repeat':
                if self.last is None:
                    return ('coll', o, True)
                r, arg = self.last
            else:
                r = op[1]
                arg = self._arg(r)
                self.last = (r, arg)
            res = self._ask(r, arg)
            if t == 'chain':
                self.obj = res if r[0] != 'all' else res.to_mutable()
            return ('coll', res, r[0] == 'all')
        if t == 'setv':
            o.values = list(op[1])
        elif t == 'setbad':
            k = op[1]
            o.values = (x for x in [1, 2, 3]) if k == 1 else ['abc', {'a': 1}, 7, None][len(o) % 4]
        elif t == 'seti':
            o[op[1]] = op[2]
        elif t == 'cull':
            o.convert_to_culled_timestep(op[1])
        elif t == 'unit':
            u = op[1]
            if u == 'ip':
                o.convert_to_ip()
            elif u == 'si':
                o.convert_to_si()
            else:
                o.convert_to_unit(u)
        elif t == 'dup':
            self.obj = o.duplicate()
        elif t == 'toimm':
            self.obj = o.to_immutable()
        elif t == 'tomut':
            self.obj = o.to_mutable()
        elif t == 'todisc':
            self.obj = o.to_discontinuous()
        else:
            raise ValueError('unknown op %r' % (op,))
        return ('done',)


def _show_all(coll):
    k = _kind_of(coll)
    keys = _keys_of(coll)
    vals = coll.values
    return ('ok A %s %s %s %d %s' % (k, _line_ap(_ap_fields(coll.header.analysis_period)), _b(coll.validated_a_period),
                                      len(vals), ' '.join('%s %s' % kv for kv in zip(keys, vals)))).rstrip()


def _hist_text(res):
    if res[0] == 'done':
        return 'done'
    if res[0] == 'err':
        return 'err:' + res[1]
    try:
        with _quiet():
            return _show_all(res[1]) if res[2] else _show(res[1])
    except Exception as e:
        return 'err-show:' + err_name(e)


def _run_real_history(case):
    init, ops = case
    try:
        with _quiet():
            real = _Real(init)
    except Exception as e:
        return 'err-build:' + err_name(e)
    return ' | '.join(_hist_text(real.do(op)) for op in ops)


def _read_tokens(r):
    t = r[0]
    if t == 'keys':
        return 'keys %s' % _ints(r[1])
    if t == 'hoys':
        return 'hoys %d %s' % (len(r[1]), ' '.join(_fbits(h) for h in r[1]))
    if t == 'period':
        return 'period %s' % _line_ap(r[1])
    if t == 'pattern':
        return 'pattern %s' % _ints([1 if b else 0 for b in r[1]])
    if t == 'range':
        return 'range %s %s' % (_opt(r[1]), _opt(r[2]))
    if t == 'stmt':
        return 'stmt %d %d %d %d' % tuple(r[1:5])
    return 'all'


def _hist_line(case):
    """Request line of the model driver for a history (no 'unit' ops, no kind 'p')."""
    init, ops = case
    toks = []
    last = None
    for op in ops:
        t = op[0]
        if t in ('read', 'chain'):
            last = op[1]
            toks.append('%s %s' % (t, _read_tokens(op[1])))
        elif t == 'repeat':
            toks.append('read %s' % _read_tokens(last if last is not None else ['all']))
        elif t == 'setv':
            toks.append('setv %s' % _ints(op[1]))
        elif t == 'setbad':
            toks.append('setbad %d' % op[1])
        elif t == 'seti':
            toks.append('seti %d %d' % (op[1], op[2]))
        elif t == 'cull':
            toks.append('cull %d' % op[1])
        else:
            toks.append(t)
    return 'hist %s %s %s %s %s %s %d %s' % (
        init['kind'], _b(init['mutable']), _line_ap(init['ap']), _b(init.get('validated', False)),
        _ints(init['keys'] if init['kind'] != 'c' else []), _ints(init['vals']), len(ops), ' '.join(toks))


# -- the specification of an object: a pure function of its public state -------------------------


class _Shadow(object):
    """Public state of a collection as the user established it, and what the property requires of a
    filter of it (plain Python from the statement; no model, no implementation)."""

    def __init__(self, init):
        self.kind = init['kind']
        self.mutable = bool(init['mutable'])
        self.ap = tuple(init['ap'])
        self.vals = list(init['vals'])
        if self.kind == 'c':
            self.keys = _ref_moys(self.ap)
        elif self.kind == 'p':
            self.keys = [tuple(k) for k in init['keys']]
        else:
            self.keys = list(init['keys'])
        self.temp = init.get('dtype') == 'temp'
        self.last = None
        self.note = None      # 'cont-cull-nondividing': date-times no longer the steps of the header period

    def pairs(self):
        return list(zip(self.keys, self.vals))

    # -- what a read must answer: None = outside the property's quantifier; else
    #    {'want': pairs, 'ordered': bool, 'header': 'same' | 'contains' | fields}
    def expect(self, r):
        t, kind = r[0], self.kind
        ps = self.pairs()
        if t == 'all':
            return {'want': ps, 'ordered': True, 'header': self.ap, 'all': True}
        if t in ('keys', 'hoys'):
            if kind not in 'cd' and t == 'hoys':
                return None
            if t == 'hoys':
                req = [int(round(h * 60)) for h in r[1]]
                if any(abs(h * 60 - m) > 1e-6 for h, m in zip(r[1], req)):
                    return None
            else:
                req = [tuple(k) if isinstance(k, list) else k for k in r[1]]
            have = set(self.keys)
            if kind in 'cd':
                if not req or len(set(req)) != len(req) or any(m not in have for m in req):
                    return None
                if len(have) != len(self.keys):
                    return None
                rs = set(req)
                return {'want': [p for p in ps if p[0] in rs], 'ordered': False, 'header': self.ap}
            rs = set(req)
            want = [p for p in ps if p[0] in rs]
            return {'want': want, 'ordered': True, 'header': self.ap} if want else None
        if t == 'period':
            f = tuple(r[1])
            if kind == 'c':
                if f[6] != self.ap[6] or f[7] != self.ap[7] or self.note:
                    return None
                e, dom = _ref_clip(self.ap, f)
                if not e or not dom:
                    return None
                at = dict(ps)
                return {'want': [(m, at[m]) for m in e], 'ordered': True, 'header': 'contains'}
            if kind == 'd':
                if f[6] != self.ap[6] or f[7] != self.ap[7]:
                    return None
                order = {}
                for i, m in enumerate(_ref_moys(f)):
                    order.setdefault(m, i)
                want = sorted([p for p in ps if p[0] in order], key=lambda p: order[p[0]])
                return {'want': want, 'ordered': True, 'header': 'contains'} if want else None
            fm = _ref_moys(f)
            if kind == 'y':
                if f[7] != self.ap[7]:
                    return None
                req = set(m // 1440 + 1 for m in fm)
            else:
                y = 2016 if f[7] else 2017
                mons = set((datetime(y, 1, 1) + timedelta(minutes=m)).month for m in fm)
                if kind == 'm':
                    req = mons
                else:
                    tod = set(m % 1440 for m in fm)
                    req = set((mo, x // 60, x % 60) for mo in mons for x in tod)
            want = [p for p in ps if p[0] in req]
            return {'want': want, 'ordered': True, 'header': f} if want else None
        if t == 'pattern':
            pat = r[1]
            if not pat:
                return None
            want = [p for i, p in enumerate(ps) if pat[i % len(pat)]]
        elif t == 'range':
            lo, hi = r[1], r[2]
            want = [p for p in ps if (lo is None or lo < p[1]) and (hi is None or p[1] < hi)]
        elif t == 'stmt':
            if self.temp:
                return None
            pr = _stmt_pred(r[1], r[2], r[3], r[4])
            want = [p for p in ps if pr(p[1])]
        else:
            raise ValueError('unknown read %r' % (r,))
        return {'want': want, 'ordered': True, 'header': self.ap} if want else None

    # -- the unchanged implementation's acceptance rules (used by the generator only)
    def accepts(self, op):
        t = op[0]
        n = len(self.vals)
        if t == 'setv':
            return self.mutable and len(op[1]) == n and n > 0
        if t == 'setbad':
            return False
        if t == 'seti':
            return self.mutable and -n <= op[1] < n
        if t == 'cull':
            return self.mutable and self.kind in 'cd' and op[1] in VALID_TS
        if t == 'unit':
            return self.mutable and self.temp and op[1] in ('C', 'F', 'K', 'ip', 'si')
        if t == 'todisc':
            return self.kind == 'c'
        return True

    def apply(self, op, values_after=None):
        """The public state after an ACCEPTED setter / in-place operation / conversion.
        Returns False when the shadow cannot follow (the history ends without a verdict)."""
        t = op[0]
        n = len(self.vals)
        if t == 'setv':
            if len(op[1]) != n:
                return False
            self.vals = list(op[1])
        elif t == 'seti':
            if not -n <= op[1] < n:
                return False
            self.vals[op[1]] = op[2]
        elif t == 'cull':
            if self.kind not in 'cd' or op[1] not in VALID_TS:
                return False
            step = 60 // op[1]
            ps = [p for p in self.pairs() if p[0] % step == 0]
            self.ap = self.ap[:6] + (op[1], self.ap[7])
            self.keys = [p[0] for p in ps]
            self.vals = [p[1] for p in ps]
            if self.kind == 'c' and self.keys != _ref_moys(self.ap):
                self.note = 'cont-cull-nondividing'
            if not ps:
                return False
        elif t == 'unit':
            if values_after is None or len(values_after) != n:
                return False
            self.vals = list(values_after)
        elif t == 'toimm':
            self.mutable = False
        elif t == 'tomut':
            self.mutable = True
        elif t == 'todisc':
            if self.kind != 'c':
                return False
            self.kind, self.mutable = 'd', True
        elif t == 'dup':
            pass
        else:
            return False
        return True

    def become(self, kind, ap, keys, vals):
        self.kind, self.mutable, self.ap, self.keys, self.vals = kind, True, tuple(ap), list(keys), list(vals)
        self.note = None


def _judge_read(exp, res, leap):
    """Compare what a read answered (`res` of _Real.do) with what the property requires (`exp`)."""
    want = exp['want']
    if res[0] == 'err':
        return ('%d pairs %s' % (len(want), _short(want, 3)), 'raises ' + res[2], 'raises')
    if res[0] != 'coll':
        return ('a collection', repr(res), 'no-result')
    r = res[1]
    try:
        with _quiet():
            got = list(zip(_keys_of(r), r.values))
            hdr = _ap_fields(r.header.analysis_period)
            if exp.get('all'):
                extra = None
                if len(r) != len(want):
                    extra = 'len() = %d' % len(r)
                elif list(iter(r)) != [v for _, v in want]:
                    extra = 'iteration gives %s' % _short(list(iter(r)))
                elif _kind_of(r) in 'cd' and len(set(k for k, _ in want)) == len(want) and r.moys_dict != dict(want):
                    extra = 'moys_dict differs'
                if extra:
                    return ('%d pairs %s' % (len(want), _short(want, 3)), extra, 'state')
            bad_leap = _dt_problem(r, leap) if _kind_of(r) in 'cd' else None
    except Exception as e:
        return ('%d pairs %s' % (len(want), _short(want, 3)), 'reading the result raises %s: %s' % (type(e).__name__, e),
                'raises')
    if exp['ordered']:
        if got != want:
            what = 'pairs' if Counter(got) != Counter(want) else 'order'
            return (_short(want), _short(got), what)
    elif Counter(got) != Counter(want):
        return (_short(sorted(want)), _short(sorted(got)), 'pairs')
    h = exp['header']
    if h == 'contains':
        hm = set(_ref_moys(hdr))
        out = [m for m, _ in got if m not in hm]
        if out:
            return ('header period %s contains every result date-time' % (hdr,), 'minute %d is not a step of it' % out[0],
                    'header')
    elif tuple(h) != hdr:
        return ('header period %s' % (tuple(h),), str(hdr), 'header')
    if bad_leap:
        return ('date-times of the source year', bad_leap, 'leap')
    return None


def _check_history(inp):
    """Oracle for a history: after every step the observables the property speaks about are those of
    the public state the user established; a refused operation leaves them as they were."""
    init, ops = inp['init'], inp['ops']
    sh = _Shadow(init)
    sig0 = {'cls': init['kind'], 'mutable': bool(init['mutable'])}
    try:
        with _quiet():
            real = _Real(init)
    except Exception as e:
        return _fail('the collection can be built', 'raises %s: %s' % (type(e).__name__, str(e)[:120]),
                     dict(sig0, what='build', err=type(e).__name__))
    done = []
    marks = []
    for k, op in enumerate(ops):
        t = op[0]
        res = real.do(op)
        if t not in ('read', 'repeat'):
            marks.append(t + ('-refused' if res[0] == 'err' else ''))
        if t in ('read', 'chain', 'repeat'):
            r = sh.last if t == 'repeat' else op[1]
            if r is None:
                r = ['all']
            sh.last = r
            exp = sh.expect(r)
            if exp is not None:
                bad = _judge_read(exp, res, sh.ap[7])
                if bad:
                    hist = ', '.join(_op_name(o) for o in done) or 'nothing'
                    return _fail('after [%s] the %s collection answers %s with %s' % (hist, KIND_NAMES[sh.kind],
                                                                                      _op_name(op), bad[0]),
                                 bad[1], dict(sig0, what=bad[2], read=r[0], step=k, state=sh.note or 'coherent',
                                              after=sorted(set(marks[:-1] if t == 'chain' else marks))))
            if t == 'chain':
                if res[0] == 'coll':
                    if exp is None:
                        return None                      # cannot follow an answer outside the quantifier
                    c = res[1]
                    with _quiet():
                        sh.become(_kind_of(c), _ap_fields(c.header.analysis_period), _keys_of(c), c.values)
        elif res[0] == 'done' and not sh.accepts(op):
            # an operation that should have been refused went through: when the object still is a collection
            # (one value per date-time, a continuous one in step with its header) that is the new public state;
            # otherwise the last state the user established stays the reference for the filters that follow
            marks[-1] = t + '-accepted'
            try:
                with _quiet():
                    o = real.obj
                    kk, kv = _keys_of(o), list(o.values)
                    kap, kkind = _ap_fields(o.header.analysis_period), _kind_of(o)
                if len(kk) == len(kv) and kv and (kkind != 'c' or kk == _ref_moys(kap)):
                    mut = sh.mutable
                    sh.become(kkind, kap, kk, kv)
                    sh.mutable = mut
            except Exception:
                pass
        elif res[0] == 'done':
            after = None
            if t == 'unit':
                with _quiet():
                    after = list(real.obj.values)
            if not sh.apply(op, after):
                return None
        # a refused operation (res[0] == 'err'): the public state is the one before
        done.append(op)
    return None


def _op_name(op):
    t = op[0]
    if t in ('read', 'chain'):
        r = op[1]
        arg = '' if r[0] == 'all' else json.dumps(r[1:])[:80]
        return '%s %s%s' % ('filter' if t == 'read' else 'go on with filter', r[0], arg)
    if t == 'setv':
        return 'values = <%d values>' % len(op[1])
    if t == 'setbad':
        return 'values = <no list>'
    if t == 'seti':
        return 'coll[%d] = %d' % (op[1], op[2])
    if t == 'cull':
        return 'convert_to_culled_timestep(%d)' % op[1]
    if t == 'unit':
        return 'convert to %s' % op[1]
    return {'dup': 'duplicate()', 'toimm': 'to_immutable()', 'tomut': 'to_mutable()', 'todisc': 'to_discontinuous()',
            'repeat': 'the same question again'}[t]


# -- generator of histories ----------------------------------------------------------------------


def _hist_init(rng, model_only):
    kind = rng.choice('ccccdddyym' if model_only else 'ccccdddyymp')
    leap = rng.random() < 0.5
    n = _ndays(leap)
    mutable = rng.random() < 0.75
    ts = rng.choice(VALID_TS)
    init = {'kind': kind, 'mutable': mutable, 'validated': rng.random() < 0.5, 'dtype': 'id'}
    if kind == 'c':
        shape = rng.choice(['partial', 'partial', 'wrapping', 'feb', 'year-end', 'year-start'])
        maxdays = max(1, min(4, 1500 // (24 * ts)))
        length = rng.randrange(1, maxdays + 1)
        if shape == 'wrapping' and length > 1:
            la = rng.randrange(1, length)
            a, b = n - la + 1, length - la
        else:
            a = {'feb': max(1, 60 - rng.randrange(0, length + 1)), 'year-end': n - length + 1,
                 'year-start': 1}.get(shape, rng.randrange(1, n - length + 2))
            a = max(1, min(a, n - length + 1))
            b = a + length - 1
        ap = _date(leap, a) + (0,) + _date(leap, b) + (23, ts, leap)
        nv = len(_ref_days(ap)) * 24 * ts
        init.update(ap=list(ap), keys=[])
    elif kind == 'd':
        shape = rng.choice(['holes', 'holes', 'single', 'year-ends', 'unsorted', 'full'])
        a = rng.randrange(1, n - 2)
        ap = _date(leap, a) + (rng.choice([0, 0, 6]),) + _date(leap, a + rng.randrange(0, 3)) + (rng.choice([23, 23, 18]), ts, leap)
        if shape == 'year-ends':
            ap = (12, 31, 0, 1, 1, 23, ts, leap)
        base = _ref_moys(ap)
        if len(base) > 600:
            base = base[:300] + base[-300:]
        if shape == 'single':
            keys = [rng.choice([base[0], base[-1], rng.choice(base)])]
        elif shape == 'full':
            keys = list(base)
        else:
            keys = [m for m in base if rng.random() < 0.6] or base[:1]
        if shape == 'unsorted':
            rng.shuffle(keys)
        nv = len(keys)
        init.update(ap=list(ap), keys=keys)
    elif kind == 'y':
        ap = _key_period(rng, leap, ts=rng.choice([1, 1, 2])) if rng.random() < 0.5 else (1, 1, 0, 12, 31, 23, 1, leap)
        shape = rng.choice(['full', 'ends', 'random', 'single'])
        if shape == 'full':
            keys = list(range(1, n + 1))
        elif shape == 'ends':
            keys = [1, 2, 59, 60, 61, n - 1, n]
        elif shape == 'single':
            keys = [rng.choice([1, 60, n])]
        else:
            keys = sorted(rng.sample(range(1, n + 1), rng.choice([3, 10, 40])))
        nv = len(keys)
        init.update(ap=list(ap), keys=keys)
    elif kind == 'm':
        ap = _key_period(rng, leap, ts=1) if rng.random() < 0.5 else (1, 1, 0, 12, 31, 23, 1, leap)
        keys = rng.choice([list(range(1, 13)), [12, 1, 2], [1], [12], sorted(rng.sample(range(1, 13), 5))])
        nv = len(keys)
        init.update(ap=list(ap), keys=keys)
    else:
        ts = rng.choice([1, 2, 4, 6])
        step = 60 // ts
        ap = _key_period(rng, leap, ts=ts)
        months = rng.sample(range(1, 13), 2) + [12]
        allk = [(mo, h, mi) for mo in months for h in range(24) for mi in range(0, 60, step)]
        keys = [list(k) for k in rng.sample(allk, rng.choice([1, 5, 30]))]
        nv = len(keys)
        init.update(ap=list(ap), keys=keys)
    r = rng.random()
    if r < 0.35:
        init['vals'] = list(range(nv))
    else:
        init['vals'] = [rng.randrange(-20, 21) for _ in range(nv)]
    if not model_only and kind != 'p' and rng.random() < 0.3:
        init['dtype'] = 'temp'
    return init


def _hist_read(rng, sh, model_only):
    """One question to the object in its current public state (mostly inside the quantifier)."""
    kind = sh.kind
    keys = sh.keys
    n = len(keys)
    t = rng.choice(['keys', 'keys', 'period', 'period', 'pattern', 'range', 'stmt', 'all', 'hoys'])
    if t == 'hoys' and kind not in 'cd':
        t = 'keys'
    if t == 'stmt' and sh.temp:
        t = 'range'
    if t in ('keys', 'hoys'):
        k = rng.choice([1, 1, 2, 5, min(n, 20)])
        req = rng.sample(keys, min(k, n))
        if rng.random() < 0.3:
            req = list(OrderedDict.fromkeys([keys[0], keys[-1]] + req))
        if rng.random() < 0.12:         # not in the collection / nothing at all
            req = req + [rng.choice([-60, 0, 1, 366, 367, 13, 527040, 999999])] if kind != 'p' else req + [(13, 0, 0)]
            if rng.random() < 0.3:
                req = []
        if t == 'hoys':
            return ['hoys', [m / 60.0 for m in req]]
        return ['keys', [list(x) if isinstance(x, tuple) else x for x in req]]
    if t == 'period':
        pre = rng.choice(['', '', '', 'moys', 'len', 'hoys', 'datetimes', 'doys_int', 'months_int'])
        if kind == 'c':
            fk = rng.choice(PERIOD_KINDS)
            f = _gen_filter(rng, sh.ap, fk)
        elif kind == 'd':
            a = (keys[0] // 1440) + 1
            nd = _ndays(sh.ap[7])
            fa = max(1, a - rng.randrange(0, 2))
            fb = min(nd, fa + rng.randrange(0, 4))
            shh, ehh = rng.choice([(0, 23), (0, 23), _rand_window(rng)])
            f = _date(sh.ap[7], fa) + (shh,) + _date(sh.ap[7], fb) + (ehh, sh.ap[6], sh.ap[7])
            if rng.random() < 0.25:
                f = (12, 31, shh, 1, 1, ehh, sh.ap[6], sh.ap[7])
            if rng.random() < 0.06:
                f = f[:6] + (rng.choice([x for x in VALID_TS if x != sh.ap[6]]), sh.ap[7])
        else:
            f = _key_period(rng, sh.ap[7] if rng.random() < 0.92 else not sh.ap[7], ts=rng.choice([1, 2, 4]))
        if _fsteps(f) > 6000:
            f = f[:6] + (sh.ap[6] if kind in 'cd' else 1, f[7])
            if _fsteps(f) > 6000 and not (f[2] == 0 and f[5] == 23):
                f = f[:2] + (0,) + f[3:5] + (23,) + f[6:]
        if _fsteps(f) > 2000 and pre in ('moys', 'hoys', 'datetimes'):
            pre = rng.choice(['', 'doys_int', 'months_int'])       # enumerating a long period costs 10-50 ms
        return ['period', list(f), pre]
    if t == 'pattern':
        plen = rng.choice([1, 1, 2, 3, 7, n, n + 2, max(1, n - 1), 0])
        pat = [rng.random() < 0.5 for _ in range(plen)]
        if rng.random() < 0.15:
            pat = [rng.random() < 0.5] * plen
        return ['pattern', pat]
    if t == 'range':
        if sh.temp:
            pool = [None, None, 0, 0.0, -5, 5, 273.15, 32.0]
        elif model_only:
            pool = [None, None, 0, 0, -5, 5, int(rng.choice(sh.vals)), int(min(sh.vals)), int(max(sh.vals))]
        else:
            pool = [None, None, 0, 0, 0.0, -0.0, -5, 5, rng.choice(sh.vals), min(sh.vals), max(sh.vals)]
        return ['range', rng.choice(pool), rng.choice(pool)]
    if t == 'stmt':
        return ['stmt', rng.randrange(4), rng.randrange(-20, 20), rng.randrange(1, 6), rng.randrange(0, 3)]
    return ['all']


def _gen_history(rng, model_only, nops=None):
    """(init, ops): a generated history; the generator follows the public state with `_Shadow` under
    the acceptance rules of the unchanged implementation, so that later questions refer to steps that
    are present."""
    init = _hist_init(rng, model_only)
    sh = _Shadow(init)
    ops = []
    nops = nops or rng.choice([3, 5, 7, 9, 12])
    first_refused = rng.random() < 0.15
    while len(ops) < nops:
        n = len(sh.vals)
        r = rng.random()
        if first_refused and not ops:
            r = 0.62
        elif ops and ops[-1][0] not in ('read', 'repeat') and rng.random() < 0.7:
            r = 0.0                       # a question right after a setter / refused operation / conversion
        if r < 0.5:
            rd = _hist_read(rng, sh, model_only)
            ops.append(['read', rd])
            sh.last = rd
            continue
        if r < 0.56:
            ops.append(['repeat'])
            continue
        if r < 0.7:                       # operations the implementation refuses
            cand = [['setv', [rng.randrange(-9, 10) for _ in range(rng.choice([n + 1, max(0, n - 1), 0, 2 * n + 1]))]],
                    ['setbad', rng.choice([0, 0, 1])],
                    ['seti', rng.choice([n, -n - 1, n + 5]), rng.randrange(-9, 10)],
                    ['cull', rng.choice([0, 7, 8, 9, 61, 24])]]
            if not model_only:
                cand.append(['unit', 'X'])
            if sh.kind != 'c':
                cand.append(['todisc'])
            if not sh.mutable:            # everything is refused by an immutable twin
                cand += [['setv', [rng.randrange(-9, 10) for _ in range(n)]], ['seti', rng.randrange(-n, n), 3],
                         ['cull', 1]]
            op = rng.choice(cand)
            if sh.accepts(op):
                continue
            ops.append(op)
        elif r < 0.88:                    # accepted setters / in-place operations
            cand = [['setv', [rng.randrange(-20, 21) for _ in range(n)]],
                    ['seti', rng.choice([0, -1, n - 1, -n, rng.randrange(-n, n)]), rng.choice([0, rng.randrange(-20, 21)])]]
            if sh.kind == 'c':
                cand += [['cull', x] for x in VALID_TS if sh.ap[6] % x == 0 and x != sh.ap[6]][:3]
            elif sh.kind == 'd':
                fit = [x for x in VALID_TS if any(m % (60 // x) == 0 for m in sh.keys)]
                cand += [['cull', rng.choice(fit)], ['cull', rng.choice(fit)]] if fit else []
            if sh.temp and not model_only:
                cand += [['unit', rng.choice(['K', 'F', 'C', 'ip', 'si'])]] * 2
            op = rng.choice(cand)
            if not sh.accepts(op):
                continue
            if op[0] == 'unit':           # the generator cannot know the converted values: stop following
                ops.append(op)
                ops.append(['read', ['all']])
                ops.append(['read', ['pattern', [True, False]]])
                break
            if not sh.apply(op):
                break
            ops.append(op)
        elif r < 0.95:
            op = [rng.choice(['dup', 'toimm', 'tomut', 'todisc' if sh.kind == 'c' else 'dup'])]
            if not sh.apply(op):
                break
            ops.append(op)
        else:                             # go on with the result of a filter
            rd = _hist_read(rng, sh, model_only)
            exp = sh.expect(rd)
            if exp is None or rd[0] == 'all':
                continue
            want = exp['want']
            if rd[0] == 'period' and sh.kind == 'c':
                f = _apsubset_ref(sh.ap, tuple(rd[1]))
                if f is None:
                    continue
                if f[2] == 0 and f[5] == 23:
                    sh.become('c', f, [m for m, _ in want], [v for _, v in want])
                else:
                    sh.become('d', f, [m for m, _ in want], [v for _, v in want])
            elif rd[0] == 'period':
                sh.become(sh.kind, tuple(rd[1]), [m for m, _ in want], [v for _, v in want])
            elif rd[0] in ('keys', 'hoys') and sh.kind == 'c':
                req = rd[1] if rd[0] == 'keys' else [int(round(h * 60)) for h in rd[1]]
                at = dict(want)
                sh.become('d', sh.ap, req, [at[m] for m in req])
            else:
                sh.become('d' if sh.kind == 'c' else sh.kind, sh.ap, [m for m, _ in want], [v for _, v in want])
            ops.append(['chain', rd])
            sh.last = rd
    ops.append(['read', _hist_read(rng, sh, model_only)])
    ops.append(['read', ['all']])
    return init, ops


def _apsubset_ref(src, f):
    """Header period the continuous period filter gives its result when the filter lies inside the
    source (then it is the filter itself); None when the filter is clipped (the generator does not
    continue with such a result)."""
    fm, sset = _ref_moys(f), set(_ref_moys(src))
    return f if all(m in sset for m in fm) else None


# ---------------------------------------------------------------------------------------------
# process-order independence: a slice of the oracle stream in fresh Python processes, each with its
# own order of the cases (module / class level state polluted by an earlier case shows as a failure
# that carries the order)


def _worker_main():
    """Entry point of the fresh process: evaluate the cases read from stdin in the order given."""
    data = json.load(sys.stdin)
    out = []
    for op, inp in data['cases']:
        try:
            res = check_case(op, inp)
        except Exception as e:
            res = {'required': 'oracle evaluates', 'observed': 'exception %s: %s' % (type(e).__name__, e),
                   'sig': {'exception': type(e).__name__}}
        out.append(res)
    sys.stdout.write('\n@@RESULT@@' + json.dumps(out, default=str))


def _fresh_process(cases, timeout=600):
    """Run `check_case` on the (op, inp) pairs, in this order, in a fresh interpreter."""
    from harness.core import REPO, ROOT
    code = ('import sys; sys.path[:0] = [%r, %r]; from harness.props import c02; c02._worker_main()' % (REPO, ROOT))
    env = dict(os.environ, LADYBUG_REPO=REPO)
    p = subprocess.run([sys.executable, '-c', code], input=json.dumps({'cases': cases}).encode('utf-8'),
                       stdout=subprocess.PIPE, stderr=subprocess.PIPE, env=env, timeout=timeout)
    out = p.stdout.decode('utf-8', 'replace')
    if p.returncode != 0 or '@@RESULT@@' not in out:
        msg = 'fresh process failed (exit %d): %s' % (p.returncode, p.stderr.decode('utf-8', 'replace')[-400:])
        return [{'required': 'the cases evaluate in a fresh process', 'observed': msg,
                 'sig': {'what': 'process', 'exit': p.returncode}}] + [None] * (len(cases) - 1)
    return json.loads(out.split('@@RESULT@@')[1])


def _check_procorder(inp):
    """Replay of a process-order failure: the cases of `inp['order']` (ids into `inp['cases']`) evaluated in a
    fresh process in that order; the verdict is the one of the last case."""
    cases = [inp['cases'][str(i)] for i in inp['order']]
    res = _fresh_process(cases)
    bad = [(i, r) for i, r in zip(inp['order'], res) if r]
    if not bad:
        return None
    i, r = bad[-1] if bad[-1][0] == inp['order'][-1] else bad[0]
    sig = dict(r.get('sig') or {})
    sig['process_order'] = True
    return _fail('%s (case %s, evaluated in a fresh process after the cases %s)' % (r.get('required'), i, inp['order'][:-1]),
                 r.get('observed'), sig)


def _rarity(case):
    """Sort key that puts the rare classes first: leap, wrapping, sub-hourly, immutable, refused-first."""
    op, inp = case
    src = inp.get('src') or (inp.get('init') or {}).get('ap') or [1, 1, 0, 12, 31, 23, 1, False]
    score = 0
    score += 4 if src[7] else 0
    score += 3 if (src[0], src[1]) > (src[3], src[4]) else 0
    score += 2 if src[6] > 4 else (1 if src[6] > 1 else 0)
    if op == 'history':
        score += 2 if not inp['init']['mutable'] else 0
        ops = inp['ops']
        score += 3 if ops and ops[0][0] in ('setv', 'setbad', 'seti', 'cull', 'unit', 'todisc') else 0
    return -score


def _process_order(ctx, cases):
    """Evaluate `cases` in 2-4 fresh processes with different orders; record failures with a replay."""
    nproc = ctx.n(2, 4) if not ctx.searching else 4
    idx = list(range(len(cases)))
    orders = [sorted(idx, key=lambda i: (_rarity(cases[i]), i)),
              sorted(idx, key=lambda i: (-_rarity(cases[i]), -i))]
    while len(orders) < nproc:
        o = list(idx)
        ctx.rng.shuffle(o)
        orders.append(o)
    for k, order in enumerate(orders[:nproc]):
        res = _fresh_process([cases[i] for i in order])
        ctx.count('process_order:processes')
        ctx.count('process_order:cases', len(order))
        for pos, (i, r) in enumerate(zip(order, res)):
            ctx.case(('procorder', k, i))
            if not r:
                continue
            op, inp = cases[i]
            if (r.get('sig') or {}).get('state') == 'cont-cull-nondividing':     # the recorded finding (corpus)
                ctx.fail(op, inp, r.get('required'), r.get('observed'), r.get('sig'))
                continue
            alone = _fresh_process([cases[i]])[0] if pos > 0 else r
            if alone:                       # fails on its own: the plain case is the replay
                ctx.fail(op, inp, alone.get('required'), alone.get('observed'), alone.get('sig'))
            else:                           # needs the cases evaluated before it
                prefix = order[:pos + 1]
                pinp = {'order': prefix, 'cases': dict((str(j), cases[j]) for j in prefix)}
                sig = dict(r.get('sig') or {})
                sig['process_order'] = True
                ctx.fail('procorder', pinp, '%s (case %d, evaluated in a fresh process after the cases %s)'
                         % (r.get('required'), i, prefix[:-1]), r.get('observed'), sig)
            break                           # one replay per process is enough


replay = check_case

# witnesses of the repaired defects and of the open finding (always evaluated)
CORPUS = [
    # leap-year daily collections: day 366 by key list and by periods that contain 31 Dec (seeded C02-4)
    ('keys', {'src': [1, 1, 0, 12, 31, 23, 1, True], 'cls': 'daily', 'by': 'keys', 'keys': list(range(1, 367)),
              'req': [1, 60, 365, 366]}),
    ('keys', {'src': [1, 1, 0, 12, 31, 23, 1, True], 'cls': 'daily', 'by': 'period', 'keys': list(range(1, 367)),
              'filter': [12, 1, 0, 12, 31, 23, 1, True]}),
    ('keys', {'src': [1, 1, 0, 12, 31, 23, 1, True], 'cls': 'daily', 'by': 'period', 'keys': [366, 1, 60, 2],
              'filter': [12, 30, 0, 1, 2, 23, 1, True]}),
    ('keys', {'src': [1, 1, 0, 12, 31, 23, 1, True], 'cls': 'daily', 'by': 'period', 'keys': list(range(1, 367)),
              'filter': [1, 1, 0, 12, 31, 23, 1, True]}),
    ('keys', {'src': [1, 1, 0, 12, 31, 23, 1, False], 'cls': 'daily', 'by': 'keys', 'keys': list(range(1, 366)),
              'req': [365, 1]}),
    ('keys', {'src': [1, 1, 0, 12, 31, 23, 1, True], 'cls': 'monthly', 'by': 'period', 'keys': list(range(1, 13)),
              'filter': [12, 30, 0, 1, 2, 23, 1, True]}),
    ('keys', {'src': [1, 1, 0, 12, 31, 23, 4, True], 'cls': 'mph', 'by': 'keys',
              'keys': [[12, 23, 45], [12, 23, 30], [2, 0, 15], [1, 0, 0]], 'req': [[12, 23, 45], [2, 0, 15], [12, 23, 59]]}),
    ('keys', {'src': [1, 1, 0, 12, 31, 23, 4, True], 'cls': 'mph', 'by': 'period',
              'keys': [[12, 23, 45], [12, 22, 30], [1, 0, 15], [6, 12, 0]], 'filter': [12, 30, 22, 1, 2, 23, 4, True]}),
    ('period', {'src': [12, 1, 0, 1, 31, 23, 1, False], 'path': 'cont', 'fkind': 'straddle',
                'filter': [12, 15, 0, 1, 15, 23, 1, False]}),
    ('period', {'src': [12, 1, 0, 1, 31, 23, 1, False], 'path': 'cont', 'fkind': 'inside',
                'filter': [1, 5, 0, 1, 10, 23, 1, False]}),
    ('period', {'src': [12, 1, 0, 1, 31, 23, 1, False], 'path': 'cont', 'fkind': 'inside',
                'filter': [12, 5, 0, 12, 10, 23, 1, False]}),
    ('period', {'src': [12, 1, 0, 1, 31, 23, 2, True], 'path': 'cont', 'fkind': 'window',
                'filter': [12, 30, 22, 1, 3, 5, 2, True]}),
    ('period', {'src': [12, 1, 0, 1, 31, 23, 1, False], 'path': 'cont', 'fkind': 'clip-both',
                'filter': [11, 1, 0, 2, 28, 23, 1, False]}),
    ('moys', {'src': [12, 1, 0, 1, 31, 23, 1, False], 'path': 'both', 'req': [480960]}),
    ('moys', {'src': [12, 1, 0, 1, 31, 23, 1, False], 'path': 'both', 'req': [0, 60, 525540]}),
    ('moys', {'src': [12, 30, 0, 1, 2, 23, 4, True], 'path': 'both', 'req': [0, 15, 527025, 524160]}),
    ('hoys', {'src': [12, 30, 0, 1, 2, 23, 4, True], 'path': 'both', 'req': [0, 15, 527025, 524160]}),
    ('hoys', {'src': [3, 1, 0, 3, 31, 23, 2, False], 'path': 'both', 'req': [84960, 84990], 'foreign': [84930, 129600]}),
    ('hoys', {'src': [1, 1, 0, 1, 1, 23, 30, True], 'path': 'both', 'req': [246, 490, 492, 0]}),
    ('hoys', {'src': [1, 1, 0, 1, 1, 23, 60, False], 'path': 'both', 'req': [123, 245, 247, 1439]}),
    ('period', {'src': [1, 1, 0, 12, 31, 23, 1, False], 'path': 'cont', 'fkind': 'straddle',
                'filter': [12, 31, 0, 1, 1, 23, 1, False]}),
    # repaired C02-disc-period-order: a wrapping filter on the search path answers in the period's order
    ('period', {'src': [1, 1, 0, 12, 31, 23, 1, False], 'path': 'disc', 'fkind': 'straddle',
                'filter': [12, 31, 0, 1, 1, 23, 1, False]}),
    ('period', {'src': [3, 1, 0, 3, 31, 23, 2, False], 'path': 'cont', 'fkind': 'clip-end',
                'filter': [3, 30, 0, 4, 2, 23, 2, False]}),
    ('period', {'src': [2, 27, 0, 3, 2, 23, 6, True], 'path': 'cont', 'fkind': 'single',
                'filter': [2, 29, 0, 2, 29, 23, 6, True]}),
    # rare classes: bounds of exactly zero (int and float), the first minute / hour / day / month of the year,
    # one-element patterns
    ('values', {'src': [1, 1, 0, 1, 1, 23, 1, False], 'cls': 'cont', 'keys': [], 'kind': 'range', 'lo': 0, 'hi': None,
                'vals': [-3, -1, 0, 1, 2, 0, -2, 5, 0, 0, 1, -1, 3, -3, 0, 2, -2, 4, -4, 0, 1, 1, -1, 7]}),
    ('values', {'src': [1, 1, 0, 1, 1, 23, 1, False], 'cls': 'cont', 'keys': [], 'kind': 'range', 'lo': None, 'hi': 0.0,
                'vals': [-3, -1, 0, 1, 2, 0, -2, 5, 0, 0, 1, -1, 3, -3, 0, 2, -2, 4, -4, 0, 1, 1, -1, 7]}),
    ('values', {'src': [1, 1, 0, 12, 31, 23, 1, True], 'cls': 'monthly', 'keys': list(range(1, 13)), 'kind': 'range',
                'lo': 0.0, 'hi': 0, 'vals': [-3, -1, 0, 1, 2, 0, -2, 5, 0, 0, 1, -1]}),
    ('values', {'src': [1, 1, 0, 12, 31, 23, 1, True], 'cls': 'daily', 'keys': [1, 2, 3], 'kind': 'range',
                'lo': -1, 'hi': 0, 'vals': [-0.5, 0, 0.5]}),
    ('values', {'src': [1, 1, 0, 12, 31, 23, 1, True], 'cls': 'daily', 'keys': [1, 60, 366], 'kind': 'pattern',
                'pattern': [True], 'vals': [0, 0, 0]}),
    ('moys', {'src': [1, 1, 0, 12, 31, 23, 1, False], 'path': 'both', 'req': [0]}),
    ('hoys', {'src': [1, 1, 0, 12, 31, 23, 1, True], 'path': 'both', 'req': [0], 'foreign': []}),
    ('keys', {'src': [1, 1, 0, 12, 31, 23, 1, False], 'cls': 'daily', 'by': 'keys', 'keys': [1], 'req': [1]}),
    ('keys', {'src': [1, 1, 0, 12, 31, 23, 1, False], 'cls': 'monthly', 'by': 'keys', 'keys': [1, 12], 'req': [1, 0]}),
    # histories: read -> in-place cull -> read; refused assignment -> read; immutable twin
    ('history', {'init': {'kind': 'd', 'mutable': True, 'validated': False, 'dtype': 'id', 'ap': [6, 21, 0, 6, 21, 23, 4, False],
                          'keys': [246240 + 15 * i for i in range(96)], 'vals': list(range(96))},
                 'ops': [['read', ['keys', [246240, 246255]]], ['cull', 1], ['read', ['keys', [246240, 246300]]],
                         ['read', ['period', [6, 21, 9, 6, 21, 11, 1, False], '']], ['read', ['all']]]}),
    ('history', {'init': {'kind': 'c', 'mutable': True, 'validated': True, 'dtype': 'id', 'ap': [3, 1, 0, 3, 1, 23, 1, False],
                          'keys': [], 'vals': list(range(100, 124))},
                 'ops': [['setv', [-1] * 25], ['read', ['period', [3, 1, 0, 3, 1, 23, 1, False], '']],
                         ['read', ['keys', [84960]]], ['setv', []], ['setbad', 1], ['seti', 24, 0], ['read', ['all']]]}),
    ('history', {'init': {'kind': 'c', 'mutable': False, 'validated': True, 'dtype': 'id', 'ap': [12, 31, 0, 1, 1, 23, 2, True],
                          'keys': [], 'vals': list(range(96))},
                 'ops': [['seti', 0, 9], ['cull', 1], ['setv', list(range(96))], ['read', ['keys', [0, 525600]]],
                         ['tomut'], ['cull', 1], ['read', ['keys', [0, 525600]]], ['read', ['all']]]}),
    # open finding C02-cont-cull-nondividing-timestep
    ('history', {'init': {'kind': 'c', 'mutable': True, 'validated': True, 'dtype': 'id', 'ap': [1, 1, 0, 1, 1, 23, 4, False],
                          'keys': [], 'vals': list(range(96))},
                 'ops': [['cull', 3], ['read', ['keys', [60]]]]}),
]


def _oracle_cases(ctx):
    rng = ctx.rng
    for c in CORPUS:
        yield c
    big = ctx.searching or not ctx.quick
    srcs = _sources(ctx, rng, oracle=True)
    if ctx.searching and ctx.quick:
        srcs = srcs + [(_gen_source(rng, k, True), k) for k in ['partial', 'wrapping'] * 30]
    for c, kind in srcs:
        nvals = _ndays_of(c) * 24 * c[6]
        if nvals > (20000 if not big else 60000):
            continue
        kinds = [k for k in PERIOD_KINDS if k not in ('outside', 'two-piece', 'mismatch')]
        if kind == 'annual':
            kinds += ['wrap-long', 'straddle']
        for _ in range(ctx.n(4, 8) if nvals > 5000 else ctx.n(8, 12)):
            fk = rng.choice(kinds)
            f = _gen_filter(rng, c, fk)
            if _fsteps(f) > 40000 and not (f[2] == 0 and f[5] == 23):
                continue
            yield 'period', {'src': list(c), 'path': 'cont', 'fkind': fk, 'filter': list(f)}
            if nvals <= 1500 and _fsteps(f) <= 20000 and rng.random() < 0.5:
                yield 'period', {'src': list(c), 'path': 'disc', 'fkind': fk, 'filter': list(f)}
        smoys = _ref_moys(c)
        for _ in range(4):
            k = rng.choice([1, 2, 5, 20])
            req = rng.sample(smoys, min(k, len(smoys)))
            if rng.random() < 0.4:
                req = list(OrderedDict.fromkeys([smoys[0], smoys[-1], smoys[len(smoys) // 2]] + req))
            path = 'both' if nvals <= 1500 else 'cont'
            yield 'moys', {'src': list(c), 'path': path, 'req': req}
            if rng.random() < 0.5:
                req = list(OrderedDict.fromkeys(req + _truncation_sensitive(smoys, rng)))
                sset = set(smoys)
                nm = _nmin(c[7])
                step = 60 // c[6]
                cand = [smoys[-1] + step, smoys[0] - step, -60, nm, rng.randrange(nm) // step * step]
                foreign = [m for m in cand if m not in sset][:rng.choice([0, 1, 2])]
                yield 'hoys', {'src': list(c), 'path': path, 'req': req, 'foreign': foreign}
        if nvals <= 2500:
            vals = [rng.randrange(-20, 21) for _ in range(nvals)]
            yield 'values', {'src': list(c), 'cls': 'cont', 'keys': [], 'vals': vals, 'kind': 'pattern',
                             'pattern': [rng.random() < 0.5 for _ in range(rng.choice([1, 2, 3, 24, nvals, nvals + 2]))]}
            yield 'values', {'src': list(c), 'cls': 'cont', 'keys': [], 'vals': vals, 'kind': 'range',
                             'lo': rng.choice([None, -5, 0]), 'hi': rng.choice([None, 5, 12])}
            yield 'values', {'src': list(c), 'cls': 'cont', 'keys': [], 'vals': vals, 'kind': 'stmt',
                             'stmt': [rng.randrange(4), rng.randrange(-20, 20), rng.randrange(1, 6), rng.randrange(0, 3)]}
    for _ in range(70 if not big else 250):
        kc = _keyed_case(rng)
        leap, hdr, doys, months = kc['leap'], kc['hdr'], kc['doys'], kc['months']
        keys = [list(k) for k in kc['keys']]
        vals = [rng.randrange(-20, 21) for _ in doys]
        yield 'keys', {'src': list(hdr), 'cls': 'daily', 'by': 'keys', 'keys': doys, 'req': kc['dreq']}
        if kc['dfilt'][7] == leap:
            yield 'keys', {'src': list(hdr), 'cls': 'daily', 'by': 'period', 'keys': doys, 'filter': list(kc['dfilt'])}
        yield 'keys', {'src': list(hdr), 'cls': 'monthly', 'by': 'keys', 'keys': months, 'req': kc['mreq']}
        yield 'keys', {'src': list(hdr), 'cls': 'monthly', 'by': 'period', 'keys': months, 'filter': list(kc['mfilt'])}
        yield 'keys', {'src': list(hdr), 'cls': 'mph', 'by': 'keys', 'keys': keys, 'req': [list(k) for k in kc['preq']]}
        yield 'keys', {'src': list(hdr), 'cls': 'mph', 'by': 'period', 'keys': keys, 'filter': list(kc['pfilt'])}
        yield 'values', {'src': list(hdr), 'cls': 'daily', 'keys': doys, 'vals': vals, 'kind': 'pattern',
                         'pattern': [rng.random() < 0.5 for _ in range(rng.choice([1, 2, 3, len(doys)]))]}
        yield 'values', {'src': list(hdr), 'cls': 'daily', 'keys': doys, 'vals': vals, 'kind': 'range',
                         'lo': rng.choice([None, -5, 0]), 'hi': rng.choice([None, 5, 12])}
        dm = sorted(rng.sample(_ref_moys(hdr)[:500], min(20, len(_ref_moys(hdr)[:500]))))
        dv = [rng.randrange(-20, 21) for _ in dm]
        yield 'values', {'src': list(hdr), 'cls': 'disc', 'keys': dm, 'vals': dv, 'kind': 'stmt',
                         'stmt': [rng.randrange(4), rng.randrange(-20, 20), rng.randrange(1, 6), rng.randrange(0, 3)]}
        yield 'values', {'src': list(hdr), 'cls': 'disc', 'keys': dm, 'vals': dv, 'kind': 'pattern',
                         'pattern': [rng.random() < 0.5 for _ in range(rng.choice([1, 2, 5, len(dm) + 1]))]}
    for case in _families(rng, 5 if not big else 16):
        yield case
    for _ in range(ctx.n(160, 800) * (3 if ctx.searching and ctx.quick else 1)):
        init, ops = _gen_history(rng, False)
        _count_history(ctx, 'oracle_hist', init, ops)
        yield 'history', {'init': init, 'ops': ops}


def _families(rng, k):
    """Cases that differ in ONE coordinate of the configuration (leap flag, timestep, values) and are
    evaluated next to each other in one process: a memo keyed too coarsely answers the second one with
    the first one's data."""
    for _ in range(k):
        mo, d = rng.randrange(3, 12), rng.randrange(1, 24)       # the same CALENDAR dates in both year kinds
        length = rng.randrange(2, 6)
        ts = rng.choice([1, 2, 4])
        variants = [(ts, False), (ts, True), (rng.choice([x for x in (1, 2, 3, 4, 6) if x != ts]), False), (ts, False)]
        if rng.random() < 0.5:
            variants[0], variants[1] = variants[1], variants[0]
        i, j = sorted((rng.randrange(length), rng.randrange(length)))
        for vts, leap in variants:
            for case in _family_cases(mo, d, length, i, j, vts, leap):
                yield case


def _family_cases(mo, d, length, i, j, vts, leap):
    src = (mo, d, 0, mo, d + length - 1, 23, vts, leap)
    f = (mo, d + i, 0, mo, d + j, 23, vts, leap)
    w = f[:2] + (9,) + f[3:5] + (17,) + f[6:]
    sm = _ref_moys(src)
    req = [sm[0], sm[-1], sm[len(sm) // 3]]
    return [('period', {'src': list(src), 'path': 'cont', 'fkind': 'inside', 'filter': list(f)}),
            ('period', {'src': list(src), 'path': 'disc', 'fkind': 'window', 'filter': list(w)}),
            ('moys', {'src': list(src), 'path': 'both', 'req': req}),
            ('hoys', {'src': list(src), 'path': 'both', 'req': req, 'foreign': []})]


def _twin_probes(op, inp):
    """Cases that differ from (op, inp) in one coordinate of the source (leap flag with the same calendar
    dates, timestep): evaluated right before it in a fresh process they expose state keyed too coarsely."""
    if op not in ('period', 'moys', 'hoys') or 'src' not in inp:
        return []
    src = tuple(inp['src'])
    out = []
    alts = []
    if (src[0], src[1]) != (2, 29) and (src[3], src[4]) != (2, 29):
        alts.append(src[:7] + (not src[7],))
    alts.append(src[:6] + (2 if src[6] != 2 else 1, src[7]))
    for alt in alts:
        try:
            sm = _ref_moys(alt)
            req = [sm[0], sm[-1], sm[len(sm) // 2]]
            out.append([['moys', {'src': list(alt), 'path': 'both', 'req': req}],
                        ['hoys', {'src': list(alt), 'path': 'both', 'req': req, 'foreign': []}],
                        ['period', {'src': list(alt), 'path': 'cont', 'fkind': 'equal', 'filter': list(alt)}],
                        ['period', {'src': list(alt), 'path': 'cont', 'fkind': 'window',
                                    'filter': list(alt[:2] + (9,) + alt[3:5] + (17,) + alt[6:])}]])
        except Exception:
            pass
    return out


def _isolate_failures(ctx, cases):
    """A failure seen in this (long-lived) process may need state left by earlier cases: re-evaluate the first
    few failures alone in a fresh process; one that passes alone is turned into a `procorder` failure whose
    replay holds the (minimised) list of earlier cases it needs."""
    done = 0
    for fl in list(ctx.failures):
        if done >= 3:
            break
        if fl['sig'].get('state') == 'cont-cull-nondividing' or fl['op'] == 'procorder':
            continue
        idx = [i for i, c in enumerate(cases) if c[1] is fl['input']]
        if not idx:
            continue
        done += 1
        f = idx[0]
        one = [list(cases[f])]
        if _fresh_process(one)[0]:
            continue                                  # fails on its own: the plain replay is right
        runs = [0]

        def fails(prefix):
            runs[0] += 1
            return bool(_fresh_process([list(cases[i]) for i in prefix] + one)[-1])
        prefix = None
        for k in (25, 150, 1000, f):
            cand = list(range(max(0, f - k), f))
            if fails(cand):
                prefix = cand
                break
            if k >= f:
                break
        if prefix is None:
            # state left by the correspondence stage of this process? try the one-coordinate twins of the case
            for probe in _twin_probes(fl['op'], fl['input']):
                res = _fresh_process(probe + one)
                if res[-1] and not any(res[:-1]):
                    n = len(probe)
                    fl['input'] = {'order': list(range(n + 1)),
                                   'cases': dict((str(i), c) for i, c in enumerate(probe + one))}
                    fl['required'] = '%s (evaluated in a fresh process after %d cases on the same source with one ' \
                                     'coordinate changed: %s)' % (fl['required'], n, probe[0][1]['src'])
                    fl['op'] = 'procorder'
                    fl['sig'] = dict(fl['sig'], process_order=True, op='procorder')
                    break
            else:
                fl['sig'] = dict(fl['sig'], not_reproduced_alone=True)
            continue
        n = 2
        while len(prefix) >= 2 and runs[0] < 16:
            size = (len(prefix) + n - 1) // n
            chunks = [prefix[i:i + size] for i in range(0, len(prefix), size)]
            for ch in chunks:
                rest = [i for i in prefix if i not in ch]
                if rest and fails(rest):
                    prefix, n = rest, max(n - 1, 2)
                    break
            else:
                if n >= len(prefix):
                    break
                n = min(len(prefix), 2 * n)
        order = prefix + [f]
        fl['op'] = 'procorder'
        fl['input'] = {'order': order, 'cases': dict((str(i), list(cases[i])) for i in order)}
        fl['required'] = '%s (case %d, evaluated in a fresh process after the cases %s)' % (fl['required'], f, prefix)
        fl['sig'] = dict(fl['sig'], process_order=True, op='procorder')


def oracle(ctx):
    cases = []

    def counted():
        for op, inp in _oracle_cases(ctx):
            ctx.count('oracle_%s:%s' % (op, inp.get('fkind') or inp.get('kind') or inp.get('cls') or inp.get('path')
                                        or (inp.get('init') or {}).get('kind')))
            cases.append((op, inp))
            yield op, inp
    run_oracle_cases(ctx, counted(), check_case)
    _CACHE.clear()
    _isolate_failures(ctx, cases)
    # process-order independence: the fixed corpus, the one-coordinate families and a sample of the
    # histories and of the plain cases, in fresh processes with different orders
    if len(ctx.failures) < 200:
        nc = len(CORPUS)
        small = [c for c in cases[nc:] if c[0] != 'history' and len(json.dumps(c[1])) < 4000]
        fam = [c for c in small if c[1].get('fkind') in ('inside', 'window') and c[1].get('path') in ('cont', 'disc')][-32:]
        hist = [c for c in cases if c[0] == 'history']
        sl = [list(c) for c in (cases[:nc] + ctx.rng.sample(small, min(len(small), ctx.n(30, 120))) +
                                ctx.rng.sample(hist, min(len(hist), ctx.n(45, 120))))]
        sl += [list(c) for c in cases[nc:] if c[1].get('path') == 'both' and c[0] in ('moys', 'hoys')][-16:]
        _process_order(ctx, sl + [list(c) for c in fam])
